import JominiModel.Model.Basic
/-
Model of `src/binary/lexer.rs` (and `src/binary/rgb.rs`): the slice lexer of the binary
format.  Core Lean only.

Representation choices
* bytes are `List UInt8`; a `&[u8]` that the Rust narrows is the remaining list;
* `u16`/`u32`/`u64` payloads are `Nat` (decoded little endian, so always in range),
  `i32`/`i64` are `Int` (two's complement decoding), `[u8; 4]` / `[u8; 8]` float payloads
  and scalars are byte lists;
* `LexemeId` is the `Nat` value of the `u16`.
-/
namespace Jomini.BinLexer
open Jomini

/-! ### lexer.rs:10-48 — the 13 reserved lexeme ids -/
def OPEN : Nat := 0x0003
def CLOSE : Nat := 0x0004
def EQUAL : Nat := 0x0001
def U32 : Nat := 0x0014
def U64 : Nat := 0x029c
def I32 : Nat := 0x000c
def BOOL : Nat := 0x000e
def QUOTED : Nat := 0x000f
def UNQUOTED : Nat := 0x0017
def F32 : Nat := 0x000d
def F64 : Nat := 0x0167
def RGB : Nat := 0x0243
def I64 : Nat := 0x0317

/-- lexer.rs:65 `LexemeId::is_id` -/
def isId (x : Nat) : Bool :=
  !(x == OPEN || x == CLOSE || x == EQUAL || x == U32 || x == U64 || x == I32 || x == BOOL
    || x == QUOTED || x == UNQUOTED || x == F32 || x == F64 || x == RGB || x == I64)

/-- lexer.rs:320 `LexError` -/
inductive LexErr
  | eof
  | invalidRgb
  deriving DecidableEq, Repr, Inhabited

/-- rgb.rs `Rgb` -/
structure Rgb where
  r : Nat
  g : Nat
  b : Nat
  a : Option Nat
  deriving DecidableEq, Repr, Inhabited

/-- lexer.rs:177 `Token` -/
inductive Token
  | open
  | close
  | equal
  | u32 (v : Nat)
  | u64 (v : Nat)
  | i32 (v : Int)
  | bool (v : Bool)
  | quoted (s : Bytes)
  | unquoted (s : Bytes)
  | f32 (b : Bytes)
  | f64 (b : Bytes)
  | rgb (c : Rgb)
  | i64 (v : Int)
  | id (v : Nat)
  deriving DecidableEq, Repr, Inhabited

/-! ### little endian -/

/-- `uN::from_le_bytes` -/
def leNat : Bytes → Nat
  | [] => 0
  | b :: bs => b.toNat + 256 * leNat bs

/-- `uN::to_le_bytes` for an `n`-byte integer (the value is reduced mod `256^n`, which is
what the `as u16` cast in `Token::write` does for string lengths). -/
def leBytes : Nat → Nat → Bytes
  | 0, _ => []
  | n + 1, v => UInt8.ofNat (v % 256) :: leBytes n (v / 256)

/-- two's complement reading of an unsigned `bits`-bit value (`iN::from_le_bytes`) -/
def toSigned (bits : Nat) (u : Nat) : Int :=
  if u < 2 ^ (bits - 1) then (u : Int) else (u : Int) - (2 ^ bits : Nat)

/-- two's complement encoding of a signed value (`iN::to_le_bytes` feeds `leBytes`) -/
def ofSigned (bits : Nat) (v : Int) : Nat := (v % ((2 ^ bits : Nat) : Int)).toNat

/-- util.rs:9 `get_split::<N>`: `data.get(N..)` succeeds iff `N ≤ len`. -/
def getSplit (n : Nat) (d : Bytes) : Option (Bytes × Bytes) :=
  if n ≤ d.length then some (d.take n, d.drop n) else none

/-! ### lexer.rs:85-141 — the primitive readers -/

def readId (d : Bytes) : Except LexErr (Nat × Bytes) :=
  match getSplit 2 d with
  | none => .error .eof
  | some (h, r) => .ok (leNat h, r)

def readString (d : Bytes) : Except LexErr (Bytes × Bytes) :=
  match getSplit 2 d with
  | none => .error .eof
  | some (h, r) =>
    let textLen := leNat h
    if textLen ≤ r.length then .ok (r.take textLen, r.drop textLen) else .error .eof

def readBool (d : Bytes) : Except LexErr (Bool × Bytes) :=
  match d with
  | [] => .error .eof
  | first :: rest => .ok (first != 0, rest)

def readU32 (d : Bytes) : Except LexErr (Nat × Bytes) :=
  match getSplit 4 d with
  | none => .error .eof
  | some (h, r) => .ok (leNat h, r)

def readU64 (d : Bytes) : Except LexErr (Nat × Bytes) :=
  match getSplit 8 d with
  | none => .error .eof
  | some (h, r) => .ok (leNat h, r)

def readI64 (d : Bytes) : Except LexErr (Int × Bytes) :=
  match getSplit 8 d with
  | none => .error .eof
  | some (h, r) => .ok (toSigned 64 (leNat h), r)

def readI32 (d : Bytes) : Except LexErr (Int × Bytes) :=
  match getSplit 4 d with
  | none => .error .eof
  | some (h, r) => .ok (toSigned 32 (leNat h), r)

def readF32 (d : Bytes) : Except LexErr (Bytes × Bytes) :=
  match getSplit 4 d with
  | none => .error .eof
  | some (h, r) => .ok (h, r)

def readF64 (d : Bytes) : Except LexErr (Bytes × Bytes) :=
  match getSplit 8 d with
  | none => .error .eof
  | some (h, r) => .ok (h, r)

/-! The `?`-chains of `read_rgb` / `read_token` are written with the obvious sequencing
combinators over "reader of the remaining bytes" (each `?` is one `P.bind`). -/

/-- the shape of every reader of lexer.rs -/
abbrev P (α : Type) := Bytes → Except LexErr (α × Bytes)

def P.bind {α β : Type} (p : P α) (k : α → P β) : P β := fun d =>
  match p d with
  | .error e => .error e
  | .ok (x, d) => k x d

def P.map {α β : Type} (f : α → β) (p : P α) : P β := fun d =>
  match p d with
  | .error e => .error e
  | .ok (x, d) => .ok (f x, d)

def P.pure {α : Type} (x : α) : P α := fun d => .ok (x, d)
def P.fail {α : Type} (e : LexErr) : P α := fun _ => .error e

/-- lexer.rs:144 `read_rgb`: eight sequential `?`s, then the two accepted shapes. -/
def readRgb : P Rgb :=
  P.bind readId fun start => P.bind readId fun rtoken => P.bind readU32 fun r =>
  P.bind readId fun gtoken => P.bind readU32 fun g => P.bind readId fun btoken =>
  P.bind readU32 fun b => P.bind readId fun nextTok =>
    if start = OPEN ∧ rtoken = U32 ∧ gtoken = U32 ∧ btoken = U32 ∧ nextTok = CLOSE then
      P.pure { r := r, g := g, b := b, a := none }
    else if start = OPEN ∧ rtoken = U32 ∧ gtoken = U32 ∧ btoken = U32 ∧ nextTok = U32 then
      P.bind readU32 fun a => P.bind readId fun endTok =>
        if endTok = CLOSE then P.pure { r := r, g := g, b := b, a := some a } else P.fail .invalidRgb
    else P.fail .invalidRgb

/-- lexer.rs:298 `read_token` (same order of arms). -/
def readToken : P Token :=
  P.bind readId fun id =>
    if id = OPEN then P.pure .open
    else if id = CLOSE then P.pure .close
    else if id = EQUAL then P.pure .equal
    else if id = U32 then P.map .u32 readU32
    else if id = U64 then P.map .u64 readU64
    else if id = I32 then P.map .i32 readI32
    else if id = BOOL then P.map .bool readBool
    else if id = QUOTED then P.map .quoted readString
    else if id = UNQUOTED then P.map .unquoted readString
    else if id = F32 then P.map .f32 readF32
    else if id = F64 then P.map .f64 readF64
    else if id = RGB then P.map .rgb readRgb
    else if id = I64 then P.map .i64 readI64
    else P.pure (.id id)

/-! ### lexer.rs:223-294 — `Token::write` -/

def writeU32 (num : Nat) : Bytes := leBytes 2 U32 ++ leBytes 4 num

def Token.write : Token → Bytes
  | .open => leBytes 2 OPEN
  | .close => leBytes 2 CLOSE
  | .equal => leBytes 2 EQUAL
  | .u32 x => writeU32 x
  | .u64 x => leBytes 2 U64 ++ leBytes 8 x
  | .i32 x => leBytes 2 I32 ++ leBytes 4 (ofSigned 32 x)
  | .bool x => leBytes 2 BOOL ++ [if x then 1 else 0]
  | .quoted x => leBytes 2 QUOTED ++ leBytes 2 x.length ++ x
  | .unquoted x => leBytes 2 UNQUOTED ++ leBytes 2 x.length ++ x
  | .f32 x => leBytes 2 F32 ++ x
  | .f64 x => leBytes 2 F64 ++ x
  | .rgb c =>
      leBytes 2 RGB ++ leBytes 2 OPEN ++ writeU32 c.r ++ writeU32 c.g ++ writeU32 c.b
        ++ (match c.a with | some a => writeU32 a | none => []) ++ leBytes 2 CLOSE
  | .i64 x => leBytes 2 I64 ++ leBytes 8 (ofSigned 64 x)
  | .id x => leBytes 2 x

/-! ### lexer.rs:455-857 — `Lexer` -/

/-- `Lexer { data, original_length }` -/
structure Lexer where
  data : Bytes
  originalLength : Nat
  deriving Repr

/-- error with position (`LexerError`) -/
structure LexerError where
  position : Nat
  kind : LexErr
  deriving DecidableEq, Repr

namespace Lexer

def new (d : Bytes) : Lexer := { data := d, originalLength := d.length }
def remainder (l : Lexer) : Bytes := l.data
def position (l : Lexer) : Nat := l.originalLength - l.data.length
def errPosition (l : Lexer) (e : LexErr) : LexerError := { position := l.position, kind := e }

/-- the common shape of every `read_*` method: run the primitive on `self.data`, keep the
rest on success, leave `self` untouched and attach the position on failure. -/
def lift {α : Type} (f : Bytes → Except LexErr (α × Bytes)) (l : Lexer) : Except LexerError α × Lexer :=
  match f l.data with
  | .ok (x, rest) => (.ok x, { l with data := rest })
  | .error e => (.error (l.errPosition e), l)

def readId (l : Lexer) := lift BinLexer.readId l
def readToken (l : Lexer) := lift BinLexer.readToken l
def readString (l : Lexer) := lift BinLexer.readString l
def readBool (l : Lexer) := lift BinLexer.readBool l
def readU32 (l : Lexer) := lift BinLexer.readU32 l
def readU64 (l : Lexer) := lift BinLexer.readU64 l
def readI64 (l : Lexer) := lift BinLexer.readI64 l
def readI32 (l : Lexer) := lift BinLexer.readI32 l
def readF32 (l : Lexer) := lift BinLexer.readF32 l
def readF64 (l : Lexer) := lift BinLexer.readF64 l
def readRgb (l : Lexer) := lift BinLexer.readRgb l

/-- the common shape of `next_id` / `next_token`: `Eof` on an empty remainder is a clean end. -/
def liftNext {α : Type} (f : Bytes → Except LexErr (α × Bytes)) (l : Lexer) :
    Except LexerError (Option α) × Lexer :=
  match f l.data with
  | .ok (x, rest) => (.ok (some x), { l with data := rest })
  | .error .eof => if l.remainder.isEmpty then (.ok none, l) else (.error (l.errPosition .eof), l)
  | .error e => (.error (l.errPosition e), l)

def nextId (l : Lexer) := liftNext BinLexer.readId l
def nextToken (l : Lexer) := liftNext BinLexer.readToken l

/-- lexer.rs:593 `peek_id`: `data.get(..2)` -/
def peekId (l : Lexer) : Option Nat :=
  match l.data with
  | a :: b :: _ => some (leNat [a, b])
  | _ => none

/-- lexer.rs:609 `peek_token` -/
def peekToken (l : Lexer) : Option Token :=
  match BinLexer.readToken l.data with
  | .ok (t, _) => some t
  | .error _ => none

/-- lexer.rs:762 `read_bytes` -/
def readBytes (l : Lexer) (n : Nat) : Except LexerError Bytes × Lexer :=
  if l.data.length ≥ n then (.ok (l.data.take n), { l with data := l.data.drop n })
  else (.error (l.errPosition .eof), l)

/-- result of a call that returns `Result<(), LexerError>` -/
abbrev UnitRes := Except LexerError Unit × Lexer

def discard {α : Type} (r : Except LexerError α × Lexer) : UnitRes :=
  match r with
  | (.ok _, l) => (.ok (), l)
  | (.error e, l) => (.error e, l)

/-- lexer.rs:818 `skip_container`'s loop: `fuel` bounds the number of iterations (each one
consumes at least the two id bytes); `none` = fuel exhausted (never happens with
`fuel > data.length / 2`, see `Proofs/BinSkip`). `depth` is the Rust `depth` (starts at 1). -/
def skipLoop : Nat → Lexer → Nat → Option UnitRes
  | 0, _, _ => none
  | fuel + 1, l, depth =>
    match l.readId with
    | (.error e, l) => some (.error e, l)
    | (.ok id, l) =>
      if id = QUOTED ∨ id = UNQUOTED then
        match l.readString with
        | (.error e, l) => some (.error e, l)
        | (.ok _, l) => skipLoop fuel l depth
      else if id = U32 then
        match l.readU32 with
        | (.error e, l) => some (.error e, l)
        | (.ok _, l) => skipLoop fuel l depth
      else if id = I32 then
        match l.readI32 with
        | (.error e, l) => some (.error e, l)
        | (.ok _, l) => skipLoop fuel l depth
      else if id = U64 then
        match l.readU64 with
        | (.error e, l) => some (.error e, l)
        | (.ok _, l) => skipLoop fuel l depth
      else if id = I64 then
        match l.readI64 with
        | (.error e, l) => some (.error e, l)
        | (.ok _, l) => skipLoop fuel l depth
      else if id = BOOL then
        match l.readBool with
        | (.error e, l) => some (.error e, l)
        | (.ok _, l) => skipLoop fuel l depth
      else if id = F32 then
        match l.readF32 with
        | (.error e, l) => some (.error e, l)
        | (.ok _, l) => skipLoop fuel l depth
      else if id = F64 then
        match l.readF64 with
        | (.error e, l) => some (.error e, l)
        | (.ok _, l) => skipLoop fuel l depth
      else if id = CLOSE then
        -- `depth -= 1; if depth == 0 { return Ok(()) }`
        if depth - 1 = 0 then some (.ok (), l) else skipLoop fuel l (depth - 1)
      else if id = OPEN then skipLoop fuel l (depth + 1)
      else skipLoop fuel l depth

/-- lexer.rs:818 `skip_container` (fuel: one iteration per two bytes is the most there can be) -/
def skipContainer (l : Lexer) : Option UnitRes := skipLoop (l.data.length / 2 + 1) l 1

/-- lexer.rs:774 `skip_value` -/
def skipValue (l : Lexer) (id : Nat) : Option UnitRes :=
  if id = QUOTED ∨ id = UNQUOTED then some (discard l.readString)
  else if id = U32 then some (discard l.readU32)
  else if id = I32 then some (discard l.readI32)
  else if id = U64 then some (discard l.readU64)
  else if id = I64 then some (discard l.readI64)
  else if id = BOOL then some (discard l.readBool)
  else if id = F32 then some (discard l.readF32)
  else if id = F64 then some (discard l.readF64)
  else if id = OPEN then l.skipContainer
  else if id = RGB then some (discard l.readRgb)
  else some (.ok (), l)

end Lexer

/-! ### whole-input runs used by the properties -/

/-- how a run over the whole input ends -/
inductive Terminal
  | done                 -- `Ok(None)`: clean end
  | err (e : LexErr)
  deriving DecidableEq, Repr, Inhabited

/-- `while let Some(t) = lexer.next_token()? { .. }` on the bare byte list: tokens, terminal
outcome, bytes left unread.  Fuel: every token consumes at least two bytes. -/
def lexLoop : Nat → Bytes → List Token × Terminal × Bytes
  | 0, d => ([], .err .eof, d)     -- unreachable with fuel > length / 2 (see `lexAll`)
  | fuel + 1, d =>
    match readToken d with
    | .ok (t, rest) =>
      let (ts, term, left) := lexLoop fuel rest
      (t :: ts, term, left)
    | .error .eof => if d.isEmpty then ([], .done, d) else ([], .err .eof, d)
    | .error e => ([], .err e, d)

def lexAll (d : Bytes) : List Token × Terminal × Bytes := lexLoop (d.length / 2 + 1) d

/-- the same run through the `Lexer` object (`next_token` until `None` / error): tokens,
terminal outcome, final `position()`. -/
def Lexer.runLoop : Nat → Lexer → List Token × Terminal × Nat
  | 0, l => ([], .err .eof, l.position)
  | fuel + 1, l =>
    match l.nextToken with
    | (.ok (some t), l) =>
      let (ts, term, p) := Lexer.runLoop fuel l
      (t :: ts, term, p)
    | (.ok none, l) => ([], .done, l.position)
    | (.error e, l) => ([], .err e.kind, l.position)

def Lexer.run (d : Bytes) : List Token × Terminal × Nat :=
  Lexer.runLoop (d.length / 2 + 1) (Lexer.new d)

/-- the documented "zero overhead" way of driving the lexer (lexer.rs:425-446): `next_id`,
then the `read_*` primitive that belongs to the id.  Used to tie the individual primitives
to `read_token`. -/
def Lexer.runIdsLoop : Nat → Lexer → List Token × Terminal × Nat
  | 0, l => ([], .err .eof, l.position)
  | fuel + 1, l =>
    match l.nextId with
    | (.error e, l) => ([], .err e.kind, l.position)
    | (.ok none, l) => ([], .done, l.position)
    | (.ok (some id), l) =>
      let cont {α : Type} (r : Except LexerError α × Lexer) (mk : α → Token) :=
        match r with
        | (.error e, l) => (([] : List Token), Terminal.err e.kind, l.position)
        | (.ok x, l) =>
          let (ts, term, p) := Lexer.runIdsLoop fuel l
          (mk x :: ts, term, p)
      if id = OPEN then cont (.ok (), l) (fun _ => .open)
      else if id = CLOSE then cont (.ok (), l) (fun _ => .close)
      else if id = EQUAL then cont (.ok (), l) (fun _ => .equal)
      else if id = U32 then cont l.readU32 .u32
      else if id = U64 then cont l.readU64 .u64
      else if id = I32 then cont l.readI32 .i32
      else if id = BOOL then cont l.readBool .bool
      else if id = QUOTED then cont l.readString .quoted
      else if id = UNQUOTED then cont l.readString .unquoted
      else if id = F32 then cont l.readF32 .f32
      else if id = F64 then cont l.readF64 .f64
      else if id = RGB then cont l.readRgb .rgb
      else if id = I64 then cont l.readI64 .i64
      else cont (.ok (), l) (fun _ => .id id)

def Lexer.runIds (d : Bytes) : List Token × Terminal × Nat :=
  Lexer.runIdsLoop (d.length / 2 + 1) (Lexer.new d)

end Jomini.BinLexer
