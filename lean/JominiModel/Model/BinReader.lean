import JominiModel.Model.BinLexer
import JominiModel.Model.Buffer
/-
Model of `src/binary/reader.rs` (`TokenReader`) over the concrete `Buf` of
`Model/Buffer.lean` and the scheduled source of `Model/Src.lean`.
-/
namespace Jomini.BinReader
open Jomini Jomini.BinLexer

/-- reader.rs:314 `ReaderErrorKind`, plus the two outcomes the Rust does not have a value
for: `ub` (a pointer moved outside the window: `debug_assert!` / undefined behaviour) and
`fuel` (the model's recursion bound ran out; proved unreachable). -/
inductive RErrKind
  | read                 -- `Read(io::Error)`
  | bufferFull
  | lexer (e : LexErr)
  | ub
  | fuel
  deriving DecidableEq, Repr, Inhabited

/-- reader.rs:328 `ReaderError` -/
structure ReaderError where
  position : Nat
  kind : RErrKind
  deriving DecidableEq, Repr, Inhabited

/-- reader.rs:44 `TokenReader { reader, buf }` -/
structure Reader where
  src : Src
  buf : Buf
  deriving Repr, Inhabited

/-- how a streamed run ends -/
inductive StreamEnd
  | done
  | err (k : RErrKind)
  deriving DecidableEq, Repr, Inhabited

/-- one entry of a call log: the caller keeps calling `next` after errors -/
inductive Call
  | tok (t : Token)
  | done
  | err (k : RErrKind)
  deriving DecidableEq, Repr, Inhabited

namespace Reader

/-- reader.rs:52 `from_slice`: the whole input is the window.  (The Rust also stores the slice
as the `Read`, but `fill_buf` never reads from it in slice mode, so the model's source is
empty: nothing is left to deliver.) -/
def fromSlice (data : Bytes) : Reader := { src := Src.new [] [], buf := Buf.fromSlice data }

/-- `TokenReader::builder().buffer(b).build(reader)` -/
def build (buffer : Bytes) (src : Src) : Reader := { src := src, buf := Buf.build buffer }

/-- `TokenReader::builder().buffer_len(n).build(reader)` -/
def ofLen (n : Nat) (src : Src) : Reader := { src := src, buf := Buf.ofLen n }

/-- reader.rs:79 -/
def position (rd : Reader) : Nat := rd.buf.position

/-- reader.rs:245 `buffer_error` -/
def bufferError (rd : Reader) (e : BufErr) : ReaderError :=
  { position := rd.position, kind := match e with | .io => .read | .bufferFull => .bufferFull }

/-- reader.rs:254 `lex_error` -/
def lexError (rd : Reader) (e : LexErr) : ReaderError := { position := rd.position, kind := .lexer e }

def ubError (rd : Reader) : ReaderError := { position := rd.position, kind := .ub }

/-- `self.buf.advance_to(rest.as_ptr())` where `rest` is a suffix of the window -/
def advanceTo (rd : Reader) (rest : Bytes) : Option Reader :=
  match rd.buf.advance (rd.buf.windowLen - rest.length) with
  | some b => some { rd with buf := b }
  | none => none

/-- reader.rs:231 `next` with reader.rs:207 `refill_next` inlined (they are mutually
recursive; every recursive call follows a `fill_buf` that delivered at least one byte, so
`fuel > undelivered bytes` is enough, see `Proofs/BinReaderProofs`). -/
def next : Nat → Reader → Except ReaderError (Option Token) × Reader
  | 0, rd => (.error { position := rd.position, kind := .fuel }, rd)
  | fuel + 1, rd =>
    match readToken rd.buf.window with
    | .ok (tok, newData) =>
      match rd.advanceTo newData with
      | some rd' => (.ok (some tok), rd')
      | none => (.error rd.ubError, rd)
    | .error .eof =>
      -- refill_next
      match rd.buf.fillBuf rd.src with
      | (.ok n, b, s) =>
        let rd' : Reader := { src := s, buf := b }
        if n = 0 then
          if b.windowLen = 0 then (.ok none, rd') else (.error (rd'.lexError .eof), rd')
        else next fuel rd'
      | (.error e, b, s) =>
        let rd' : Reader := { src := s, buf := b }
        (.error (rd'.bufferError e), rd')
    | .error e => (.error (rd.lexError e), rd)

/-- fuel that always suffices for one call -/
def fuelFor (rd : Reader) : Nat := rd.src.rest.length + 2

/-- reader.rs:201 `read` -/
def read (rd : Reader) : Except ReaderError Token × Reader :=
  match next rd.fuelFor rd with
  | (.ok (some t), rd') => (.ok t, rd')
  | (.ok none, rd') => (.error (rd'.lexError .eof), rd')
  | (.error e, rd') => (.error e, rd')

/-- reader.rs:94 `read_bytes`: the `while window_len() < bytes { fill_buf }` loop, then the raw
slice at `start` and `advance(bytes)`. -/
def readBytesLoop : Nat → Reader → Nat → Except ReaderError Bytes × Reader
  | 0, rd, _ => (.error { position := rd.position, kind := .fuel }, rd)
  | fuel + 1, rd, bytes =>
    if rd.buf.windowLen < bytes then
      match rd.buf.fillBuf rd.src with
      | (.ok n, b, s) =>
        let rd' : Reader := { src := s, buf := b }
        if n = 0 then (.error (rd'.lexError .eof), rd') else readBytesLoop fuel rd' bytes
      | (.error e, b, s) =>
        let rd' : Reader := { src := s, buf := b }
        (.error (rd'.bufferError e), rd')
    else
      -- `std::slice::from_raw_parts(self.buf.start, bytes)`: a raw read of `bytes` bytes at the
      -- *current* `start` (i.e. after every refill of the loop above has moved the window),
      -- not narrowed to the window
      let input := (rd.buf.mem.drop rd.buf.start).take bytes
      match rd.buf.advance bytes with
      | some b => (.ok input, { rd with buf := b })
      | none => (.error rd.ubError, rd)

def readBytes (rd : Reader) (bytes : Nat) := readBytesLoop rd.fuelFor rd bytes

/-- result of the inner `while let Ok((id, data)) = read_id(self.buf.window())` loop of
`skip_container` -/
inductive ScanRes
  | returned (rd : Reader)                 -- `return Ok(())`
  | refill (rd : Reader) (depth : Nat)     -- left the `while` (by `break` or a failed `read_id`)
  | ub (rd : Reader)
  deriving Repr, Inhabited

/-- reader.rs:126-157, the inner loop; fuel = iterations (each consumes ≥ 2 window bytes). -/
def skipScan : Nat → Reader → Nat → ScanRes
  | 0, rd, depth => .refill rd depth
  | fuel + 1, rd, depth =>
    match readId rd.buf.window with
    | .error _ => .refill rd depth
    | .ok (id, data) =>
      let adv (rest : Bytes) (k : Reader → ScanRes) : ScanRes :=
        match rd.advanceTo rest with
        | some rd' => k rd'
        | none => .ub rd
      if id = CLOSE then
        adv data fun rd' => if depth - 1 = 0 then .returned rd' else skipScan fuel rd' (depth - 1)
      else if id = OPEN then
        adv data fun rd' => skipScan fuel rd' (depth + 1)
      else if id = BOOL then
        -- `data.get(1..)`
        if 1 ≤ data.length then adv (data.drop 1) fun rd' => skipScan fuel rd' depth
        else .refill rd depth
      else if id = F32 ∨ id = U32 ∨ id = I32 then
        if 4 ≤ data.length then adv (data.drop 4) fun rd' => skipScan fuel rd' depth
        else .refill rd depth
      else if id = F64 ∨ id = I64 ∨ id = U64 then
        if 8 ≤ data.length then adv (data.drop 8) fun rd' => skipScan fuel rd' depth
        else .refill rd depth
      else if id = QUOTED ∨ id = UNQUOTED then
        match readString data with
        | .ok (_, d) => adv d fun rd' => skipScan fuel rd' depth
        | .error _ => .refill rd depth
      else adv data fun rd' => skipScan fuel rd' depth

/-- reader.rs:123 `skip_container`: outer `loop` (fuel = refills). -/
def skipLoop : Nat → Reader → Nat → Except ReaderError Unit × Reader
  | 0, rd, _ => (.error { position := rd.position, kind := .fuel }, rd)
  | fuel + 1, rd, depth =>
    match skipScan (rd.buf.windowLen / 2 + 1) rd depth with
    | .returned rd' => (.ok (), rd')
    | .ub rd' => (.error rd'.ubError, rd')
    | .refill rd1 depth1 =>
      match rd1.buf.fillBuf rd1.src with
      | (.ok n, b, s) =>
        let rd' : Reader := { src := s, buf := b }
        if n = 0 then (.error (rd'.lexError .eof), rd') else skipLoop fuel rd' depth1
      | (.error e, b, s) =>
        let rd' : Reader := { src := s, buf := b }
        (.error (rd'.bufferError e), rd')

def skipContainer (rd : Reader) : Except ReaderError Unit × Reader := skipLoop rd.fuelFor rd 1

/-! ### whole-stream runs used by the properties and the driver -/

/-- `while let Some(t) = reader.next()? { .. }`: tokens, terminal outcome, final reader.
`fuel` bounds the number of `next` calls. -/
def streamLoop : Nat → Reader → List Token × StreamEnd × Reader
  | 0, rd => ([], .err .fuel, rd)
  | fuel + 1, rd =>
    match next rd.fuelFor rd with
    | (.ok (some t), rd') =>
      let (ts, e, r) := streamLoop fuel rd'
      (t :: ts, e, r)
    | (.ok none, rd') => ([], .done, rd')
    | (.error e, rd') => ([], .err e.kind, rd')

/-- number of `next` calls that can return a token: every token has ≥ 2 bytes -/
def streamFuel (rd : Reader) : Nat := (rd.buf.windowLen + rd.src.rest.length) / 2 + 2

def streamAll (rd : Reader) : List Token × StreamEnd × Reader := streamLoop (streamFuel rd) rd

/-- `n` successive `next` calls, whatever they return (the C20 call sequence). -/
def calls : Nat → Reader → List Call × Reader
  | 0, rd => ([], rd)
  | n + 1, rd =>
    let (c, rd') : Call × Reader := match next rd.fuelFor rd with
      | (.ok (some t), rd') => (.tok t, rd')
      | (.ok none, rd') => (.done, rd')
      | (.error e, rd') => (.err e.kind, rd')
    let (cs, r) := calls n rd'
    (c :: cs, r)

end Reader
end Jomini.BinReader
