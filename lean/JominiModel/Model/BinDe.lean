import JominiModel.Model.Basic
import JominiModel.Generated.Tables
/-
Model of /repo/src/binary/de.rs (the three binary deserializers), /repo/src/de.rs
(`ColorSequence`), /repo/src/binary/resolver.rs and the harness flavor `VFlavor`
(harness/src/props/c04.rs), driven by the runtime type descriptor `Ty` of
harness/src/tyseed.rs (serde's visitor dispatch is represented by this interpreter).

* tape path        (`BinaryMap` / `KeyDeserializer` / `ValueDeserializer` / `BinarySequence`,
                    de.rs:1408-1859)   works on the token list of the real `BinaryTape`
* on-demand path   (`OndemandMap` / `OndemandTokenDeserializer` / `OndemandSeq`, de.rs:641-1047)
* streaming path   (`BinaryReaderMap` / `BinaryReaderTokenDeserializer` / `BinaryReaderSeq`, de.rs:74-505)
  both work on the RAW lexeme list of the input (what `Lexer::read_id` + the typed reads
  deliver; the rgb marker is the plain lexeme `id 0x0243`).  The two are one function with a
  `Path` flag; every place where the two Rust implementations differ is an explicit `match p`.

Results are the canonical `Val` strings of tyseed.rs; errors are collapsed to its `err_class`.
Floats are IEEE bit patterns, all float arithmetic is exact rational round-to-nearest-even.
-/
namespace Jomini.BinDe
open Jomini

/-! ### target types (tyseed.rs `Ty`; `Fields` carries the `#[jomini(token = …)]` id, 0 when unused) -/

mutual
inductive Ty where
  | bool | i64 | u64 | i32 | u32 | f64 | f32 | str | any | ign
  | u16 | i16 | u8 | i8
  | opt (t : Ty) | seq (t : Ty) | map (t : Ty) | prop (t : Ty)
  | struct (fs : Fields)
  | enum (vs : List String)
inductive Fields where
  | nil
  | cons (name : String) (tok : Nat) (t : Ty) (rest : Fields)
end

/-- root request: a tyseed type, or a token-attribute struct (jomini_derive with `token`). -/
inductive RootTy where
  | plain (t : Ty)
  | tok (fs : Fields)

def Fields.length : Fields → Nat
  | .nil => 0
  | .cons _ _ _ r => r.length + 1

def Fields.get? : Fields → Nat → Option (String × Nat × Ty)
  | .nil, _ => none
  | .cons n k t _, 0 => some (n, k, t)
  | .cons _ _ _ r, i + 1 => r.get? i

/-- position of the first field with this name (`iter().position(|(n, _)| n == v)`). -/
def Fields.posName : Fields → Bytes → Nat → Option Nat
  | .nil, _, _ => none
  | .cons n _ _ r, s, i => if n.toUTF8.toList == s then some i else r.posName s (i + 1)

def Fields.posTok : Fields → Nat → Nat → Option Nat
  | .nil, _, _ => none
  | .cons _ k _ r, id, i => if k == id then some i else r.posTok id (i + 1)

/-! ### outcomes -/

inductive Err where
  | type | other | missing (f : String) | duplicate (f : String)
  | panic      -- Rust would index out of bounds
  | beyond     -- outside what a token-level model can express (see `nextKey`), or `prop`
  | fuel
  deriving DecidableEq, Repr

abbrev Res (α : Type) := Except Err α

def Err.render : Err → String
  | .type => "err:type" | .other => "err:other"
  | .missing f => "err:missing:" ++ f | .duplicate f => "err:duplicate:" ++ f
  | .panic => "panic" | .beyond => "beyond-token-model" | .fuel => "fuel"

def renderRes : Res String → String
  | .ok v => v
  | .error e => e.render

/-! ### hex, strings -/

def hexDigitLower (n : Nat) : Char :=
  if n < 10 then Char.ofNat (48 + n) else Char.ofNat (87 + n)

def hexBytes (b : Bytes) : String :=
  if b.isEmpty then "-" else
  String.ofList (b.foldr (fun x acc => hexDigitLower (x.toNat / 16) :: hexDigitLower (x.toNat % 16) :: acc) [])

/-- `format!("{:x}", n)` digits, most significant first (fuel = 16 digits is enough for a u64). -/
def hexDigitsAux : Nat → Nat → List Char → List Char
  | 0, _, acc => acc
  | f + 1, n, acc => if n < 16 then hexDigitLower n :: acc else hexDigitsAux f (n / 16) (hexDigitLower (n % 16) :: acc)

def hexLower (n : Nat) : String := String.ofList (hexDigitsAux 17 n [])

def strBytes (s : String) : Bytes := s.toUTF8.toList

def joinComma (xs : List String) : String := String.intercalate "," xs

/-! ### Windows-1252 decoding (encoding.rs `decode_windows1252`): trailing ASCII whitespace
trimmed, backslashes dropped, every byte through the code page, result as UTF-8 bytes -/

def isAsciiWs (b : UInt8) : Bool := b == 32 || b == 9 || b == 10 || b == 12 || b == 13

def trimEnd (d : Bytes) : Bytes := (d.reverse.dropWhile isAsciiWs).reverse

def utf8Enc (cp : Nat) : Bytes :=
  if cp < 0x80 then [UInt8.ofNat cp]
  else if cp < 0x800 then [UInt8.ofNat (0xC0 + cp / 64), UInt8.ofNat (0x80 + cp % 64)]
  else [UInt8.ofNat (0xE0 + cp / 4096), UInt8.ofNat (0x80 + cp / 64 % 64), UInt8.ofNat (0x80 + cp % 64)]

/-- the table has 128 entries (measured), the fallback is never taken. -/
def cp1252 (b : UInt8) : Nat :=
  if b.toNat < 128 then b.toNat else
  match Jomini.Tables.binDeWin1252High[b.toNat - 128]? with
  | some cp => cp
  | none => 0xFFFD

def decode1252 (d : Bytes) : Bytes :=
  ((trimEnd d).filter (fun b => b != 92)).flatMap (fun b => utf8Enc (cp1252 b))

/-! ### IEEE-754 as exact rounding (generalises `Scalar.rneBits` to binary32/binary64) -/

def bitLen (n : Nat) : Nat := if n = 0 then 0 else n.log2 + 1

/-- round-to-nearest-even of `num/den` to the format with `mb` mantissa bits and `eb` exponent
bits; magnitude bit pattern (no sign). -/
def rne (mb eb : Nat) (num den : Nat) : Nat :=
  if num = 0 ∨ den = 0 then 0 else
  let p := mb + 1
  let bias : Int := (2 ^ (eb - 1) : Nat) - 1
  let emin : Int := 1 - bias - (mb : Int)
  let e0 : Int := (bitLen num : Int) - (bitLen den : Int) - (p : Int)
  let scale (e : Int) : Nat × Nat × Nat :=
    if e ≥ 0 then
      let d' := den * 2 ^ e.toNat
      (num / d', num % d', d')
    else
      let n' := num * 2 ^ (-e).toNat
      (n' / den, n' % den, den)
  let (q0, _, _) := scale e0
  let e : Int := if q0 ≥ 2 ^ p then e0 + 1 else if q0 < 2 ^ mb then e0 - 1 else e0
  let e : Int := if e < emin then emin else e
  let (q, r, d') := scale e
  let q := if 2 * r > d' then q + 1 else if 2 * r = d' then (if q % 2 = 1 then q + 1 else q) else q
  let (q, e) := if q ≥ 2 ^ p then (q / 2, e + 1) else (q, e)
  if q < 2 ^ mb then q
  else
    let biased : Int := e + bias + (mb : Int)
    if biased ≥ ((2 ^ eb - 1 : Nat) : Int) then (2 ^ eb - 1) * 2 ^ mb
    else biased.toNat * 2 ^ mb + (q - 2 ^ mb)

/-- exact value of a finite float bit pattern: (negative, num, den). -/
def decodeF (mb eb : Nat) (bits : Nat) : Bool × Nat × Nat :=
  let neg := bits / 2 ^ (mb + eb) % 2 == 1
  let be := bits / 2 ^ mb % 2 ^ eb
  let m := bits % 2 ^ mb
  let bias : Int := (2 ^ (eb - 1) : Nat) - 1
  let mant := if be = 0 then m else m + 2 ^ mb
  let e : Int := (if be = 0 then 1 else (be : Int)) - bias - (mb : Int)
  if e ≥ 0 then (neg, mant * 2 ^ e.toNat, 1) else (neg, mant, 2 ^ (-e).toNat)

def signBit (mb eb : Nat) (neg : Bool) : Nat := if neg then 2 ^ (mb + eb) else 0

/-- `x as f64` for an f32 bit pattern (serde `num_as_copysign_self`; exact, sign kept). -/
def f32ToF64 (bits : Nat) : Nat :=
  let (neg, n, d) := decodeF 23 8 bits
  signBit 52 11 neg + rne 52 11 n d

/-- `x as f32` for an f64 bit pattern (round to nearest even). -/
def f64ToF32 (bits : Nat) : Nat :=
  let (neg, n, d) := decodeF 52 11 bits
  signBit 23 8 neg + rne 23 8 n d

/-- `n as f64` / `n as f32` for an integer. -/
def intToF64 (n : Int) : Nat := signBit 52 11 (decide (n < 0)) + rne 52 11 n.natAbs 1
def intToF32 (n : Int) : Nat := signBit 23 8 (decide (n < 0)) + rne 23 8 n.natAbs 1

/-- little endian value of a byte list. -/
def leNat : Bytes → Nat
  | [] => 0
  | b :: bs => b.toNat + 256 * leNat bs

def toSigned (bits : Nat) (v : Nat) : Int := if v < 2 ^ (bits - 1) then (v : Int) else (v : Int) - (2 ^ bits : Nat)

/-- `VFlavor::visit_f32`: `i32::from_le_bytes(data) as f32 / 1000.0`. -/
def visitF32 (raw : Bytes) : Nat :=
  let i := toSigned 32 (leNat raw)
  let x := rne 23 8 i.natAbs 1                 -- `as f32`
  let (_, n, d) := decodeF 23 8 x
  signBit 23 8 (decide (i < 0)) + rne 23 8 n (d * 1000)   -- f32 division, correctly rounded

/-- `VFlavor::visit_f64`: `i64::from_le_bytes(data) as f64 / 32768.0`. -/
def visitF64 (raw : Bytes) : Nat :=
  let i := toSigned 64 (leNat raw)
  let x := rne 52 11 i.natAbs 1
  let (_, n, d) := decodeF 52 11 x
  signBit 52 11 (decide (i < 0)) + rne 52 11 n (d * 32768)

/-! ### configuration: resolver, failed-resolve strategy -/

inductive Strategy where
  | error | stringify | ignore
  deriving DecidableEq, Repr

structure Cfg where
  strat : Strategy
  /-- id ↦ name (UTF-8 bytes); a later entry for the same id replaces an earlier one (`HashMap::insert`) -/
  entries : List (Nat × Bytes)

def resolve (c : Cfg) (id : Nat) : Option Bytes :=
  (c.entries.reverse.find? (fun e => e.1 == id)).map (·.2)

/-! ### what a visitor can be handed -/

inductive Prim where
  | bool (b : Bool) | i32 (n : Int) | i64 (n : Int) | u32 (n : Nat) | u64 (n : Nat) | u16 (n : Nat)
  | f32 (bits : Nat) | f64 (bits : Nat) | str (utf8 : Bytes) | unit
  deriving DecidableEq, Repr

/-- de.rs `Token::Id` / `BinaryToken::Token` arm: resolver, else the configured fallback. -/
def idPrim (c : Cfg) (id : Nat) : Res Prim :=
  match resolve c id with
  | some name => .ok (.str name)
  | none =>
    match c.strat with
    | .error => .error .other
    | .stringify => .ok (.str (strBytes ("0x" ++ hexLower id)))
    | .ignore => .ok (.str (strBytes "__internal_identifier_ignore"))

/-- tyseed.rs `AnyVisitor` on a primitive. -/
def renderPrim : Prim → String
  | .bool b => if b then "b1" else "b0"
  | .i32 n => "i" ++ toString n | .i64 n => "i" ++ toString n
  | .u32 n => "u" ++ toString n | .u64 n => "u" ++ toString n | .u16 n => "u" ++ toString n
  | .f32 b => "g" ++ toString b | .f64 b => "f" ++ toString b
  | .str s => "s" ++ hexBytes s
  | .unit => "unit"

def Prim.asInt : Prim → Option Int
  | .i32 n => some n | .i64 n => some n | .u32 n => some n | .u64 n => some n | .u16 n => some n
  | _ => none

def inRange (lo hi : Int) (v : Int) : Bool := decide (lo ≤ v) && decide (v ≤ hi)

/-- The visitor of type `t` is handed the primitive `p`.  Leaf types: serde's own impls
(`impl_deserialize_num!`: integers convert only losslessly (`invalid value` otherwise), any integer
widens to a float with `as`, f32↔f64 with `as`; `BoolVisitor`; `StringVisitor`); `any` records it;
`ign` (IgnoredAny) accepts everything; `opt` knows only `visit_unit`/`visit_none`; the container
visitors know no primitive. -/
def visitPrim (t : Ty) (p : Prim) : Res String :=
  match t with
  | .bool => match p with | .bool b => .ok (if b then "b1" else "b0") | _ => .error .type
  | .i64 => match p.asInt with
    | some v => if inRange (-(2 ^ 63 : Nat)) ((2 ^ 63 : Nat) - 1) v then .ok ("i" ++ toString v) else .error .type
    | none => .error .type
  | .i32 => match p.asInt with
    | some v => if inRange (-(2 ^ 31 : Nat)) ((2 ^ 31 : Nat) - 1) v then .ok ("i" ++ toString v) else .error .type
    | none => .error .type
  | .u64 => match p.asInt with
    | some v => if inRange 0 ((2 ^ 64 : Nat) - 1) v then .ok ("u" ++ toString v) else .error .type
    | none => .error .type
  | .u32 => match p.asInt with
    | some v => if inRange 0 ((2 ^ 32 : Nat) - 1) v then .ok ("u" ++ toString v) else .error .type
    | none => .error .type
  | .u16 => match p.asInt with
    | some v => if inRange 0 65535 v then .ok ("u" ++ toString v) else .error .type
    | none => .error .type
  | .u8 => match p.asInt with
    | some v => if inRange 0 255 v then .ok ("u" ++ toString v) else .error .type
    | none => .error .type
  | .i16 => match p.asInt with
    | some v => if inRange (-32768) 32767 v then .ok ("i" ++ toString v) else .error .type
    | none => .error .type
  | .i8 => match p.asInt with
    | some v => if inRange (-128) 127 v then .ok ("i" ++ toString v) else .error .type
    | none => .error .type
  | .f64 => match p with
    | .f64 b => .ok ("f" ++ toString b)
    | .f32 b => .ok ("f" ++ toString (f32ToF64 b))
    | _ => match p.asInt with | some v => .ok ("f" ++ toString (intToF64 v)) | none => .error .type
  | .f32 => match p with
    | .f32 b => .ok ("g" ++ toString b)
    | .f64 b => .ok ("g" ++ toString (f64ToF32 b))
    | _ => match p.asInt with | some v => .ok ("g" ++ toString (intToF32 v)) | none => .error .type
  | .str => match p with | .str s => .ok ("s" ++ hexBytes s) | _ => .error .type
  | .any => .ok (renderPrim p)
  | .ign => .ok "ign"
  | .opt _ => match p with | .unit => .ok "none" | _ => .error .type
  | _ => .error .type

/-- tyseed.rs `EnumVisitor::visit_enum`: the variant name is read as a `String` from the same
deserializer, then looked up. -/
def enumVal (vs : List String) (p : Prim) : Res String :=
  match p with
  | .str s => if vs.any (fun v => strBytes v == s) then .ok ("en(" ++ hexBytes s ++ ")") else .error .other
  | _ => .error .type

/-! ### `ColorSequence` (/repo/src/de.rs): an rgb value is presented as the sequence
`["rgb", [r, g, b(, a)]]`, every request forwarded to `deserialize_any` -/

structure Rgb where
  r : Nat
  g : Nat
  b : Nat
  a : Option Nat
  deriving DecidableEq, Repr

def Rgb.comps (c : Rgb) : List Nat := [c.r, c.g, c.b] ++ c.a.toList

/-- tyseed.rs `StructVisitor::visit_seq`: fields in declaration order, one element each;
running out of elements is `invalid_length` (class `other`). -/
def structFromSeq : Fields → List (Ty → Res String) → List String → Res String
  | .nil, _, acc => .ok ("{" ++ joinComma acc ++ "}")
  | .cons _ _ _ _, [], _ => .error .other
  | .cons n _ t rest, e :: es, acc =>
    match e t with
    | .ok v => structFromSeq rest es (acc ++ [n ++ "=" ++ v])
    | .error x => .error x

def seqFrom (t : Ty) : List (Ty → Res String) → List String → Res String
  | [], acc => .ok ("[" ++ joinComma acc ++ "]")
  | e :: es, acc =>
    match e t with
    | .ok v => seqFrom t es (acc ++ [v])
    | .error x => .error x

/-- element of `InnerColorSequence`: `visit_u32(component)`. -/
def innerElem (v : Nat) (t : Ty) : Res String := visitPrim t (.u32 v)

/-- second element of `ColorSequence`: `visit_seq(InnerColorSequence)`. -/
def outerElem2 (c : Rgb) (t : Ty) : Res String :=
  match t with
  | .any => .ok ("[" ++ joinComma (c.comps.map (fun v => "u" ++ toString v)) ++ "]")
  | .ign => .ok "ign"
  | .seq e => seqFrom e (c.comps.map innerElem) []
  | .struct fs => structFromSeq fs (c.comps.map innerElem) []
  | _ => .error .type

/-- first element of `ColorSequence`: `visit_borrowed_str("rgb")`. -/
def outerElem1 (t : Ty) : Res String := visitPrim t (.str [114, 103, 98])

/-- the visitor of type `t` is handed `visit_seq(ColorSequence::new(c))`. -/
def colorVisit (t : Ty) (c : Rgb) : Res String :=
  match t with
  | .any => .ok ("[s726762,[" ++ joinComma (c.comps.map (fun v => "u" ++ toString v)) ++ "]]")
  | .ign => .ok "ign"
  | .seq e => seqFrom e [outerElem1, outerElem2 c] []
  | .struct fs => structFromSeq fs [outerElem1, outerElem2 c] []
  | _ => .error .type

/-! ### struct bookkeeping shared by all paths (tyseed.rs `StructVisitor::visit_map`) -/

def slotsInit (fs : Fields) : List (Option String) := List.replicate fs.length none

/-- after the key loop: every declared field in order; an absent `opt` is `none`, any other
absent field is `missing_field`. -/
def structFinish : Fields → List (Option String) → List String → Res String
  | .nil, _, acc => .ok ("{" ++ joinComma acc ++ "}")
  | .cons n _ t rest, slots, acc =>
    let (cur, others) := match slots with | [] => (none, []) | s :: ss => (s, ss)
    match cur with
    | some v => structFinish rest others (acc ++ [n ++ "=" ++ v])
    | none =>
      match t with
      | .opt _ => structFinish rest others (acc ++ [n ++ "=none"])
      | _ => .error (.missing n)

/-- serde_derive style field identifier (tyseed.rs `FieldId`): a string names a field, an unsigned
integer is a field index, anything else is `invalid type`.  Token structs (jomini_derive with
`token`): only strings (and `visit_u16`, handled by the callers' `deserialize_u16` hint). -/
def fieldOfPrim (fs : Fields) (byToken : Bool) (p : Prim) : Res (Option Nat) :=
  match p with
  | .str s => .ok (fs.posName s 0)
  | .u32 n => if byToken then .error .type else .ok (if n < fs.length then some n else none)
  | .u64 n => if byToken then .error .type else .ok (if n < fs.length then some n else none)
  | _ => .error .type

/-! ### raw lexemes (sequential paths) -/

inductive Tok where
  | open | close | equal
  | u32 (n : Nat) | u64 (n : Nat) | i32 (n : Int) | i64 (n : Int) | bool (b : Bool)
  | quoted (b : Bytes) | unquoted (b : Bytes) | f32 (raw : Bytes) | f64 (raw : Bytes)
  | id (n : Nat)
  /-- only produced by the streaming reader's `read_token` from `id 0x243 …` -/
  | rgb (c : Rgb)
  /-- end of a truncated input: a lexeme id was read but its payload is short -/
  | trunc
  /-- end of a truncated input: one dangling byte -/
  | stray
  deriving DecidableEq, Repr

def RGB_ID : Nat := 0x0243

inductive Path where
  | ondemand | stream
  deriving DecidableEq, Repr

/-- lexer.rs `read_rgb` on raw lexemes: `{ U32 U32 U32 }` or `{ U32 U32 U32 U32 }`; anything else is
`Eof` or `InvalidRgb` (both class `other`). -/
def readRgb : List Tok → Option (Rgb × List Tok)
  | .open :: .u32 r :: .u32 g :: .u32 b :: .close :: rest => some ({ r, g, b, a := none }, rest)
  | .open :: .u32 r :: .u32 g :: .u32 b :: .u32 a :: .close :: rest => some ({ r, g, b, a := some a }, rest)
  | _ => none

/-- `skip_container` (lexer.rs:818 and reader.rs:123 are the same loop on raw lexemes): runs to the
`Close` matching depth 1; the rgb marker is just an id there. -/
def skipContainer : List Tok → Nat → Res (List Tok)
  | [], _ => .error .other
  | .close :: rest, d => if d ≤ 1 then .ok rest else skipContainer rest (d - 1)
  | .open :: rest, d => skipContainer rest (d + 1)
  | .trunc :: _, _ => .error .other
  | .stray :: _, _ => .error .other
  | _ :: rest, d => skipContainer rest d

inductive Fetched where
  | tok (t : Tok) (rest : List Tok)
  /-- streaming: `Ok(None)`; on-demand: `Err(Eof)` -/
  | eof
  | err

/-- streaming `TokenReader::next` (whole tokens, rgb parsed) / on-demand `Lexer::read_id`
(payload still unread, so a truncated payload is noticed later). -/
def fetch (p : Path) (toks : List Tok) : Fetched :=
  match p, toks with
  | _, [] => .eof
  | .stream, .stray :: _ => .err
  | .stream, .trunc :: _ => .err
  | .stream, .id n :: rest =>
    if n == RGB_ID then
      match readRgb rest with
      | some (c, rest') => .tok (.rgb c) rest'
      | none => .err
    else .tok (.id n) rest
  | .stream, t :: rest => .tok t rest
  | .ondemand, .stray :: _ => .eof
  | .ondemand, t :: rest => .tok t rest

/-- `reader.read()?` / `parser.read_id()?` -/
def fetchRead (p : Path) (toks : List Tok) : Res (Tok × List Tok) :=
  match fetch p toks with
  | .tok t rest => .ok (t, rest)
  | _ => .error .other

def payloadFree : Tok → Bool
  | .open | .close | .equal | .id _ => true
  | _ => false

/-- `next_key_seed` up to the key token (de.rs:91 / de.rs:657): `Close` ends the map, an `Open` in
key position is a ghost object whose NEXT lexeme is read and dropped.  The streaming path drops a
whole token (`reader.read()?`, error propagated); the on-demand path drops only a lexeme ID
(`let _ = self.de.parser.read_id()?`), which a token-level model can follow only when that lexeme
has no payload (`beyond` otherwise).  End of input ends a root map. -/
def nextKey (p : Path) (root : Bool) : Nat → List Tok → Res (Option Tok × List Tok)
  | 0, _ => .error .fuel
  | f + 1, toks =>
    match fetch p toks with
    | .tok .close rest => .ok (none, rest)
    | .tok .open rest =>
      match p with
      | .stream =>
        match fetchRead .stream rest with
        | .ok (_, rest') => nextKey p root f rest'
        | .error e => .error e
      | .ondemand =>
        match rest with
        | [] => .error .other
        | .stray :: _ => .error .other
        | t :: rest' => if payloadFree t then nextKey p root f rest' else .error .beyond
    | .tok t rest => .ok (some t, rest)
    | .eof => if root then .ok (none, []) else .error .other
    | .err => .error .other

/-- `next_value_seed` up to the value token: one token, a second one if the first is `Equal`. -/
def nextValue (p : Path) (toks : List Tok) : Res (Tok × List Tok) :=
  match fetchRead p toks with
  | .error e => .error e
  | .ok (.equal, rest) => fetchRead p rest
  | .ok (t, rest) => .ok (t, rest)

inductive Event where
  | prim (p : Prim)
  | seq                 -- `visit_seq(BinaryReaderSeq / OndemandSeq)`
  | color (c : Rgb)     -- `visit_seq(ColorSequence)`
  | err (e : Err)

def Event.ofRes : Res Prim → Event
  | .ok p => .prim p
  | .error e => .err e

/-- the `deser` method (de.rs:142 / de.rs:709) on a token whose payload is at hand.  (The on-demand
version's rgb arm reads the block from the input first: `normTok`.) -/
def deser (c : Cfg) (t : Tok) : Event :=
  match t with
  | .u32 n => .prim (.u32 n) | .u64 n => .prim (.u64 n) | .i32 n => .prim (.i32 n) | .i64 n => .prim (.i64 n)
  | .bool b => .prim (.bool b)
  | .quoted b => .prim (.str (decode1252 b)) | .unquoted b => .prim (.str (decode1252 b))
  | .f32 raw => .prim (.f32 (visitF32 raw)) | .f64 raw => .prim (.f64 (visitF64 raw))
  | .rgb col => .color col
  | .id n => Event.ofRes (idPrim c n)
  | .close => .err .other | .equal => .err .other
  | .open => .seq
  | .trunc => .err .other | .stray => .err .other

/-- the typed `deserialize_*` hints (de.rs:218-335 / 778-887): the matching token kind is visited
directly, everything else goes through `deser`.  `deserialize_u16` (de.rs:230 / 789) visits a token
id as `u16` without consulting the resolver (on-demand: `self.token.is_id()`, which excludes the 13
lexeme ids; the rgb marker never arrives here as `.id`, see `normTok`); `deserialize_i16/i8/u8`
have no hint. -/
def hinted (c : Cfg) (ty : Ty) (t : Tok) : Event :=
  match ty, t with
  | .bool, .bool b => .prim (.bool b)
  | .i32, .i32 n => .prim (.i32 n)
  | .u32, .u32 n => .prim (.u32 n)
  | .u64, .u64 n => .prim (.u64 n)
  | .i64, .i64 n => .prim (.i64 n)
  | .f32, .f32 raw => .prim (.f32 (visitF32 raw))
  | .f64, .f64 raw => .prim (.f64 (visitF64 raw))
  | .str, .quoted b => .prim (.str (decode1252 b))
  | .str, .unquoted b => .prim (.str (decode1252 b))
  | .u16, .id n => .prim (.u16 n)
  | _, _ => deser c t

/-- a leaf-typed visitor (bool, numbers, String) handed an event. -/
def leafOf (ty : Ty) : Event → Res String
  | .prim p => visitPrim ty p
  | .seq => .error .type
  | .color _ => .error .type
  | .err e => .error e

/-- On-demand only: the token is a bare lexeme id, and every way of consuming the rgb marker
(`deser`'s rgb arm de.rs:733, `deserialize_seq` de.rs:944, `skip_value`) first reads the block
`{ r g b [a] }` from the input; from then on it is what the streaming reader had delivered as one
token.  `deserialize_option` hands the unread token on (`visit_some(self)`). -/
def normTok (p : Path) (ty : Ty) (t : Tok) (rest : List Tok) : Res (Tok × List Tok) :=
  match p, ty, t with
  | .ondemand, .opt _, _ => .ok (t, rest)
  | .ondemand, _, .id n =>
    if n == RGB_ID then
      match readRgb rest with
      | some (col, r) => .ok (.rgb col, r)
      | none => .error .other
    else .ok (t, rest)
  | _, _, _ => .ok (t, rest)

/-- key of a struct: `deserialize_identifier` (= `deser`), or for token structs `deserialize_u16`
(de.rs:230 / 789: an id token is visited as `u16` without consulting the resolver). -/
def seqFieldKey (c : Cfg) (fs : Fields) (byToken : Bool) (t : Tok) : Res (Option Nat) :=
  match byToken, t with
  | true, .id n => .ok (fs.posTok n 0)
  | _, _ =>
    match deser c t with
    | .prim p => fieldOfPrim fs byToken p
    | .err e => .error e
    | .seq => .error .type
    | .color _ => .error .type

/-- `deserialize_ignored_any`: streaming (de.rs:463) skips a container and otherwise has the
whole token already; on-demand (de.rs:1006) `skip_value(id)`: payload, container, or rgb block. -/
def skipTok (p : Path) (t : Tok) (rest : List Tok) : Res (List Tok) :=
  match p with
  | .stream => match t with | .open => skipContainer rest 1 | _ => .ok rest
  | .ondemand =>
    match t with
    | .open => skipContainer rest 1
    | .trunc => .error .other
    | .id n => if n == RGB_ID then (match readRgb rest with | some (_, r) => .ok r | none => .error .other) else .ok rest
    | _ => .ok rest

mutual
/-- `TySeed(ty).deserialize(TokenDeserializer { token })`; `rest` is the input after the token. -/
def deTok (p : Path) (c : Cfg) : Nat → Ty → Tok → List Tok → Res (String × List Tok)
  | 0, _, _, _ => .error .fuel
  | f + 1, ty, t0, rest0 =>
    match normTok p ty t0 rest0 with
    | .error e => .error e
    | .ok (t, rest) =>
    match ty with
    | .ign => match skipTok p t rest with | .ok r => .ok ("ign", r) | .error e => .error e
    | .opt inner =>
      match deTok p c f inner t rest with
      | .ok (v, r) => .ok ("some(" ++ v ++ ")", r)
      | .error e => .error e
    | .any =>
      match deser c t with
      | .prim pr => .ok (renderPrim pr, rest)
      | .seq =>
        match deElems p c f .any rest [] with
        | .ok (items, r) => .ok ("[" ++ joinComma items ++ "]", r)
        | .error e => .error e
      | .color col => (colorVisit .any col).map (fun v => (v, rest))
      | .err e => .error e
    | .seq et =>
      match t with
      | .open =>
        match deElems p c f et rest [] with
        | .ok (items, r) => .ok ("[" ++ joinComma items ++ "]", r)
        | .error e => .error e
      | .rgb col => (colorVisit (.seq et) col).map (fun v => (v, rest))
      | _ => (leafOf (.seq et) (deser c t)).map (fun v => (v, rest))
    | .map vt =>
      match t with
      | .open =>
        match deMap p c f vt false rest [] with
        | .ok (items, r) => .ok ("{" ++ joinComma items ++ "}", r)
        | .error e => .error e
      | _ => (leafOf (.map vt) (deser c t)).map (fun v => (v, rest))
    | .struct fs =>
      match t with
      | .open => deStruct p c f fs false false rest (slotsInit fs)
      | .rgb col => (colorVisit (.struct fs) col).map (fun v => (v, rest))
      | _ => (leafOf (.struct fs) (deser c t)).map (fun v => (v, rest))
    | .enum vs =>
      match hinted c .str t with
      | .prim pr => (enumVal vs pr).map (fun v => (v, rest))
      | .err e => .error e
      | _ => .error .type
    | .prop _ => .error .beyond
    | leaf => (leafOf leaf (hinted c leaf t)).map (fun v => (v, rest))

/-- `SeqAccess::next_element_seed` until `Close` (de.rs:491 / 1031). -/
def deElems (p : Path) (c : Cfg) : Nat → Ty → List Tok → List String → Res (List String × List Tok)
  | 0, _, _, _ => .error .fuel
  | f + 1, et, toks, acc =>
    match fetchRead p toks with
    | .error e => .error e
    | .ok (.close, rest) => .ok (acc, rest)
    | .ok (t, rest) =>
      match deTok p c f et t rest with
      | .ok (v, r) => deElems p c f et r (acc ++ [v])
      | .error e => .error e

/-- tyseed.rs `MapVisitor::visit_map`: keys as `String`, values as `vt`. -/
def deMap (p : Path) (c : Cfg) : Nat → Ty → Bool → List Tok → List String → Res (List String × List Tok)
  | 0, _, _, _, _ => .error .fuel
  | f + 1, vt, root, toks, acc =>
    match nextKey p root (f + 1) toks with
    | .error e => .error e
    | .ok (none, rest) => .ok (acc, rest)
    | .ok (some kt, rest) =>
      match deTok p c f .str kt rest with
      | .error e => .error e
      | .ok (k, r1) =>
        match nextValue p r1 with
        | .error e => .error e
        | .ok (vtok, r2) =>
          match deTok p c f vt vtok r2 with
          | .error e => .error e
          | .ok (v, r3) => deMap p c f vt root r3 (acc ++ [k ++ "=" ++ v])

/-- tyseed.rs `StructVisitor::visit_map` (and the token-struct visitor of c04.rs): a known field is
read with its type unless already filled (`duplicate_field`, value untouched); an unknown field's
value is read as `IgnoredAny`. -/
def deStruct (p : Path) (c : Cfg) : Nat → Fields → Bool → Bool → List Tok → List (Option String) → Res (String × List Tok)
  | 0, _, _, _, _, _ => .error .fuel
  | f + 1, fs, byToken, root, toks, slots =>
    match nextKey p root (f + 1) toks with
    | .error e => .error e
    | .ok (none, rest) => (structFinish fs slots []).map (fun v => (v, rest))
    | .ok (some kt0, rest0) =>
      match normTok p .any kt0 rest0 with
      | .error e => .error e
      | .ok (kt, rest) =>
      match seqFieldKey c fs byToken kt with
      | .error e => .error e
      | .ok none =>
        match nextValue p rest with
        | .error e => .error e
        | .ok (vtok, r2) =>
          match deTok p c f .ign vtok r2 with
          | .error e => .error e
          | .ok (_, r3) => deStruct p c f fs byToken root r3 slots
      | .ok (some i) =>
        match slots[i]?, fs.get? i with
        | some (some _), some (name, _, _) => .error (.duplicate name)
        | some none, some (_, _, fty) =>
          match nextValue p rest with
          | .error e => .error e
          | .ok (vtok, r2) =>
            match deTok p c f fty vtok r2 with
            | .error e => .error e
            | .ok (v, r3) => deStruct p c f fs byToken root r3 (slots.set i (some v))
        | _, _ => .error .panic
end

/-- fuel that suffices: every step consumes a token or peels a type constructor. -/
def tySize : Ty → Nat
  | .opt t => tySize t + 1 | .seq t => tySize t + 1 | .map t => tySize t + 1 | .prop t => tySize t + 1
  | .struct fs => fieldsSize fs + 1
  | _ => 1
where fieldsSize : Fields → Nat
  | .nil => 0
  | .cons _ _ t r => tySize t + fieldsSize r + 1

def rootSize : RootTy → Nat
  | .plain t => tySize t
  | .tok fs => tySize (.struct fs)

/-- the root deserializer (de.rs:31-72 / 599-639): only `deserialize_map` / `deserialize_struct`
work, every other request ends in `deserialize_any` = "can only work with key value pairs". -/
def deSeqRoot (p : Path) (c : Cfg) (ty : RootTy) (toks : List Tok) : Res String :=
  let fuel := 2 * toks.length + rootSize ty + 8
  match ty with
  | .plain (.map vt) =>
    match deMap p c fuel vt true toks [] with
    | .ok (items, _) => .ok ("{" ++ joinComma items ++ "}")
    | .error e => .error e
  | .plain (.struct fs) => (deStruct p c fuel fs false true toks (slotsInit fs)).map (·.1)
  | .tok fs => (deStruct p c fuel fs true true toks (slotsInit fs)).map (·.1)
  | .plain (.prop _) => .error .beyond
  | .plain _ => .error .other

def deOndemand (c : Cfg) (ty : RootTy) (toks : List Tok) : Res String := deSeqRoot .ondemand c ty toks
def deStream (c : Cfg) (ty : RootTy) (toks : List Tok) : Res String := deSeqRoot .stream c ty toks

/-! ### tape path -/

inductive TTok where
  | array (e : Nat) | object (e : Nat) | mixed | equal | end_ (i : Nat)
  | bool (b : Bool) | u32 (n : Nat) | u64 (n : Nat) | i64 (n : Int) | i32 (n : Int)
  | quoted (b : Bytes) | unquoted (b : Bytes) | f32 (raw : Bytes) | f64 (raw : Bytes)
  | token (id : Nat) | rgb (c : Rgb)
  deriving DecidableEq, Repr

/-- `visit_key` (de.rs:1485). -/
def visitKey (c : Cfg) (t : TTok) : Res Prim :=
  match t with
  | .object _ => .error .other | .array _ => .error .other | .end_ _ => .error .other | .rgb _ => .error .other
  | .mixed => .ok .unit | .equal => .ok .unit
  | .bool b => .ok (.bool b) | .u32 n => .ok (.u32 n) | .u64 n => .ok (.u64 n) | .i64 n => .ok (.i64 n) | .i32 n => .ok (.i32 n)
  | .quoted b => .ok (.str (decode1252 b)) | .unquoted b => .ok (.str (decode1252 b))
  | .f32 raw => .ok (.f32 (visitF32 raw)) | .f64 raw => .ok (.f64 (visitF64 raw))
  | .token id => idPrim c id

/-- index after the value starting at `i` (`Array(x) | Object(x) => x`, else `i`) plus one. -/
def afterValue (t : TTok) (i : Nat) : Nat :=
  match t with
  | .array x => x + 1
  | .object x => x + 1
  | _ => i + 1

/-- key of a struct on the tape: `KeyDeserializer::deserialize_identifier` (= `visit_key`), or
`deserialize_u16` (de.rs:1532) for token structs. -/
def tapeFieldKey (c : Cfg) (fs : Fields) (byToken : Bool) (t : TTok) : Res (Option Nat) :=
  match byToken, t with
  | true, .token id => .ok (fs.posTok id 0)
  | _, _ =>
    match visitKey c t with
    | .ok p => fieldOfPrim fs byToken p
    | .error e => .error e

/-- a `u16` request that meets a token id (value or element position on the tape). -/
def u16Tok (ty : Ty) (t : TTok) : Option Nat :=
  match ty, t with
  | .u16, .token n => some n
  | _, _ => none

mutual
/-- `TySeed(ty).deserialize(ValueDeserializer { value_ind = idx })` (de.rs:1563). -/
def tVal (c : Cfg) (tape : List TTok) : Nat → Ty → Nat → Res String
  | 0, _, _ => .error .fuel
  | f + 1, ty, idx =>
    match ty with
    | .ign => .ok "ign"          -- `deserialize_ignored_any` = `visit_unit`, the tape is not even read
    | .prop _ => .error .beyond
    | .opt inner => (tVal c tape f inner idx).map (fun v => "some(" ++ v ++ ")")
    | _ =>
      match tape[idx]? with
      | none => .error .panic
      | some t =>
        match ty with
        | .any =>
          match t with
          | .array e =>
            match tSeq c tape f .any (idx + 1) e [] with
            | .ok items => .ok ("[" ++ joinComma items ++ "]")
            | .error x => .error x
          | .rgb col => colorVisit .any col
          | .object e =>
            match tMapAny c tape f (idx + 1) e [] with
            | .ok items => .ok ("{" ++ joinComma items ++ "}")
            | .error x => .error x
          | .end_ _ => .error .other
          | _ => (visitKey c t).map renderPrim
        | .seq et =>
          match t with
          | .array e =>
            match tSeq c tape f et (idx + 1) e [] with
            | .ok items => .ok ("[" ++ joinComma items ++ "]")
            | .error x => .error x
          | .rgb col => colorVisit (.seq et) col
          | _ => match visitKey c t with | .ok p => visitPrim (.seq et) p | .error x => .error x
        | .map vt =>
          match t with
          | .object e | .array e =>
            match tMap c tape f vt (idx + 1) e [] with
            | .ok items => .ok ("{" ++ joinComma items ++ "}")
            | .error x => .error x
          | _ => match visitKey c t with | .ok p => visitPrim (.map vt) p | .error x => .error x
        | .struct fs =>
          match t with
          | .object e | .array e => tStruct c tape f fs false (idx + 1) e (slotsInit fs)
          | _ => match visitKey c t with | .ok p => visitPrim (.struct fs) p | .error x => .error x
        | .enum vs =>
          match t with
          | .array _ => .error .type | .object _ => .error .type | .rgb _ => .error .type
          | .end_ _ => .error .other
          | _ => match visitKey c t with | .ok p => enumVal vs p | .error x => .error x
        | leaf =>
          -- every typed request forwards to `deserialize_any`, except `deserialize_u16` on a token id
          -- (de.rs `ValueDeserializer::deserialize_u16`, since /repo 4ab9b0c): the raw id, no resolver
          match u16Tok leaf t with
          | some n => visitPrim .u16 (.u16 n)
          | none =>
          match t with
          | .array _ => .error .type | .object _ => .error .type | .rgb _ => .error .type
          | .end_ _ => .error .other
          | _ => match visitKey c t with | .ok p => visitPrim leaf p | .error x => .error x

/-- `BinarySequence::next_element_seed` (de.rs:1795). -/
def tSeq (c : Cfg) (tape : List TTok) : Nat → Ty → Nat → Nat → List String → Res (List String)
  | 0, _, _, _, _ => .error .fuel
  | f + 1, et, idx, endIdx, acc =>
    if idx ≥ endIdx then .ok acc else
    match tape[idx]? with
    | none => .error .panic
    | some t =>
      match tVal c tape f et idx with
      | .ok v => tSeq c tape f et (afterValue t idx) endIdx (acc ++ [v])
      | .error x => .error x

/-- `BinaryMap` driven by `MapVisitor` (keys as `String`). -/
def tMap (c : Cfg) (tape : List TTok) : Nat → Ty → Nat → Nat → List String → Res (List String)
  | 0, _, _, _, _ => .error .fuel
  | f + 1, vt, tapeIdx, endIdx, acc =>
    if tapeIdx < endIdx then
      match tape[tapeIdx + 1]?, tape[tapeIdx]? with
      | some vtok, some ktok =>
        match visitKey c ktok with
        | .error x => .error x
        | .ok kp =>
          match visitPrim .str kp with
          | .error x => .error x
          | .ok k =>
            match tVal c tape f vt (tapeIdx + 1) with
            | .error x => .error x
            | .ok v => tMap c tape f vt (afterValue vtok (tapeIdx + 1)) endIdx (acc ++ [k ++ "=" ++ v])
      | _, _ => .error .panic
    else .ok acc

/-- `BinaryMap` driven by `AnyVisitor::visit_map` (keys and values as `any`). -/
def tMapAny (c : Cfg) (tape : List TTok) : Nat → Nat → Nat → List String → Res (List String)
  | 0, _, _, _ => .error .fuel
  | f + 1, tapeIdx, endIdx, acc =>
    if tapeIdx < endIdx then
      match tape[tapeIdx + 1]?, tape[tapeIdx]? with
      | some vtok, some ktok =>
        match visitKey c ktok with
        | .error x => .error x
        | .ok kp =>
          match tVal c tape f .any (tapeIdx + 1) with
          | .error x => .error x
          | .ok v => tMapAny c tape f (afterValue vtok (tapeIdx + 1)) endIdx (acc ++ [renderPrim kp ++ "=" ++ v])
      | _, _ => .error .panic
    else .ok acc

/-- `BinaryMap` driven by the struct visitor. -/
def tStruct (c : Cfg) (tape : List TTok) : Nat → Fields → Bool → Nat → Nat → List (Option String) → Res String
  | 0, _, _, _, _, _ => .error .fuel
  | f + 1, fs, byToken, tapeIdx, endIdx, slots =>
    if tapeIdx < endIdx then
      match tape[tapeIdx + 1]?, tape[tapeIdx]? with
      | some vtok, some ktok =>
        match tapeFieldKey c fs byToken ktok with
        | .error x => .error x
        | .ok none => tStruct c tape f fs byToken (afterValue vtok (tapeIdx + 1)) endIdx slots
        | .ok (some i) =>
          match slots[i]?, fs.get? i with
          | some (some _), some (name, _, _) => .error (.duplicate name)
          | some none, some (_, _, fty) =>
            match tVal c tape f fty (tapeIdx + 1) with
            | .error x => .error x
            | .ok v => tStruct c tape f fs byToken (afterValue vtok (tapeIdx + 1)) endIdx (slots.set i (some v))
          | _, _ => .error .panic
      | _, _ => .error .panic
    else structFinish fs slots []
end

/-- root of the tape deserializer (de.rs:1359-1406): `BinaryMap::new(config, tokens, 0, len)`. -/
def deTape (c : Cfg) (ty : RootTy) (tape : List TTok) : Res String :=
  let fuel := 2 * tape.length + rootSize ty + 8
  match ty with
  | .plain (.map vt) =>
    match tMap c tape fuel vt 0 tape.length [] with
    | .ok items => .ok ("{" ++ joinComma items ++ "}")
    | .error e => .error e
  | .plain (.struct fs) => tStruct c tape fuel fs false 0 tape.length (slotsInit fs)
  | .tok fs => tStruct c tape fuel fs true 0 tape.length (slotsInit fs)
  | .plain (.prop _) => .error .beyond
  | .plain _ => .error .other

end Jomini.BinDe
