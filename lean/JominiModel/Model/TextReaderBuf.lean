import JominiModel.Model.TextReader
/-
The streaming text reader over a CONCRETE buffer: `BufferWindow { buf, start, end, prior_reads }` of buffer.rs with the
whole allocation `buf` — including whatever a previous user left in it (`TokenReaderBuilder::buffer(caller-provided)`) —
instead of the abstract window of `Model/TextReader.lean`.

* `fill_buf` is modelled with its `copy_within(consumed.., 0)` (which moves stale bytes behind the window too) and the write
  of the delivered bytes behind the carried ones;
* the 8-byte `read_unaligned` loads and the pointer loops of the fast path of `next_opt` read the ALLOCATION from the window
  start (`phys`), bounded only by the pointer comparisons the code makes (`len` = `end - start`): a load that leaves the
  window but stays inside the allocation returns stale bytes here (it is `ub` only beyond the allocation);
* `next_opt_fallback` / `next_opt_refill` are the code of `run` over `window()`: every byte they read is behind a
  `ptr < end` comparison.

`Proofs/TextReaderBuf.lean` shows that every result is the one of the abstract reader over `view`, whatever the buffer held.
-/
namespace Jomini.TextReader
open Jomini

structure BReader where
  /-- the allocation; `buf.length` is the capacity -/
  buf : Bytes
  start : Nat
  end_ : Nat
  prior : Nat
  src : Src
  bom : Bom
  deriving Repr

/-- `BufferWindow::window()` -/
def BReader.window (c : BReader) : Bytes := (c.buf.drop c.start).take (c.end_ - c.start)

/-- the abstract reader a concrete one stands for -/
def BReader.view (c : BReader) : Reader :=
  { cap := c.buf.length, win := c.window, consumed := c.start, prior := c.prior, src := c.src, bom := c.bom }

/-- `TokenReader::builder().buffer(buf).build(reader)`: the window is empty, the buffer holds whatever it held -/
def BReader.ofBuffer (buf : Bytes) (sched : List Step) (data : Bytes) : BReader :=
  { buf := buf, start := 0, end_ := 0, prior := 0, src := { rest := data, sched := sched }, bom := .unknown }

/-- `advance` / `advance_to` -/
def badvance (c : BReader) (k : Nat) : Option BReader :=
  if k ≤ c.end_ - c.start then some { c with start := c.start + k } else none

/-- `BufferWindow::fill_buf` -/
def bfillBuf (c : BReader) : BReader × Fill :=
  let carry := c.end_ - c.start
  if c.buf.length = 0 then (c, .ok 0)
  else if carry ≥ c.buf.length then (c, .full)
  else
    -- `self.buf.copy_within(self.consumed_data().., 0)` (only if something is carried over)
    let buf1 := if carry ≠ 0 then c.buf.drop c.start ++ c.buf.drop (c.buf.length - c.start) else c.buf
    match c.src.read (c.buf.length - carry) with
    | (src', some bs) =>
      ({ c with buf := buf1.take carry ++ bs ++ buf1.drop (carry + bs.length), start := 0, end_ := carry + bs.length,
                prior := c.prior + c.start, src := src' }, .ok bs.length)
    | (src', none) =>
      ({ c with buf := buf1, start := 0, end_ := carry, prior := c.prior + c.start, src := src' }, .io)

inductive BRes (α : Type)
  | ok (c : BReader) (a : α)
  | err (c : BReader) (e : Err)
  | panic
  | ub
  | fuel
  deriving Repr

def BRes.view {α : Type} : BRes α → Res α
  | .ok c a => .ok c.view a
  | .err c e => .err c.view e
  | .panic => .panic
  | .ub => .ub
  | .fuel => .fuel

/-- `next_opt_fallback` and `next_opt_refill` over the concrete buffer (the text of `run`) -/
def brun : Nat → Call → BReader → BRes (Option Token)
  | 0, _, _ => .fuel
  | f + 1, .fallback, c =>
    match fbLoop (c.prior + c.start == 0) c.window .top 0 c.bom with
    | (bom, .tok adv t) =>
      match badvance { c with bom := bom } adv with
      | some c' => .ok c' (some t)
      | none => .panic
    | (bom, .refill st cr o) => brun f (.refill st cr o) { c with bom := bom }
    | (bom, .bomFill) =>
      match bfillBuf { c with bom := bom } with
      | (c', .ok 0) => brun f .fallback { c' with bom := .notPresent }
      | (c', .ok _) => brun f .fallback c'
      | (c', .full) => .err c' .full
      | (c', .io) => .err c' .io
  | f + 1, .refill st carry off, c =>
    match badvance c (c.window.length - carry) with
    | none => .panic
    | some c0 =>
      if carry > c.window.length then .panic else
      match bfillBuf c0 with
      | (c1, .ok 0) =>
        match st with
        | .none =>
          if carry == 0 then .ok c1 none
          else
            match c1.window with
            | [] => .ub
            | x :: _ =>
              if x == 35 then
                match badvance c1 carry with
                | some c2 => .ok c2 none
                | none => .panic
              else .err c1 .eof
        | .quote => .err c1 .eof
        | .unquoted =>
          if c1.window.length < carry then .ub else
          match badvance c1 c1.window.length with
          | some c2 => .ok c2 (some (.unquoted (c1.window.take carry)))
          | none => .panic
      | (c1, .ok _) =>
        match st with
        | .none => brun f .fallback c1
        | .quote =>
          match quoteRescan c1.window.length (c1.window.drop off) off with
          | .closed n =>
            match badvance c1 (n + 1) with
            | some c2 => .ok c2 (some (.quoted (c1.window.take n)))
            | none => .panic
          | .more cr o => brun f (.refill .quote cr o) c1
        | .unquoted =>
          match findIdx isBoundary (c1.window.drop off) off with
          | some n =>
            match badvance c1 n with
            | some c2 => .ok c2 (some (.unquoted (c1.window.take n)))
            | none => .panic
          | none => brun f (.refill .unquoted c1.window.length c1.window.length) c1
      | (c1, .full) => .err c1 .full
      | (c1, .io) => .err c1 .io

/-! ### the fast path: loads from the allocation, bounded by the pointer comparisons only -/

/-- `for _ in 0..8 { if is_boundary(*opt_ptr) {…return}; opt_ptr += 1 }` on the memory from the window start -/
def fastUnqGroupP (phys : Bytes) : Nat → Nat → Group
  | 0, j => .cont j
  | n + 1, j =>
    match phys[j]? with
    | none => .ub
    | some c => if isBoundary c then .hit j c else fastUnqGroupP phys n (j + 1)

/-- `while end.offset_from(opt_ptr) > 8 { … }` for unquoted scalars (`len` = `end - start`) -/
def fastUnqP (phys : Bytes) (len : Nat) : Nat → Nat → Fast
  | 0, _ => .miss
  | f + 1, j =>
    if len - j > 8 then
      match fastUnqGroupP phys 8 j with
      | .hit j' c => .hit j' c
      | .cont j' => fastUnqP phys len f j'
      | .ub => .ub
    else .miss

/-- `while end.offset_from(opt_ptr) > 8 { … }` for quoted scalars -/
def fastQuoteP (phys : Bytes) (len : Nat) : Nat → Nat → Bool → Fast
  | 0, _, _ => .miss
  | f + 1, j, escaped =>
    if len - j > 8 then
      match read64 phys j with
      | none => .ub
      | some data =>
        let escaped := escaped || containsZeroByte (data ^^^ repeatByte 92)
        let t2 := quoteMask data
        if t2 != 0#64 then
          let quoteInd := trailingZeros t2 >>> 3
          if !escaped then .hit (j + quoteInd) 34 else .miss
        else fastQuoteP phys len f (j + 8) escaped
    else .miss

/-- `TokenReader::next_opt` over the concrete buffer -/
def bnextOpt (fuel : Nat) (c : BReader) : BRes (Option Token) :=
  let phys := c.buf.drop c.start
  let len := c.end_ - c.start
  if len < 9 then brun fuel .fallback c
  else
    match read64 phys 0 with
    | none => .ub
    | some data =>
      let p := leadingWhitespace data
      match phys[p]? with
      | none => .ub
      | some x =>
        if x == 123 then
          match badvance c (p + 1) with
          | some c' => .ok c' (some .open_)
          | none => .panic
        else if x == 125 then
          match badvance c (p + 1) with
          | some c' => .ok c' (some .close)
          | none => .panic
        else if isFastStart x then
          match fastUnqP phys len len (p + 1) with
          | .hit j x' =>
            match badvance c (if x' == 32 then j + 1 else j) with
            | some c' => .ok c' (some (.unquoted ((phys.drop p).take (j - p))))
            | none => .panic
          | .miss => brun fuel .fallback c
          | .ub => .ub
        else if x == 34 then
          match fastQuoteP phys len len (p + 1) false with
          | .hit j _ =>
            match badvance c (j + 1) with
            | some c' => .ok c' (some (.quoted ((phys.drop (p + 1)).take (j - (p + 1)))))
            | none => .panic
          | .miss => brun fuel .fallback c
          | .ub => .ub
        else brun fuel .fallback c

/-- the run of `next` calls over the concrete buffer (compare `lexAll`) -/
structure BRun where
  toks : List Token
  out : Outcome
  final : BReader
  deriving Repr

def blexAll (fuel : Nat) : Nat → BReader → List Token → BRun
  | 0, c, acc => { toks := acc.reverse, out := .fuel, final := c }
  | n + 1, c, acc =>
    match bnextOpt fuel c with
    | .ok c' (some t) => blexAll fuel n c' (t :: acc)
    | .ok c' none => { toks := acc.reverse, out := .end_, final := c' }
    | .err c' e => { toks := acc.reverse, out := .err e, final := c' }
    | .panic => { toks := acc.reverse, out := .panic, final := c }
    | .ub => { toks := acc.reverse, out := .ub, final := c }
    | .fuel => { toks := acc.reverse, out := .fuel, final := c }

/-- the streaming reader built on the caller-provided buffer `buf` (stale contents included) -/
def streamTokensBuf (buf : Bytes) (sched : List Step) (data : Bytes) : BRun :=
  blexAll (fuelFor data + 2 * sched.length) (fuelFor data) (BReader.ofBuffer buf sched data) []

/-! ### `read`, `read_bytes`, `skip_container`, `skip_unquoted_value` over the concrete buffer -/

/-- `TokenReader::read` -/
def bread (fuel : Nat) (c : BReader) : BRes Token :=
  match bnextOpt fuel c with
  | .ok c' (some t) => .ok c' t
  | .ok c' none => .err c' .eof
  | .err c' e => .err c' e
  | .panic => .panic
  | .ub => .ub
  | .fuel => .fuel

/-- `TokenReader::read_bytes` -/
def breadBytes : Nat → BReader → Nat → BRes Bytes
  | 0, _, _ => .fuel
  | f + 1, c, n =>
    if c.end_ - c.start < n then
      match bfillBuf c with
      | (c', .ok 0) => .err c' .eof
      | (c', .ok _) => breadBytes f c' n
      | (c', .full) => .err c' .full
      | (c', .io) => .err c' .io
    else
      match badvance c n with
      | some c' => .ok c' (c.window.take n)
      | none => .panic

/-- the inner loops of `skip_container` on the memory from the window start: the 8-byte loads and the byte reads see the
allocation, bounded by the pointer comparisons only (`len` = `end - start`) -/
def skipScanP (phys : Bytes) (len : Nat) : Nat → SkipSt → Int → Nat → SkipScan
  | 0, _, _, _ => .fuel
  | f + 1, .none, depth, ptr =>
    let chunk : Option (Option Int) :=
      if len - ptr > 8 then (read64 phys ptr).map (fun data => chunkStep data depth) else some none
    match chunk with
    | none => .ub
    | some (some d) => skipScanP phys len f .none d (ptr + 8)
    | some none =>
      if ptr == len then .refill .none depth ptr
      else
        match phys[ptr]? with
        | none => .ub
        | some val =>
          let ptr := ptr + 1
          if val == 123 then skipScanP phys len f .none (depth + 1) ptr
          else if val == 125 then
            if depth - 1 == 0 then .done ptr else skipScanP phys len f .none (depth - 1) ptr
          else if val == 34 then skipScanP phys len f .quote depth ptr
          else if val == 35 then skipScanP phys len f .comment depth ptr
          else skipScanP phys len f .none depth ptr
  | f + 1, .quote, depth, ptr =>
    if ptr == len then .refill .quote depth ptr
    else
      match phys[ptr]? with
      | none => .ub
      | some c =>
        if c == 92 then
          if len - ptr ≤ 2 then .refill .quote depth ptr
          else skipScanP phys len f .quote depth (ptr + 2)
        else if c != 34 then skipScanP phys len f .quote depth (ptr + 1)
        else skipScanP phys len f .none depth (ptr + 1)
  | f + 1, .comment, depth, ptr =>
    if ptr == len then .refill .comment depth ptr
    else
      match phys[ptr]? with
      | none => .ub
      | some c =>
        if c == 10 then skipScanP phys len f .none depth (ptr + 1)
        else skipScanP phys len f .comment depth (ptr + 1)

/-- the outer loop of `skip_container` -/
def bskipLoop : Nat → BReader → SkipSt → Int → Nat → BRes Unit
  | 0, _, _, _, _ => .fuel
  | f + 1, c, st, depth, ptr =>
    match skipScanP (c.buf.drop c.start) (c.end_ - c.start) (c.end_ - c.start + 2) st depth ptr with
    | .done p =>
      match badvance c p with
      | some c' => .ok c' ()
      | none => .panic
    | .refill st' depth' p =>
      match badvance c p with
      | none => .panic
      | some c0 =>
        match bfillBuf c0 with
        | (c1, .ok 0) => .err c1 .eof
        | (c1, .ok _) => bskipLoop f c1 st' depth' 0
        | (c1, .full) => .err c1 .full
        | (c1, .io) => .err c1 .io
    | .ub => .ub
    | .fuel => .fuel

/-- `TokenReader::skip_container` -/
def bskipContainer (fuel : Nat) (c : BReader) : BRes Unit := bskipLoop fuel c .none 1 0

/-- `word == 0x0909090A` on the four bytes at the window start: 4 if they are `\n\t\t\t`, else 0 -/
def head4 : Bytes → Nat
  | b0 :: b1 :: b2 :: b3 :: _ => if b0 == 10 && b1 == 9 && b2 == 9 && b3 == 9 then 4 else 0
  | _ => 0

/-- `TokenReader::skip_unquoted_value`: the 4-byte load `ptr.cast::<u32>().read_unaligned()` reads the allocation, guarded by
`end - ptr >= 4` -/
def bskipUnquotedValue : Nat → BReader → BRes Unit
  | 0, _ => .fuel
  | f + 1, c =>
    let w := c.window
    let ptr : Nat :=
      if c.end_ - c.start ≥ 4 then head4 (c.buf.drop c.start) else 0
    match skipUScan (w.drop ptr) ptr with
    | .open_ p =>
      match badvance c (p + 1) with
      | some c' => bskipContainer (f + 1) c'
      | none => .panic
    | .stop => .ok c ()
    | .windowEnd =>
      match badvance c w.length with
      | none => .panic
      | some c0 =>
        match bfillBuf c0 with
        | (c1, .ok 0) => .ok c1 ()
        | (c1, .ok _) => bskipUnquotedValue f c1
        | (c1, .full) => .err c1 .full
        | (c1, .io) => .err c1 .io

end Jomini.TextReader
