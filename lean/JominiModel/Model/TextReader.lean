import JominiModel.Model.Basic
/-
Model of the streaming text token reader: /repo/src/text/reader.rs (`TokenReader`),
/repo/src/buffer.rs (`BufferWindow`), the SWAR helpers of /repo/src/util.rs and
`data::is_boundary`.  Core Lean only.

Conventions
* The buffer is modelled by its abstract view: `win` = the bytes `start..end`, `consumed` =
  `start - start_buf`, `prior` = `prior_reads`; `cap` = `buf.len()` (0 = slice mode, exactly as
  `BufferWindow::from_slice` has an empty `buf`).  Stale bytes beyond `end` are never read by the
  reader (every raw read is checked here and yields `ub` if it would leave the window).
* `Read` is `Src`: the undelivered bytes plus a schedule with the semantics of
  harness/src/sched.rs (`give n`, `fail`, `failForever`, `repeat n`; exhausted = unlimited).
* pointers are offsets from `buf.start`; `advance_to(p)` is `advance r k` and is `panic` when
  the debug assertion `start <= p <= end` would fire.
* every loop that is not structural has explicit fuel; fuel exhaustion is the outcome `fuel`.
-/
namespace Jomini.TextReader
open Jomini

/-! ## util.rs: SWAR helpers on a 64-bit word -/

def LO : BitVec 64 := 0x0101010101010101#64
def HI : BitVec 64 := 0x8080808080808080#64

/-- `repeat_byte(b) = (b as u64) * (u64::MAX / 255)` -/
def repeatByte (b : UInt8) : BitVec 64 := (b.toBitVec.setWidth 64) * LO

/-- `contains_zero_byte(x) = x.wrapping_sub(LO) & !x & HI != 0` -/
def containsZeroByte (x : BitVec 64) : Bool := ((x - LO) &&& ~~~x &&& HI) != 0#64

/-- `bytewise_equal` -/
def bytewiseEqual (lhs rhs : BitVec 64) : BitVec 64 :=
  let lo := LO
  let hi := lo <<< 7
  let x := lhs ^^^ rhs
  ~~~((((x &&& ~~~hi) + ~~~hi) ||| x) >>> 7) &&& lo

/-- `sum_usize` -/
def sumUsize (values : BitVec 64) : BitVec 64 :=
  let everyOtherByteLo : BitVec 64 := 0x0001000100010001#64
  let everyOtherByte : BitVec 64 := everyOtherByteLo * 0xFF#64
  let pairSum := (values &&& everyOtherByte) + ((values >>> 8) &&& everyOtherByte)
  (pairSum * everyOtherByteLo) >>> 48

/-- `count_chunk(value, byte)` -/
def countChunk (value : BitVec 64) (byte : UInt8) : BitVec 64 :=
  sumUsize (bytewiseEqual value (repeatByte byte))

/-- `u64::trailing_zeros`: index of the lowest set bit, 64 for zero. -/
def trailingZeros (x : BitVec 64) : Nat :=
  ((List.range 64).find? (fun i => x.getLsbD i)).getD 64

/-- the `0x80`-per-byte mask computed inside `leading_whitespace`: a byte of the result is
`0x80` iff the corresponding byte of `value` is neither `\t` nor `\n`. -/
def notWsMask (value : BitVec 64) : BitVec 64 :=
  let res1 := value ^^^ repeatByte 9
  let res2 := value ^^^ repeatByte 10
  let lo := repeatByte 0x7f
  let nz1 := ((res1 &&& lo) + lo) ||| res1
  let nz2 := ((res2 &&& lo) + lo) ||| res2
  nz1 &&& nz2 &&& repeatByte 0x80

/-- `leading_whitespace(value)` -/
def leadingWhitespace (value : BitVec 64) : Nat := trailingZeros (notWsMask value) >>> 3

/-- the SWAR quote finder of `next_opt` (reader.rs:487-493): `t2` has `0x80` in every byte
that equals `"`. -/
def quoteMask (data : BitVec 64) : BitVec 64 :=
  let mask := repeatByte 0x7f
  let lobits := data &&& mask
  let x0 := (lobits ^^^ repeatByte 34) + mask
  let t0 := x0 ||| data
  let t1 := t0 &&& repeatByte 0x80
  t1 ^^^ repeatByte 0x80

/-- little-endian word of eight bytes (`read_unaligned().to_le()`) -/
def le64 (b0 b1 b2 b3 b4 b5 b6 b7 : UInt8) : BitVec 64 :=
  (b7.toBitVec ++ b6.toBitVec ++ b5.toBitVec ++ b4.toBitVec ++ b3.toBitVec ++ b2.toBitVec ++ b1.toBitVec ++ b0.toBitVec).cast (by decide)

/-- the word made of the first eight bytes of a list; `none` if there are fewer. -/
def word8 : Bytes → Option (BitVec 64)
  | b0 :: b1 :: b2 :: b3 :: b4 :: b5 :: b6 :: b7 :: _ => some (le64 b0 b1 b2 b3 b4 b5 b6 b7)
  | _ => none

/-- checked 8-byte read at offset `j` of the window -/
def read64 (w : Bytes) (j : Nat) : Option (BitVec 64) := word8 (w.drop j)

/-! ## data.rs -/

/-- `data::is_boundary` (CHARACTER_CLASS table) -/
def isBoundary (b : UInt8) : Bool :=
  b == 9 || b == 10 || b == 11 || b == 12 || b == 13 || b == 32 || b == 33 || b == 35 ||
  b == 60 || b == 61 || b == 62 || b == 91 || b == 93 || b == 125 || b == 123

/-- the blank arm of `next_opt_fallback`: space, tab, newline, CR, `;` -/
def isBlank (c : UInt8) : Bool := c == 32 || c == 9 || c == 10 || c == 13 || c == 59

/-! ## tokens, errors -/

inductive Op | lt | le | gt | ge | ne | exact | eq | exists_
  deriving DecidableEq, Repr

inductive Token
  | open_ | close
  | op (o : Op)
  | unquoted (b : Bytes)
  | quoted (b : Bytes)
  deriving DecidableEq, Repr

inductive Err | eof | full | io
  deriving DecidableEq, Repr

/-! ## the Read: remaining bytes + schedule (harness/src/sched.rs) -/

inductive Step
  | give (n : Nat)
  | fail
  | failForever
  | repeat_ (n : Nat)
  deriving DecidableEq, Repr

structure Src where
  rest : Bytes
  sched : List Step
  delivered : Nat := 0
  calls : Nat := 0
  faults : Nat := 0
  deriving Repr

/-- one `Read::read` call into a slice of `space` bytes: the new source and the bytes delivered
(`none` = `Err`). -/
def Src.read (s : Src) (space : Nat) : Src × Option Bytes :=
  let deliver (want : Option Nat) (sched' : List Step) : Src × Option Bytes :=
    let n0 := match want with | none => space | some n => min n space
    let n := min n0 s.rest.length
    ({ rest := s.rest.drop n, sched := sched', delivered := s.delivered + n, calls := s.calls + 1, faults := s.faults },
     some (s.rest.take n))
  match s.sched with
  | [] => deliver none []
  | .give n :: t => deliver (some n) t
  | .repeat_ n :: t => deliver (some n) (.repeat_ n :: t)
  | .fail :: t => ({ s with sched := t, calls := s.calls + 1, faults := s.faults + 1 }, none)
  | .failForever :: t => ({ s with sched := .failForever :: t, calls := s.calls + 1, faults := s.faults + 1 }, none)

/-! ## buffer.rs -/

inductive Bom | unknown | notPresent | present
  deriving DecidableEq, Repr

structure Reader where
  cap : Nat
  win : Bytes
  consumed : Nat
  prior : Nat
  src : Src
  bom : Bom
  deriving Repr

def Reader.position (r : Reader) : Nat := r.prior + r.consumed

/-- `TokenReader::from_slice` -/
def fromSlice (data : Bytes) : Reader :=
  { cap := 0, win := data, consumed := 0, prior := 0, src := { rest := [], sched := [] }, bom := .unknown }

/-- `TokenReader::builder().buffer_len(cap).build(reader)` -/
def fromReader (cap : Nat) (sched : List Step) (data : Bytes) : Reader :=
  { cap := cap, win := [], consumed := 0, prior := 0, src := { rest := data, sched := sched }, bom := .unknown }

inductive Fill | ok (n : Nat) | full | io
  deriving DecidableEq, Repr

/-- `BufferWindow::fill_buf` -/
def fillBuf (r : Reader) : Reader × Fill :=
  if r.cap = 0 then (r, .ok 0)
  else if r.win.length ≥ r.cap then (r, .full)
  else
    match r.src.read (r.cap - r.win.length) with
    | (src', some bs) =>
      ({ r with prior := r.prior + r.consumed, consumed := 0, src := src', win := r.win ++ bs }, .ok bs.length)
    | (src', none) =>
      ({ r with prior := r.prior + r.consumed, consumed := 0, src := src' }, .io)

/-- `advance_to(start + k)` / `advance(k)`; `none` = the debug assertion fires -/
def advance (r : Reader) (k : Nat) : Option Reader :=
  if k ≤ r.win.length then some { r with win := r.win.drop k, consumed := r.consumed + k } else none

/-! ## outcomes -/

inductive Res (α : Type)
  | ok (r : Reader) (a : α)
  | err (r : Reader) (e : Err)
  | panic
  | ub
  | fuel
  deriving Repr

/-! ## the scans of `next_opt_fallback` / `next_opt_refill` -/

/-- offset of the first byte satisfying `p` -/
def findIdx (p : UInt8 → Bool) : Bytes → Nat → Option Nat
  | [], _ => none
  | c :: rest, i => if p c then some i else findIdx p rest (i + 1)

inductive QScan
  | closed (n : Nat)          -- offset of the closing quote
  | more (carry off : Nat)    -- window exhausted: `next_opt_refill(Quote, carry, off)`
  deriving DecidableEq, Repr

/-- first scan of a quoted body (reader.rs:255-282); the list starts at `start_ptr + i`. -/
def quoteScan : Bytes → Nat → QScan
  | [], i => .more i i
  | c :: rest, i =>
    if c == 92 then
      -- `advance = end.offset_from(ptr).min(2)`; if that reaches `end`, resume at the backslash
      match rest with
      | [] => .more (i + 1) i
      | _ :: rest' =>
        if rest'.isEmpty then .more (i + 2) i else quoteScan rest' (i + 2)
    else if c != 34 then quoteScan rest (i + 1)
    else .closed i

/-- re-scan after a refill (reader.rs:173-196); the list starts at `start + i`, `len` = window length. -/
def quoteRescan (len : Nat) : Bytes → Nat → QScan
  | [], _ => .more len len
  | c :: rest, i =>
    if c == 92 then
      match rest with
      | [] => .more len i
      | _ :: rest' => quoteRescan len rest' (i + 2)
    else if c != 34 then quoteRescan len rest (i + 1)
    else .closed i

inductive PState | none | quote | unquoted
  deriving DecidableEq, Repr

inductive Scan
  | tok (adv : Nat) (t : Token)
  | refill (st : PState) (carry off : Nat)
  | bomFill
  deriving DecidableEq, Repr

/-- the `"` arm: `rest` = the window after the opening quote (offset `i + 1`) -/
def quoteTok (rest : Bytes) (i : Nat) : Scan :=
  match quoteScan rest 0 with
  | .closed n => .tok (i + 1 + n + 1) (.quoted (rest.take n))
  | .more carry off => .refill .quote carry off

/-- the `_` arm (and the non-`[` branch of the `@` arm): the first byte is taken unconditionally,
then bytes up to the first boundary byte. -/
def unqTok (c : UInt8) (rest : Bytes) (i : Nat) : Scan :=
  match findIdx isBoundary rest 0 with
  | none => .refill .unquoted (rest.length + 1) (rest.length + 1)
  | some k => .tok (i + 1 + k) (.unquoted ((c :: rest).take (1 + k)))

/-- the `@` arm -/
def atTok (c : UInt8) (rest : Bytes) (i : Nat) : Scan :=
  match rest with
  | [] => .refill .none 1 0
  | d :: rest' =>
    if d == 91 then
      match findIdx (· == 93) rest' 0 with
      | none => .refill .none (rest.length + 1) 0
      | some k => .tok (i + 2 + k + 1) (.unquoted ((c :: rest).take (2 + k + 1)))
    else unqTok c rest i

/-- the operator arms `=` `<` `>` (one byte of look-ahead for a following `=`) -/
def opTok2 (plain withEq : Op) (rest : Bytes) (i : Nat) : Scan :=
  match rest with
  | [] => .refill .none 1 0
  | d :: _ => if d != 61 then .tok (i + 1) (.op plain) else .tok (i + 2) (.op withEq)

/-- the operator arms `!` `?` (the same operator with or without a following `=`) -/
def opTok1 (o : Op) (rest : Bytes) (i : Nat) : Scan :=
  match rest with
  | [] => .refill .none 1 0
  | d :: _ => if d == 61 then .tok (i + 2) (.op o) else .tok (i + 1) (.op o)

/-- the arms of `next_opt_fallback` that start a token at the byte `c` (offset `i`), `rest` =
the window after `c`. -/
def tokenAt (c : UInt8) (rest : Bytes) (i : Nat) : Scan :=
  if c == 123 then .tok (i + 1) .open_
  else if c == 125 then .tok (i + 1) .close
  else if c == 34 then quoteTok rest i
  else if c == 64 then atTok c rest i
  else if c == 61 then opTok2 .eq .exact rest i
  else if c == 60 then opTok2 .lt .le rest i
  else if c == 33 then opTok1 .ne rest i
  else if c == 63 then opTok1 .exists_ rest i
  else if c == 62 then opTok2 .gt .ge rest i
  else unqTok c rest i

inductive Mode | top | comment (start : Nat)
  deriving Repr

/-- the main loop of `next_opt_fallback` over the window (`pos0` = `position() == 0`).
The list is the window from offset `i` on.  Loop fusion: the newline that ends a comment is
consumed here directly (the Rust `break`s to the outer loop, whose blank arm then skips it). -/
def fbLoop (pos0 : Bool) : Bytes → Mode → Nat → Bom → Bom × Scan
  | [], .top, _, bom => (bom, .refill .none 0 0)
  | [], .comment s, i, bom => (bom, .refill .none (i - s) 0)
  | c :: rest, .comment s, i, bom =>
    if c == 10 then fbLoop pos0 rest .top (i + 1) bom else fbLoop pos0 rest (.comment s) (i + 1) bom
  | c :: rest, .top, i, bom =>
    if isBlank c then fbLoop pos0 rest .top (i + 1) bom
    else if c == 35 then fbLoop pos0 rest (.comment i) (i + 1) bom
    else if c == 0xef && bom == .unknown then
      -- A BOM can only be the first three bytes of the stream
      if i != 0 || !pos0 then (.notPresent, tokenAt c rest i)
      else
        -- `self.buf.window().get(..3)`: here i = 0, so the window is `c :: rest`
        match rest with
        | d :: e :: rest' =>
          if d == 0xbb && e == 0xbf then fbLoop pos0 rest' .top (i + 3) .present
          else (.notPresent, tokenAt c rest i)
        | _ => (bom, .bomFill)
    else (bom, tokenAt c rest i)

inductive Call
  | fallback
  | refill (st : PState) (carry off : Nat)
  deriving Repr

/-- `next_opt_fallback` and `next_opt_refill` (mutually recursive in the Rust; one function on fuel here). -/
def run : Nat → Call → Reader → Res (Option Token)
  | 0, _, _ => .fuel
  | f + 1, .fallback, r =>
    match fbLoop (r.position == 0) r.win .top 0 r.bom with
    | (bom, .tok adv t) =>
      match advance { r with bom := bom } adv with
      | some r' => .ok r' (some t)
      | none => .panic
    | (bom, .refill st c o) => run f (.refill st c o) { r with bom := bom }
    | (bom, .bomFill) =>
      match fillBuf { r with bom := bom } with
      | (r', .ok 0) => run f .fallback { r' with bom := .notPresent }
      | (r', .ok _) => run f .fallback r'
      | (r', .full) => .err r' .full
      | (r', .io) => .err r' .io
  | f + 1, .refill st carry off, r =>
    -- self.buf.advance_to(self.buf.end.sub(carry_over))
    match advance r (r.win.length - carry) with
    | none => .panic
    | some r0 =>
      if carry > r.win.length then .panic else
      match fillBuf r0 with
      | (r1, .ok 0) =>
        match st with
        | .none =>
          if carry == 0 then .ok r1 none
          else
            match r1.win with
            | [] => .ub
            | c :: _ =>
              if c == 35 then
                match advance r1 carry with
                | some r2 => .ok r2 none
                | none => .panic
              else .err r1 .eof
        | .quote => .err r1 .eof
        | .unquoted =>
          if r1.win.length < carry then .ub else
          match advance r1 r1.win.length with
          | some r2 => .ok r2 (some (.unquoted (r1.win.take carry)))
          | none => .panic
      | (r1, .ok _) =>
        match st with
        | .none => run f .fallback r1
        | .quote =>
          match quoteRescan r1.win.length (r1.win.drop off) off with
          | .closed n =>
            match advance r1 (n + 1) with
            | some r2 => .ok r2 (some (.quoted (r1.win.take n)))
            | none => .panic
          | .more c o => run f (.refill .quote c o) r1
        | .unquoted =>
          match findIdx isBoundary (r1.win.drop off) off with
          | some n =>
            match advance r1 n with
            | some r2 => .ok r2 (some (.unquoted (r1.win.take n)))
            | none => .panic
          | none => run f (.refill .unquoted r1.win.length r1.win.length) r1
      | (r1, .full) => .err r1 .full
      | (r1, .io) => .err r1 .io

def nextOptFallback (fuel : Nat) (r : Reader) : Res (Option Token) := run fuel .fallback r

/-! ## the fast path of `next_opt` -/

inductive Fast
  | hit (j : Nat) (c : UInt8)
  | miss
  | ub
  deriving Repr

/-- `matches!(*ptr, b'a'..=b'z' | b'0'..=b'9' | b'A'..=b'Z' | b'-')` -/
def isFastStart (c : UInt8) : Bool :=
  (97 ≤ c && c ≤ 122) || (48 ≤ c && c ≤ 57) || (65 ≤ c && c ≤ 90) || c == 45

inductive Group | hit (j : Nat) (c : UInt8) | cont (j : Nat) | ub

/-- `for _ in 0..8 { if is_boundary(*opt_ptr) {…return}; opt_ptr += 1 }` -/
def fastUnqGroup (w : Bytes) : Nat → Nat → Group
  | 0, j => .cont j
  | n + 1, j =>
    match w[j]? with
    | none => .ub
    | some c => if isBoundary c then .hit j c else fastUnqGroup w n (j + 1)

/-- `while end.offset_from(opt_ptr) > 8 { … }` for unquoted scalars -/
def fastUnq (w : Bytes) : Nat → Nat → Fast
  | 0, _ => .miss
  | f + 1, j =>
    if w.length - j > 8 then
      match fastUnqGroup w 8 j with
      | .hit j' c => .hit j' c
      | .cont j' => fastUnq w f j'
      | .ub => .ub
    else .miss

/-- `while end.offset_from(opt_ptr) > 8 { … }` for quoted scalars; `hit j` = closing quote at `j`. -/
def fastQuote (w : Bytes) : Nat → Nat → Bool → Fast
  | 0, _, _ => .miss
  | f + 1, j, escaped =>
    if w.length - j > 8 then
      match read64 w j with
      | none => .ub
      | some data =>
        let escaped := escaped || containsZeroByte (data ^^^ repeatByte 92)
        let t2 := quoteMask data
        if t2 != 0#64 then
          let quoteInd := trailingZeros t2 >>> 3
          if !escaped then .hit (j + quoteInd) 34 else .miss
        else fastQuote w f (j + 8) escaped
    else .miss

/-- `TokenReader::next_opt` -/
def nextOpt (fuel : Nat) (r : Reader) : Res (Option Token) :=
  let w := r.win
  if w.length < 9 then nextOptFallback fuel r
  else
    match read64 w 0 with
    | none => .ub
    | some data =>
      let p := leadingWhitespace data
      match w[p]? with
      | none => .ub
      | some c =>
        if c == 123 then
          match advance r (p + 1) with
          | some r' => .ok r' (some .open_)
          | none => .panic
        else if c == 125 then
          match advance r (p + 1) with
          | some r' => .ok r' (some .close)
          | none => .panic
        else if isFastStart c then
          match fastUnq w w.length (p + 1) with
          | .hit j c' =>
            -- for space delimited arrays, advance one
            match advance r (if c' == 32 then j + 1 else j) with
            | some r' => .ok r' (some (.unquoted ((w.drop p).take (j - p))))
            | none => .panic
          | .miss => nextOptFallback fuel r
          | .ub => .ub
        else if c == 34 then
          match fastQuote w w.length (p + 1) false with
          | .hit j _ =>
            match advance r (j + 1) with
            | some r' => .ok r' (some (.quoted ((w.drop (p + 1)).take (j - (p + 1)))))
            | none => .panic
          | .miss => nextOptFallback fuel r
          | .ub => .ub
        else nextOptFallback fuel r

/-- `TokenReader::next` -/
def next (fuel : Nat) (r : Reader) : Res (Option Token) := nextOpt fuel r

/-- `TokenReader::read`: a clean end is an `Eof` error -/
def read (fuel : Nat) (r : Reader) : Res Token :=
  match nextOpt fuel r with
  | .ok r' (some t) => .ok r' t
  | .ok r' none => .err r' .eof
  | .err r' e => .err r' e
  | .panic => .panic
  | .ub => .ub
  | .fuel => .fuel

/-- `TokenReader::read_bytes` -/
def readBytes : Nat → Reader → Nat → Res Bytes
  | 0, _, _ => .fuel
  | f + 1, r, n =>
    if r.win.length < n then
      match fillBuf r with
      | (r', .ok 0) => .err r' .eof
      | (r', .ok _) => readBytes f r' n
      | (r', .full) => .err r' .full
      | (r', .io) => .err r' .io
    else
      match advance r n with
      | some r' => .ok r' (r.win.take n)
      | none => .panic

/-! ## skip_container -/

inductive SkipSt | none | quote | comment
  deriving DecidableEq, Repr

inductive SkipScan
  | done (ptr : Nat)                              -- matching close consumed: `advance_to(ptr)`
  | refill (st : SkipSt) (depth : Int) (ptr : Nat) -- `break 'refill`
  | ub
  | fuel
  deriving Repr

/-- the body of the 8-bytes-at-a-time loop of `skip_container`: `some d` = the whole chunk was
processed and the depth is now `d`; `none` = `break` (a quote or comment byte is present, or the
chunk would close the container). -/
def chunkStep (data : BitVec 64) (depth : Int) : Option Int :=
  let hasQuote := containsZeroByte (data ^^^ repeatByte 34)
  let hasComment := containsZeroByte (data ^^^ repeatByte 35)
  if hasQuote || hasComment then none
  else
    let hasClose := containsZeroByte (data ^^^ repeatByte 125)
    let closes : Int := if hasClose then ((countChunk data 125).toNat : Int) else 0
    let newDepth := depth - closes
    if newDepth < 1 then none
    else
      let hasOpen := containsZeroByte (data ^^^ repeatByte 123)
      let opens : Int := if hasOpen then ((countChunk data 123).toNat : Int) else 0
      some (newDepth + opens)

/-- the inner loops of `skip_container` on one window. One byte or one 8-byte chunk per step. -/
def skipScan (w : Bytes) : Nat → SkipSt → Int → Nat → SkipScan
  | 0, _, _, _ => .fuel
  | f + 1, .none, depth, ptr =>
    -- `while end.offset_from(ptr) > 8 { … }`: `some (some d)` = chunk taken, `some none` = fall to the byte step
    let chunk : Option (Option Int) :=
      if w.length - ptr > 8 then (read64 w ptr).map (fun data => chunkStep data depth) else some none
    match chunk with
    | none => .ub
    | some (some d) => skipScan w f .none d (ptr + 8)
    | some none =>
      if ptr == w.length then .refill .none depth ptr
      else
        match w[ptr]? with
        | none => .ub
        | some val =>
          let ptr := ptr + 1
          if val == 123 then skipScan w f .none (depth + 1) ptr
          else if val == 125 then
            if depth - 1 == 0 then .done ptr else skipScan w f .none (depth - 1) ptr
          else if val == 34 then skipScan w f .quote depth ptr
          else if val == 35 then skipScan w f .comment depth ptr
          else skipScan w f .none depth ptr
  | f + 1, .quote, depth, ptr =>
    if ptr == w.length then .refill .quote depth ptr
    else
      match w[ptr]? with
      | none => .ub
      | some c =>
        if c == 92 then
          if w.length - ptr ≤ 2 then .refill .quote depth ptr
          else skipScan w f .quote depth (ptr + 2)
        else if c != 34 then skipScan w f .quote depth (ptr + 1)
        else skipScan w f .none depth (ptr + 1)
  | f + 1, .comment, depth, ptr =>
    if ptr == w.length then .refill .comment depth ptr
    else
      match w[ptr]? with
      | none => .ub
      | some c =>
        if c == 10 then skipScan w f .none depth (ptr + 1)
        else skipScan w f .comment depth (ptr + 1)

/-- the outer loop of `skip_container` (refill with state kept). -/
def skipLoop : Nat → Reader → SkipSt → Int → Nat → Res Unit
  | 0, _, _, _, _ => .fuel
  | f + 1, r, st, depth, ptr =>
    match skipScan r.win (r.win.length + 2) st depth ptr with
    | .done p =>
      match advance r p with
      | some r' => .ok r' ()
      | none => .panic
    | .refill st' depth' p =>
      match advance r p with
      | none => .panic
      | some r0 =>
        match fillBuf r0 with
        | (r1, .ok 0) => .err r1 .eof
        | (r1, .ok _) => skipLoop f r1 st' depth' 0
        | (r1, .full) => .err r1 .full
        | (r1, .io) => .err r1 .io
    | .ub => .ub
    | .fuel => .fuel

/-- `TokenReader::skip_container` -/
def skipContainer (fuel : Nat) (r : Reader) : Res Unit := skipLoop fuel r .none 1 0

/-! ## skip_unquoted_value -/

inductive SkipU | open_ (ptr : Nat) | stop | windowEnd
  deriving Repr

/-- `while ptr < end { match *ptr … }` of `skip_unquoted_value`; the list starts at offset `i`. -/
def skipUScan : Bytes → Nat → SkipU
  | [], _ => .windowEnd
  | c :: rest, i =>
    if c == 123 then .open_ i
    else if isBlank c then skipUScan rest (i + 1)
    else .stop

/-- `TokenReader::skip_unquoted_value` -/
def skipUnquotedValue : Nat → Reader → Res Unit
  | 0, _ => .fuel
  | f + 1, r =>
    let w := r.win
    -- `word == 0x0909090A` : the bytes `\n\t\t\t`
    let ptr : Nat :=
      match w with
      | b0 :: b1 :: b2 :: b3 :: _ => if b0 == 10 && b1 == 9 && b2 == 9 && b3 == 9 then 4 else 0
      | _ => 0
    match skipUScan (w.drop ptr) ptr with
    | .open_ p =>
      match advance r (p + 1) with
      | some r' => skipContainer (f + 1) r'
      | none => .panic
    | .stop => .ok r ()
    | .windowEnd =>
      match advance r w.length with
      | none => .panic
      | some r0 =>
        match fillBuf r0 with
        | (r1, .ok 0) => .ok r1 ()
        | (r1, .ok _) => skipUnquotedValue f r1
        | (r1, .full) => .err r1 .full
        | (r1, .io) => .err r1 .io

/-! ## whole-stream drivers (what `tlex` / `tstream` evaluate) -/

inductive Outcome | end_ | err (e : Err) | panic | ub | fuel
  deriving DecidableEq, Repr

structure Run where
  toks : List Token
  out : Outcome
  final : Reader
  deriving Repr

/-- call `next` until it stops returning tokens. `n` bounds the number of calls, `fuel` each call. -/
def lexAll (fuel : Nat) : Nat → Reader → List Token → Run
  | 0, r, acc => { toks := acc.reverse, out := .fuel, final := r }
  | n + 1, r, acc =>
    match next fuel r with
    | .ok r' (some t) => lexAll fuel n r' (t :: acc)
    | .ok r' none => { toks := acc.reverse, out := .end_, final := r' }
    | .err r' e => { toks := acc.reverse, out := .err e, final := r' }
    | .panic => { toks := acc.reverse, out := .panic, final := r }
    | .ub => { toks := acc.reverse, out := .ub, final := r }
    | .fuel => { toks := acc.reverse, out := .fuel, final := r }

/-- enough fuel for any run over `data` (each refill either ends the call or delivers a byte). -/
def fuelFor (data : Bytes) : Nat := 2 * data.length + 16

/-- the zero-copy from-slice reader over the whole input -/
def sliceTokens (data : Bytes) : Run :=
  lexAll (fuelFor data) (fuelFor data) (fromSlice data) []

/-- the streaming reader under a schedule and a buffer capacity -/
def streamTokens (cap : Nat) (sched : List Step) (data : Bytes) : Run :=
  lexAll (fuelFor data + 2 * sched.length) (fuelFor data) (fromReader cap sched data) []

end Jomini.TextReader
