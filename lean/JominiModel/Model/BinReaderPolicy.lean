import JominiModel.Model.BinLexer
import JominiModel.Model.BinReader
import JominiModel.Spec.BinSkip
/-
Policy-parametric abstract model of the streaming binary reader.

The concrete `Buf` of `Model/Buffer.lean` fixes one compaction policy (every `fill_buf` moves the
window to the front of the allocation and asks the `Read` for all the free room).  Nothing the
properties say depends on that choice.  Here the buffer is abstracted to what the reader can
observe — the window *contents*, the position, the capacity — plus a private state of a
`Policy` that decides, at each fill, how many bytes to request (equivalently: whether it
compacts first).  Core Lean only.
-/
namespace Jomini.BinReader
open Jomini Jomini.BinLexer

/-- a buffer-management policy -/
structure Policy where
  /-- private layout state (e.g. the offset of the window inside the allocation) -/
  St : Type
  init : Nat → St
  /-- capacity, state, window length ↦ bytes requested from the `Read` at this fill -/
  req : Nat → St → Nat → Nat
  /-- capacity, state, window length, bytes that arrived (0 when the read failed) ↦ next state -/
  onFill : Nat → St → Nat → Nat → St
  /-- capacity, state, window length, bytes consumed ↦ next state -/
  onAdvance : Nat → St → Nat → Nat → St
  /-- the policy's own invariant, relative to the window length -/
  Inv : Nat → St → Nat → Prop

/-- the contract a policy has to meet for capacity `cap`.  (That the window's bytes are preserved
is built into the abstract reader below: a fill *appends* to the window; a concrete
implementation has to show that its memory operations realise that, e.g. `C08_Buffer_refines`.) -/
structure Policy.Contract (P : Policy) (cap : Nat) : Prop where
  init : P.Inv cap (P.init cap) 0
  /-- whenever the window is shorter than the capacity, room is found and at least one byte is
  requested, and the request fits behind the window -/
  room : ∀ st w, P.Inv cap st w → w < cap → 1 ≤ P.req cap st w ∧ w + P.req cap st w ≤ cap
  fill : ∀ st w r, P.Inv cap st w → w < cap → r ≤ P.req cap st w → P.Inv cap (P.onFill cap st w r) (w + r)
  advance : ∀ st w amt, P.Inv cap st w → amt ≤ w → P.Inv cap (P.onAdvance cap st w amt) (w - amt)

/-- buffer.rs as it is: compact at every fill, ask for all the free room -/
def eagerPolicy : Policy where
  St := Unit
  init := fun _ => ()
  req := fun cap _ w => cap - w
  onFill := fun _ _ _ _ => ()
  onAdvance := fun _ _ _ _ => ()
  Inv := fun cap _ w => w ≤ cap

/-- the lazy compaction of `seeded-harmless-r3/R2_buffer_lazy_compaction.diff`: the state is the
offset `consumed` of the window inside the allocation; new bytes are appended behind the window
while there is room, and the window moves to the front only when it is empty or touches the end
of the allocation. -/
def lazyPolicy : Policy where
  St := Nat
  init := fun _ => 0
  req := fun cap off w => if w = 0 ∨ off + w = cap then cap - w else cap - (off + w)
  onFill := fun cap off w _ => if w = 0 ∨ off + w = cap then 0 else off
  onAdvance := fun _ off _ amt => off + amt
  Inv := fun cap off w => off + w ≤ cap

/-- abstract reader state -/
structure AReader (P : Policy) where
  cap : Nat
  window : Bytes
  position : Nat
  src : Src
  st : P.St

namespace AReader
variable {P : Policy}

def new (P : Policy) (cap : Nat) (src : Src) : AReader P :=
  { cap := cap, window := [], position := 0, src := src, st := P.init cap }

/-- `fill_buf`, abstractly: `BufferFull` when the window fills the capacity, otherwise one `read`
of the size the policy asks for; the delivered bytes are appended to the window -/
def fill (a : AReader P) : Except BufErr Nat × AReader P :=
  if a.window.length ≥ a.cap then (.error .bufferFull, a)
  else
    match a.src.read (P.req a.cap a.st a.window.length) with
    | (.ok bytes, s') =>
      (.ok bytes.length,
       { a with window := a.window ++ bytes, src := s', st := P.onFill a.cap a.st a.window.length bytes.length })
    | (.err, s') => (.error .io, { a with src := s', st := P.onFill a.cap a.st a.window.length 0 })

/-- `TokenReader::next` over the abstract buffer (same control flow as `Reader.next`) -/
def next : Nat → AReader P → Except ReaderError (Option Token) × AReader P
  | 0, a => (.error { position := a.position, kind := .fuel }, a)
  | fuel + 1, a =>
    match readToken a.window with
    | .ok (tok, rest) =>
      let amt := a.window.length - rest.length
      (.ok (some tok),
       { a with window := rest, position := a.position + amt, st := P.onAdvance a.cap a.st a.window.length amt })
    | .error .eof =>
      match a.fill with
      | (.ok n, a') =>
        if n = 0 then
          if a'.window.length = 0 then (.ok none, a') else (.error { position := a'.position, kind := .lexer .eof }, a')
        else next fuel a'
      | (.error e, a') =>
        (.error { position := a'.position, kind := match e with | .io => .read | .bufferFull => .bufferFull }, a')
    | .error e => (.error { position := a.position, kind := .lexer e }, a)

def fuelFor (a : AReader P) : Nat := a.src.rest.length + 2

/-- `while let Some(t) = reader.next()?` -/
def streamLoop : Nat → AReader P → List Token × StreamEnd × AReader P
  | 0, a => ([], .err .fuel, a)
  | fuel + 1, a =>
    match next a.fuelFor a with
    | (.ok (some t), a') =>
      let (ts, e, r) := streamLoop fuel a'
      (t :: ts, e, r)
    | (.ok none, a') => ([], .done, a')
    | (.error e, a') => ([], .err e.kind, a')

def streamFuel (a : AReader P) : Nat := (a.window.length + a.src.rest.length) / 2 + 2
def streamAll (a : AReader P) : List Token × StreamEnd × AReader P := streamLoop (streamFuel a) a

/-- `n` successive `next` calls, whatever they return -/
def calls : Nat → AReader P → List Call × AReader P
  | 0, a => ([], a)
  | n + 1, a =>
    let (c, a') : Call × AReader P := match next a.fuelFor a with
      | (.ok (some t), a') => (.tok t, a')
      | (.ok none, a') => (.done, a')
      | (.error e, a') => (.err e.kind, a')
    let (cs, r) := calls n a'
    (c :: cs, r)

/-- `advance_to(rest)` for a suffix `rest` of the window -/
def advanceTo (a : AReader P) (rest : Bytes) : AReader P :=
  let amt := a.window.length - rest.length
  { a with window := rest, position := a.position + amt, st := P.onAdvance a.cap a.st a.window.length amt }

/-- result of the inner `while let Ok(..) = read_id(window)` loop of `skip_container` -/
inductive ScanRes (P : Policy)
  | returned (a : AReader P)
  | refill (a : AReader P) (depth : Nat)

/-- the inner loop of `skip_container` (reader.rs:126-157) in terms of the lexeme at the head of the
window (`Spec/BinSkip.lexeme`; the concrete `Reader.skipScan` is this loop, `scan_step`) -/
def skipScan : Nat → AReader P → Nat → ScanRes P
  | 0, a, depth => .refill a depth
  | fuel + 1, a, depth =>
    match lexeme a.window with
    | none => .refill a depth
    | some (id, rest) =>
      if id = CLOSE ∧ depth - 1 = 0 then .returned (a.advanceTo rest)
      else skipScan fuel (a.advanceTo rest) (depthAfter id depth)

/-- `skip_container`'s outer loop -/
def skipLoop : Nat → AReader P → Nat → Except ReaderError Unit × AReader P
  | 0, a, _ => (.error { position := a.position, kind := .fuel }, a)
  | fuel + 1, a, depth =>
    match skipScan (a.window.length / 2 + 1) a depth with
    | .returned a' => (.ok (), a')
    | .refill a1 depth1 =>
      match a1.fill with
      | (.ok n, a') =>
        if n = 0 then (.error { position := a'.position, kind := .lexer .eof }, a') else skipLoop fuel a' depth1
      | (.error e, a') =>
        (.error { position := a'.position, kind := match e with | .io => .read | .bufferFull => .bufferFull }, a')

def skipContainer (a : AReader P) : Except ReaderError Unit × AReader P := skipLoop a.fuelFor a 1

end AReader
end Jomini.BinReader
