import JominiModel.Model.Src
/-
Model of `src/buffer.rs` (`BufferWindow`), concretely: the memory the `start`/`end`
pointers range over, the two offsets, `prior_reads`.

* builder mode: `mem` is the boxed buffer `buf` (`cap = mem.length = buf.len()`),
  `start_buf = buf.as_ptr()`;
* slice mode (`from_slice`): `buf` is empty (`cap = 0`), `mem` is the borrowed slice,
  `start_buf = data.as_ptr()`.
`start`/`end_` are offsets from `start_buf`, so `consumed_data() = start`.
-/
namespace Jomini

/-- buffer.rs:20 `BufferError` -/
inductive BufErr
  | io
  | bufferFull
  deriving DecidableEq, Repr, Inhabited

structure Buf where
  mem : Bytes
  cap : Nat          -- `self.buf.len()`
  start : Nat
  end_ : Nat
  priorReads : Nat
  deriving Repr, Inhabited

namespace Buf

/-- buffer.rs:27 `from_slice` -/
def fromSlice (data : Bytes) : Buf :=
  { mem := data, cap := 0, start := 0, end_ := data.length, priorReads := 0 }

/-- buffer.rs:147 `BufferWindowBuilder::build` with a fresh or a supplied buffer -/
def build (buffer : Bytes) : Buf :=
  { mem := buffer, cap := buffer.length, start := 0, end_ := 0, priorReads := 0 }

/-- `vec![0; init_len]` -/
def ofLen (n : Nat) : Buf := build (List.replicate n 0)

/-- buffer.rs:56 -/
def windowLen (b : Buf) : Nat := b.end_ - b.start

/-- buffer.rs:51 -/
def window (b : Buf) : Bytes := (b.mem.drop b.start).take b.windowLen

/-- buffer.rs:66 -/
def consumedData (b : Buf) : Nat := b.start

/-- buffer.rs:61 -/
def position (b : Buf) : Nat := b.priorReads + b.consumedData

/-- buffer.rs:44 `advance` / :38 `advance_to` (the pointer is `start + amt`).  Moving past
`end` is undefined behaviour in a production build and trips the `debug_assert!` in the
harness build: `none`. -/
def advance (b : Buf) (amt : Nat) : Option Buf :=
  if b.start + amt ≤ b.end_ then some { b with start := b.start + amt } else none

/-- `self.buf.copy_within(consumed.., 0)` -/
def copyWithin (mem : Bytes) (from_ : Nat) : Bytes :=
  mem.drop from_ ++ mem.drop (mem.length - from_)

/-- write `bytes` at offset `at_` (what `reader.read(&mut buf[at_..])` does to the buffer) -/
def writeAt (mem : Bytes) (at_ : Nat) (bytes : Bytes) : Bytes :=
  mem.take at_ ++ bytes ++ mem.drop (at_ + bytes.length)

/-- buffer.rs:84 `fill_buf`: result, buffer afterwards, source afterwards. -/
def fillBuf (b : Buf) (src : Src) : Except BufErr Nat × Buf × Src :=
  let carryOver := b.windowLen
  if b.cap = 0 then
    -- reading from a slice: all the data is already in the window
    (.ok 0, b, src)
  else if carryOver ≥ b.cap then
    (.error .bufferFull, b, src)
  else
    let mem1 := if carryOver ≠ 0 then copyWithin b.mem b.consumedData else b.mem
    let b1 : Buf := { b with mem := mem1, priorReads := b.priorReads + b.consumedData, start := 0, end_ := carryOver }
    match src.read (b.cap - carryOver) with
    | (.ok bytes, src') =>
      (.ok bytes.length, { b1 with mem := writeAt mem1 carryOver bytes, end_ := carryOver + bytes.length }, src')
    | (.err, src') => (.error .io, b1, src')

end Buf
end Jomini
