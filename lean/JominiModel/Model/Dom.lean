import JominiModel.Model.Basic
/-
Model of /repo/src/text/dom.rs:18-80 (`next_idx_header`, `next_idx`, `next_idx_values`,
`fields_len`, `values_len`), 312-379 (`FieldGroupsIter`), 423-524 (`FieldsIter`),
526-616 (`ObjectReader`), 731-815 (`ValueReader::{read_object, read_array, tokens_len}`),
840-938 (`ValuesIter`, `ArrayReader`).

Readers are index pairs `(start_ind, end_ind)` into the token tape; iterators are their
`token_ind`.  Every `tokens[i]` of the Rust is a checked access: a miss is the outcome
`Out.panic` (Rust: index-out-of-bounds panic).  Loops carry explicit fuel; running out of
fuel is the separate outcome `Out.fuel` (Rust: the loop would not have terminated within
`tokens.len() + 1` iterations).  `usize` subtraction that would underflow is `Out.panic`
(the harness builds with overflow checks; a release build would wrap).

The FNV `HashMap<&[u8], Vec<(op, value)>>` of `FieldGroupsIter` is an association list
keyed by the raw key bytes (hashing and bucket order are unobservable: the map is only
probed by key).
-/
namespace Jomini.Dom
open Jomini

/-- text/operator.rs `Operator` -/
inductive Op where
  | lt | le | gt | ge | ne | exact | eq | exists_
  deriving DecidableEq, Repr

/-- text/tape.rs:10 `TextToken` (scalars carry their raw bytes) -/
inductive TTok where
  | array (end_ : Nat) (mixed : Bool)
  | object (end_ : Nat) (mixed : Bool)
  | mixedContainer
  | unquoted (b : Bytes)
  | quoted (b : Bytes)
  | parameter (b : Bytes)
  | undefinedParameter (b : Bytes)
  | operator (op : Op)
  | end_ (idx : Nat)
  | header (b : Bytes)
  deriving DecidableEq, Repr

abbrev Tape := Array TTok

/-- outcome of a modelled call: value, Rust panic, or loop fuel exhausted -/
inductive Out (α : Type) where
  | ok (a : α)
  | panic
  | fuel
  deriving DecidableEq, Repr

/-- the loop fuel every top-level function uses: one more than the number of tokens -/
def fuelOf (t : Tape) : Nat := t.size + 1

/-- the `end` of a container token -/
def TTok.containerEnd? : TTok → Option Nat
  | .array e _ => some e
  | .object e _ => some e
  | _ => none

/-- the scalar of a token that `FieldsIter::next` accepts as a key (dom.rs:484-488) -/
def TTok.keyScalar? : TTok → Option Bytes
  | .quoted b => some b
  | .unquoted b => some b
  | .parameter b => some b
  | .undefinedParameter b => some b
  | _ => none

/-- dom.rs:21 `next_idx_header` on the token found at `idx` -/
def nextIdxHeaderTok (idx : Nat) : TTok → Nat
  | .array e _ => e + 1
  | .object e _ => e + 1
  | .operator _ => idx + 2
  | .mixedContainer => idx + 2
  | _ => idx + 1

/-- dom.rs:21 `next_idx_header` -/
def nextIdxHeader (t : Tape) (idx : Nat) : Out Nat :=
  match t[idx]? with
  | none => .panic
  | some tok => .ok (nextIdxHeaderTok idx tok)

/-- dom.rs:32 `next_idx` (recursive through operators; fuel bounds the recursion) -/
def nextIdxF : Nat → Tape → Nat → Out Nat
  | 0, _, _ => .fuel
  | f + 1, t, idx =>
    match t[idx]? with
    | none => .panic
    | some (.array e _) => .ok (e + 1)
    | some (.object e _) => .ok (e + 1)
    | some (.operator _) => nextIdxF f t (idx + 1)
    | some (.header _) => nextIdxHeader t (idx + 1)
    | some .mixedContainer => .ok (idx + 1)
    | some (.unquoted _) => .ok (idx + 1)
    | some (.quoted _) => .ok (idx + 1)
    | some (.parameter _) => .ok (idx + 1)
    | some (.undefinedParameter _) => .ok (idx + 1)
    | some (.end_ _) => .ok (idx + 1)

def nextIdx (t : Tape) (idx : Nat) : Out Nat := nextIdxF (fuelOf t) t idx

/-- dom.rs:42 `next_idx_values` on the token found at `idx` -/
def nextIdxValuesTok (idx : Nat) : TTok → Nat
  | .array e _ => e + 1
  | .object e _ => e + 1
  | _ => idx + 1

/-- dom.rs:42 `next_idx_values` -/
def nextIdxValues (t : Tape) (idx : Nat) : Out Nat :=
  match t[idx]? with
  | none => .panic
  | some tok => .ok (nextIdxValuesTok idx tok)

/-- dom.rs:59-62 / 506-509: operator and value index after the key at `keyInd`, from the token
at `keyInd + 1` -/
def opValueOf (keyInd : Nat) : TTok → Option Op × Nat
  | .operator o => (some o, keyInd + 2)
  | _ => (none, keyInd + 1)

/-- dom.rs:50 `fields_len` (the `while` loop with its `count` accumulator) -/
def fieldsLenF : Nat → Tape → Nat → Nat → Nat → Out Nat
  | 0, _, _, _, _ => .fuel
  | f + 1, t, ind, e, count =>
    if ind < e then
      match t[ind]? with
      | none => .panic
      | some k =>
        if k = .mixedContainer then .ok count
        else
          match t[ind + 1]? with
          | none => .panic
          | some nx =>
            match nextIdx t (opValueOf ind nx).2 with
            | .ok n => fieldsLenF f t n e (count + 1)
            | .panic => .panic
            | .fuel => .fuel
    else .ok count

def fieldsLen (t : Tape) (s e : Nat) : Out Nat := fieldsLenF (fuelOf t) t s e 0

/-- dom.rs:71 `values_len` -/
def valuesLenF : Nat → Tape → Nat → Nat → Nat → Out Nat
  | 0, _, _, _, _ => .fuel
  | f + 1, t, ind, e, count =>
    if ind < e then
      match nextIdxValues t ind with
      | .ok n => valuesLenF f t n e (count + 1)
      | .panic => .panic
      | .fuel => .fuel
    else .ok count

def valuesLen (t : Tape) (s e : Nat) : Out Nat := valuesLenF (fuelOf t) t s e 0

/-- one item of `FieldsIter`: the key token (index, token, raw bytes), the operator and the
`value_ind` of the `ValueReader` -/
structure Field where
  keyIdx : Nat
  key : TTok
  keyBytes : Bytes
  op : Option Op
  valueIdx : Nat
  deriving DecidableEq, Repr

/-- dom.rs:477 `FieldsIter::next` as a function of `token_ind`: `none` = the iterator is
finished, `some (item, token_ind')` otherwise.  The arm "key is not a scalar" returns `None`
as a release build does (`debug_assert!(false)` makes a debug build panic there; under
`WfObj` the arm is unreachable, `Proofs/Dom.lean`). -/
def fieldsNext (t : Tape) (tokenInd e : Nat) : Out (Option (Field × Nat)) :=
  if tokenInd ≥ e then .ok none
  else
    match t[tokenInd]? with
    | none => .panic
    | some tok =>
      match tok.keyScalar? with
      | none => .ok none
      | some kb =>
        match t[tokenInd + 1]? with
        | none => .panic
        | some nx =>
          match nextIdx t (opValueOf tokenInd nx).2 with
          | .ok n => .ok (some (⟨tokenInd, tok, kb, (opValueOf tokenInd nx).1, (opValueOf tokenInd nx).2⟩, n))
          | .panic => .panic
          | .fuel => .fuel

/-- drain `FieldsIter` from `token_ind`: the items and the final `token_ind` -/
def fieldsF : Nat → Tape → Nat → Nat → Out (List Field × Nat)
  | 0, _, _, _ => .fuel
  | f + 1, t, ind, e =>
    match fieldsNext t ind e with
    | .ok none => .ok ([], ind)
    | .ok (some (fld, n)) =>
      match fieldsF f t n e with
      | .ok (fs, q) => .ok (fld :: fs, q)
      | .panic => .panic
      | .fuel => .fuel
    | .panic => .panic
    | .fuel => .fuel

def fields (t : Tape) (s e : Nat) : Out (List Field × Nat) := fieldsF (fuelOf t) t s e

/-- dom.rs:520 `FieldsIter::size_hint` = `(fields_len(token_ind, end_ind), None)` -/
def fieldsSizeHint (t : Tape) (tokenInd e : Nat) : Out Nat := fieldsLen t tokenInd e

/-- dom.rs:445 `FieldsIter::remainder`: the `ArrayReader (start, end_ind)` (only `get`s: no panic) -/
def remainder (t : Tape) (tokenInd e : Nat) : Nat × Nat :=
  match t[tokenInd]? with
  | some .mixedContainer => (tokenInd + 1, e)
  | some (.end_ y) =>
    match t[y]? with
    | some (.array _ _) => (y + 1, e)
    | _ => (tokenInd, e)
  | some _ => (tokenInd, e)
  | none => (e, e)

/-- dom.rs:867 `ValuesIter::next`, drained: the `value_ind`s -/
def valuesF : Nat → Tape → Nat → Nat → Out (List Nat)
  | 0, _, _, _ => .fuel
  | f + 1, t, ind, e =>
    if ind < e then
      match nextIdxValues t ind with
      | .ok n =>
        match valuesF f t n e with
        | .ok vs => .ok (ind :: vs)
        | .panic => .panic
        | .fuel => .fuel
      | .panic => .panic
      | .fuel => .fuel
    else .ok []

def values (t : Tape) (s e : Nat) : Out (List Nat) := valuesF (fuelOf t) t s e

/-- dom.rs:881 `ValuesIter::size_hint` = `(len, Some(len))` with `len = values_len(token_ind, end_ind)` -/
def valuesSizeHint (t : Tape) (tokenInd e : Nat) : Out (Nat × Option Nat) :=
  match valuesLen t tokenInd e with
  | .ok n => .ok (n, some n)
  | .panic => .panic
  | .fuel => .fuel

/-- `tokens_len` of a reader (dom.rs:562, 935): `end_ind - start_ind` -/
def tokensLen (s e : Nat) : Out Nat := if s ≤ e then .ok (e - s) else .panic

/-- dom.rs:808 `ValueReader::tokens_len` -/
def valueTokensLen (t : Tape) (vi : Nat) : Out Nat :=
  match t[vi]? with
  | none => .panic
  | some tok =>
    match tok.containerEnd? with
    | some e => if vi + 1 ≤ e then .ok (e - vi - 1) else .panic
    | none => .ok 1

/-- dom.rs:540 `ObjectReader::new` -/
def rootReader (t : Tape) : Nat × Nat := (0, t.size)

/-- dom.rs:733 `read_object`: `none` = `Err(not an object)` -/
def readObject (t : Tape) (vi : Nat) : Out (Option (Nat × Nat)) :=
  match t[vi]? with
  | none => .panic
  | some (.object e _) => .ok (some (vi + 1, e))
  | some (.array e _) => .ok (some (e, e))
  | some _ => .ok none

/-- dom.rs:761 the `while tokens.get(start_ind) != Some(MixedContainer)` loop of `read_array` -/
def mixedStartF : Nat → Tape → Nat → Out Nat
  | 0, _, _ => .fuel
  | f + 1, t, start =>
    if t[start]? = some .mixedContainer then .ok start
    else
      match nextIdx t start with
      | .ok n => mixedStartF f t n
      | .panic => .panic
      | .fuel => .fuel

/-- dom.rs:757 `read_array`: `none` = `Err(not an array)` -/
def readArray (t : Tape) (vi : Nat) : Out (Option (Nat × Nat)) :=
  match t[vi]? with
  | none => .panic
  | some (.object e true) =>
    match mixedStartF (fuelOf t) t (vi + 1) with
    | .ok st => .ok (some (st + 1, e))
    | .panic => .panic
    | .fuel => .fuel
  | some (.object e false) => .ok (some (vi + 1, e))
  | some (.array e _) => .ok (some (vi + 1, e))
  | some (.header _) =>
    match nextIdx t (vi + 1) with
    | .ok n => .ok (some (vi, n))
    | .panic => .panic
    | .fuel => .fuel
  | some _ => .ok none

/-! ### `FieldGroupsIter` -/

abbrev OpValue := Option Op × Nat

def Field.ov (f : Field) : OpValue := (f.op, f.valueIdx)

/-- the `HashMap<&[u8], Vec<OpValue>>` as an association list -/
abbrev KeyMap := List (Bytes × List OpValue)

def KeyMap.lookup : KeyMap → Bytes → Option (List OpValue)
  | [], _ => none
  | (k', vs) :: rest, k => if k' = k then some vs else KeyMap.lookup rest k

/-- dom.rs:327-336: `entry(key)`: vacant → insert an empty vector (the first occurrence is *not*
stored), occupied → push `(op, val)` -/
def KeyMap.enter : KeyMap → Bytes → OpValue → KeyMap
  | [], k, _ => [(k, [])]
  | (k', vs) :: rest, k, ov =>
    if k' = k then (k', vs ++ [ov]) :: rest else (k', vs) :: KeyMap.enter rest k ov

/-- `HashMap::remove_entry`: the map without `k` -/
def KeyMap.erase (m : KeyMap) (k : Bytes) : KeyMap := m.filter (fun p => p.1 ≠ k)

/-- dom.rs:326 first pass of `FieldGroupsIter::new` -/
def buildMap : List Field → KeyMap → KeyMap
  | [], m => m
  | f :: fs, m => buildMap fs (m.enter f.keyBytes f.ov)

/-- dom.rs:154 `GroupEntry` -/
inductive GroupEntry where
  | one (ov : OpValue)
  | multiple (l : List OpValue)
  deriving DecidableEq, Repr

/-- `GroupEntry::values()` collected -/
def GroupEntry.toList : GroupEntry → List OpValue
  | .one ov => [ov]
  | .multiple l => l

/-- dom.rs:180 `GroupEntry::len` -/
def GroupEntry.len : GroupEntry → Nat
  | .one _ => 1
  | .multiple l => l.length

/-- dom.rs:359 `FieldGroupsIter::next`, drained over the items the inner `FieldsIter` yields -/
def groupsIter : List Field → KeyMap → List (Field × GroupEntry)
  | [], _ => []
  | f :: fs, m =>
    match m.lookup f.keyBytes with
    | some entries =>
      (f, if entries.isEmpty then .one f.ov else .multiple (f.ov :: entries)) :: groupsIter fs (m.erase f.keyBytes)
    | none => groupsIter fs m

/-- distinct keys of an association list built by `enter` (= `HashMap::len`) -/
def KeyMap.len (m : KeyMap) : Nat := m.length

/-- `reader.field_groups()` drained: the initial `size_hint().0` (= `key_indices.len()`), the
groups and the final `token_ind` of the inner `FieldsIter` (for `remainder`).  `fields()` is
run twice as `FieldGroupsIter::new` does. -/
def fieldGroups (t : Tape) (s e : Nat) : Out (Nat × List (Field × GroupEntry) × Nat) :=
  match fields t s e with
  | .ok (fs1, _) =>
    let m := buildMap fs1 []
    match fields t s e with
    | .ok (fs2, q) => .ok (m.len, groupsIter fs2 m, q)
    | .panic => .panic
    | .fuel => .fuel
  | .panic => .panic
  | .fuel => .fuel

/-! ### structural soundness of a tape (the hypothesis of the C17 theorems; C06's conclusion) -/

def TTok.isContainer : TTok → Bool
  | .array _ _ => true
  | .object _ _ => true
  | _ => false

/-- token `i`: a container's `end` points forward to an `End` pointing back, an `End` points
back to a container whose `end` is this index; nothing carries index 0; a header is followed by
its container -/
def linkOkAt (t : Tape) (i : Nat) (tok : TTok) : Bool :=
  match tok with
  | .array e _ => decide (i < e) && decide (0 < i) && (t[e]? == some (.end_ i))
  | .object e _ => decide (i < e) && decide (0 < i) && (t[e]? == some (.end_ i))
  | .end_ j =>
    decide (0 < j) && decide (j < i) &&
      (match t[j]? with
       | some tk => tk.containerEnd? == some i
       | none => false)
  | .header _ =>
    (match t[i + 1]? with
     | some tk => tk.isContainer
     | none => false)
  | _ => true

def linksOkF (t : Tape) : Nat → List TTok → Bool
  | _, [] => true
  | i, tok :: rest => linkOkAt t i tok && linksOkF t (i + 1) rest

def linksOk (t : Tape) : Bool := linksOkF t 0 t.toList

/-- proper nesting: one pass with the stack of open containers -/
def nestOkF : List TTok → Nat → List Nat → Bool
  | [], _, st => st.isEmpty
  | tok :: rest, i, st =>
    match tok with
    | .array _ _ => nestOkF rest (i + 1) (i :: st)
    | .object _ _ => nestOkF rest (i + 1) (i :: st)
    | .end_ j =>
      match st with
      | top :: st' => decide (top = j) && nestOkF rest (i + 1) st'
      | [] => false
    | _ => nestOkF rest (i + 1) st

def nestOk (t : Tape) : Bool := nestOkF t.toList 0 []

/-- the token after a value starting at `v` inside a range ending at `e`, when the value is one
well-linked subtree: a scalar, a container closed before `e`, or a header followed by such a
container -/
def valueNext (t : Tape) (v e : Nat) : Option Nat :=
  match t[v]? with
  | some (.unquoted _) => some (v + 1)
  | some (.quoted _) => some (v + 1)
  | some (.parameter _) => some (v + 1)
  | some (.undefinedParameter _) => some (v + 1)
  | some (.array e' _) => if v < e' ∧ e' < e then some (e' + 1) else none
  | some (.object e' _) => if v < e' ∧ e' < e then some (e' + 1) else none
  | some (.header _) =>
    match t[v + 1]? with
    | some (.array e' _) => if v + 1 < e' ∧ e' < e then some (e' + 1) else none
    | some (.object e' _) => if v + 1 < e' ∧ e' < e then some (e' + 1) else none
    | _ => none
  | _ => none

/-- `WfObj` as a walk: the range `[p, e)` is a sequence of `key [op] value` groups (keys are
scalar / parameter tokens, each value one well-linked subtree) that ends exactly at `e` or at a
`MixedContainer` token; the answer is where it ends. -/
def objWalkF : Nat → Tape → Nat → Nat → Option Nat
  | 0, _, _, _ => none
  | f + 1, t, p, e =>
    if p ≥ e then (if p = e then some p else none)
    else
      match t[p]? with
      | none => none
      | some k =>
        if k = .mixedContainer then some p
        else
          match k.keyScalar? with
          | none => none
          | some _ =>
            match t[p + 1]? with
            | none => none
            | some nx =>
              if (opValueOf p nx).2 < e then
                match valueNext t (opValueOf p nx).2 e with
                | some n => objWalkF f t n e
                | none => none
              else none

def objWalk (t : Tape) (s e : Nat) : Option Nat := objWalkF (fuelOf t) t s e

/-- every `Object` token's body is a regular field sequence; an object flagged `mixed` does
reach its `MixedContainer` token -/
def objectsOkF (t : Tape) : Nat → List TTok → Bool
  | _, [] => true
  | i, tok :: rest =>
    (match tok with
     | .object e mixed =>
       (match objWalk t (i + 1) e with
        | some q => !mixed || decide (q < e)
        | none => false)
     | _ => true) && objectsOkF t (i + 1) rest

/-- structural soundness of a text tape (decidable; evaluated by `jmdriver` on every tape the
real parser produced in the C17 check) -/
def wfTape (t : Tape) : Bool :=
  linksOk t && nestOk t && (objWalk t 0 t.size).isSome && objectsOkF t 0 t.toList

end Jomini.Dom
