import JominiModel.Model.Basic
import JominiModel.Model.Scalar
/-
Model of /repo/src/text/de.rs (both deserializer front ends) driven by the runtime type
descriptor `Ty` of harness/src/tyseed.rs (the serde protocol: which `deserialize_*` a target
type calls and which `visit_*` it accepts is the `Ty` interpreter, DESIGN.md §7).

* tape path  (de.rs:899-1691, dom.rs): `deTape enc ty toks`, `toks` = the real text tape.
* stream path (de.rs:156-718):         `deStream enc ty rtoks`, `rtoks` = the real reader tokens.

Results are `Val` (rendered by the driver exactly like tyseed.rs) or an error class
(`err_class` of tyseed.rs).  Rust panics (`tokens[i]` out of range, the `debug_assert!(false)` of
`FieldsIter::next`; the harness is built with debug assertions) are the outcome `DErr.panic`.

String decoding (encoding.rs) is modelled locally: trim trailing ASCII whitespace, delete
backslashes, then the Windows-1252 table / `String::from_utf8_lossy`.

Stream path precondition (checked by the harness on every case line): the byte-level
`skip_container` lands where token-level skipping lands, and no `==` token occurs
(`read_expect_equals` peeks a byte, finding `exact-operator-split`).
-/
namespace Jomini.TextDe
open Jomini

inductive Enc where | w1252 | utf8
  deriving DecidableEq, Repr

inductive Op where | eq | lt | le | gt | ge | ne | exact | exst
  deriving DecidableEq, Repr

/-- operator.rs `symbol` as bytes -/
def Op.symbol : Op → Bytes
  | .eq => [61] | .lt => [60] | .le => [60, 61] | .gt => [62] | .ge => [62, 61]
  | .ne => [33, 61] | .exact => [61, 61] | .exst => [63, 61]

/-- operator.rs `OperatorVisitor::visit_borrowed_str` -/
def Op.ofSymbol (s : Bytes) : Option Op :=
  if s = [60] then some .lt else if s = [60, 61] then some .le else if s = [62] then some .gt
  else if s = [62, 61] then some .ge else if s = [61, 61] then some .exact else if s = [61] then some .eq
  else if s = [33, 61] then some .ne else if s = [63, 61] then some .exst else none

/-- runtime type descriptor (tyseed.rs `Ty`); field / variant names are UTF-8 bytes -/
inductive Ty where
  | bool | i64 | u64 | i32 | u32 | i16 | u16 | i8 | u8 | f64 | f32 | str | any | ign
  | opt (t : Ty) | seq (t : Ty) | map (t : Ty) | prop (t : Ty)
  | st (fs : List (Bytes × Ty))
  | en (vs : List Bytes)
  /-- fixed-length tuple / array `(T, T, …)`, `[T; n]` (serde `deserialize_tuple`) -/
  | tup (ts : List Ty)
  deriving Repr

mutual
/-- nesting depth of a type: every recursive call of the interpreters descends one level -/
def Ty.height : Ty → Nat
  | .opt t | .seq t | .map t | .prop t => t.height + 1
  | .st fs => Ty.heightFs fs + 1
  | .tup ts => Ty.heightTs ts + 1
  | _ => 0
def Ty.heightFs : List (Bytes × Ty) → Nat
  | [] => 0
  | (_, t) :: r => max t.height (Ty.heightFs r)
def Ty.heightTs : List Ty → Nat
  | [] => 0
  | t :: r => max t.height (Ty.heightTs r)
end

/-- result values (tyseed.rs `Val` syntax) -/
inductive Val where
  | bool (b : Bool) | int (i : Int) | uint (n : Nat) | f64 (bits : Nat) | f32 (bits : Nat)
  | str (s : Bytes) | none | some (v : Val) | unit | ign
  | seq (vs : List Val)
  | map (kvs : List (Val × Val))
  | st (fs : List (Bytes × Val))
  | prop (op : Op) (v : Val)
  | en (name : Bytes)
  | tup (vs : List Val)
  deriving Repr

/-- error classes of tyseed.rs `err_class`, plus the panic outcome -/
inductive DErr where
  | missing (name : Bytes) | duplicate (name : Bytes) | type | other | panic
  deriving DecidableEq, Repr

abbrev R := Except DErr

/-! ### string decoding (encoding.rs) -/

/-- `u8::is_ascii_whitespace` -/
def isAsciiWs (b : UInt8) : Bool := b == 9 || b == 10 || b == 12 || b == 13 || b == 32

/-- encoding.rs:108 `trim_ascii_end` -/
def trimEnd (d : Bytes) : Bytes := (d.reverse.dropWhile isAsciiWs).reverse

/-- UTF-8 encoding of a code point below 0x10000 -/
def utf8Enc (cp : Nat) : Bytes :=
  if cp < 0x80 then [UInt8.ofNat cp]
  else if cp < 0x800 then [UInt8.ofNat (0xC0 + cp / 64), UInt8.ofNat (0x80 + cp % 64)]
  else [UInt8.ofNat (0xE0 + cp / 4096), UInt8.ofNat (0x80 + cp / 64 % 64), UInt8.ofNat (0x80 + cp % 64)]

/-- data.rs:1 `WINDOWS_1252` (code points) -/
def w1252Hi : List Nat :=
  [0x20ac, 0x81, 0x201a, 0x0192, 0x201e, 0x2026, 0x2020, 0x2021, 0x02c6, 0x2030, 0x0160, 0x2039, 0x0152, 0x8d, 0x017d, 0x8f,
   0x90, 0x2018, 0x2019, 0x201c, 0x201d, 0x2022, 0x2013, 0x2014, 0x02dc, 0x2122, 0x0161, 0x203a, 0x0153, 0x9d, 0x017e, 0x0178]

def w1252Cp (b : UInt8) : Nat :=
  if 128 ≤ b.toNat ∧ b.toNat < 160 then w1252Hi.getD (b.toNat - 128) 0 else b.toNat

/-- encoding.rs:124 `decode_windows1252` (the borrowed fast path yields the same bytes) -/
def decodeW (d : Bytes) : Bytes :=
  ((trimEnd d).filter (· != 92)).flatMap (fun b => utf8Enc (w1252Cp b))

def isCont (b : UInt8) : Bool := b.toNat / 64 == 2

def repl : Bytes := [0xEF, 0xBF, 0xBD]

/-- `String::from_utf8_lossy` after std's `Utf8Chunks` (each maximal invalid prefix of a
sequence becomes one U+FFFD).  Fuel = input length. -/
def lossy : Nat → Bytes → Bytes
  | 0, _ => []
  | _, [] => []
  | f + 1, b :: rest =>
    let n := b.toNat
    if n < 128 then b :: lossy f rest
    else if 0xC2 ≤ n ∧ n ≤ 0xDF then
      match rest with
      | c :: r => if isCont c then b :: c :: lossy f r else repl ++ lossy f rest
      | [] => repl
    else if 0xE0 ≤ n ∧ n ≤ 0xEF then
      match rest with
      | c :: r =>
        let c' := c.toNat
        let ok2 := (n == 0xE0 && 0xA0 ≤ c' && c' ≤ 0xBF) || (0xE1 ≤ n && n ≤ 0xEC && 0x80 ≤ c' && c' ≤ 0xBF)
          || (n == 0xED && 0x80 ≤ c' && c' ≤ 0x9F) || (0xEE ≤ n && n ≤ 0xEF && 0x80 ≤ c' && c' ≤ 0xBF)
        if ok2 then
          match r with
          | d :: r2 => if isCont d then b :: c :: d :: lossy f r2 else repl ++ lossy f r
          | [] => repl
        else repl ++ lossy f rest
      | [] => repl
    else if 0xF0 ≤ n ∧ n ≤ 0xF4 then
      match rest with
      | c :: r =>
        let c' := c.toNat
        let ok2 := (n == 0xF0 && 0x90 ≤ c' && c' ≤ 0xBF) || (0xF1 ≤ n && n ≤ 0xF3 && 0x80 ≤ c' && c' ≤ 0xBF)
          || (n == 0xF4 && 0x80 ≤ c' && c' ≤ 0x8F)
        if ok2 then
          match r with
          | d :: r2 =>
            if isCont d then
              match r2 with
              | e :: r3 => if isCont e then b :: c :: d :: e :: lossy f r3 else repl ++ lossy f r2
              | [] => repl
            else repl ++ lossy f r
          | [] => repl
        else repl ++ lossy f rest
      | [] => repl
    else repl ++ lossy f rest

/-- encoding.rs:158 `decode_utf8` (every branch yields the lossy decoding of the filtered bytes) -/
def decodeU (d : Bytes) : Bytes :=
  let x := (trimEnd d).filter (· != 92)
  lossy x.length x

def decode : Enc → Bytes → Bytes
  | .w1252, d => decodeW d
  | .utf8, d => decodeU d

/-- is the decoded `Cow` borrowed?  (observable: `OperatorVisitor` accepts only borrowed strings) -/
def isBorrowed : Enc → Bytes → Bool
  | .w1252, d => (trimEnd d).all (fun b => b.toNat < 128 && b != 92)
  | .utf8, d =>
    let t := trimEnd d
    t.all (· != 92) && (t.all (fun b => b.toNat < 128) || lossy t.length t == t)

/-! ### numeric leaves -/

def I64_MIN : Int := -(2^63 : Int)

/-- `f64 as f32` for a finite f64 bit pattern: exact round-to-nearest-even (Rust `as`). -/
def rneBits32 (num den : Nat) : Nat :=
  if num = 0 ∨ den = 0 then 0 else
  let e0 : Int := (Scalar.bitLen num : Int) - (Scalar.bitLen den : Int) - 24
  let scale (e : Int) : Nat × Nat × Nat :=
    if e ≥ 0 then
      let d' := den * 2 ^ e.toNat
      (num / d', num % d', d')
    else
      let n' := num * 2 ^ (-e).toNat
      (n' / den, n' % den, den)
  let (q0, _, _) := scale e0
  let e : Int := if q0 ≥ 2^24 then e0 + 1 else if q0 < 2^23 then e0 - 1 else e0
  let e : Int := if e < -149 then -149 else e
  let (q, r, d') := scale e
  let q := if 2 * r > d' then q + 1 else if 2 * r = d' then (if q % 2 = 1 then q + 1 else q) else q
  let (q, e) := if q ≥ 2^24 then (q / 2, e + 1) else (q, e)
  if q < 2^23 then q
  else
    let biased : Int := e + 150
    if biased ≥ 255 then 255 * 2^23
    else biased.toNat * 2^23 + (q - 2^23)

def f64ToF32 (bits : Nat) : Nat :=
  let sign := bits / 2^63
  let mag := bits % 2^63
  let be := mag / 2^52
  let m := mag % 2^52
  let r :=
    if be = 0 then rneBits32 m (2^1074)
    else if be ≥ 1075 then rneBits32 ((m + 2^52) * 2^(be - 1075)) 1
    else rneBits32 (m + 2^52) (2^(1075 - be))
  sign * 2^31 + r

/-- What a scalar leaf type does with the scalar bytes of a token: `some (ok v)` = typed visit
accepted, `some (error e)` = typed visit rejected by serde's range check, `none` = conversion
failed, the deserializer falls back to `deserialize_any`. (Same on both paths:
de.rs:309-396 and de.rs:1195-1316 followed by serde's primitive visitors.) -/
def leafConv : Ty → Bytes → Option (R Val)
  | .bool, s => match Scalar.toBool s with | .ok b => some (.ok (.bool b)) | .error _ => none
  | .i64, s => match Scalar.toI64 s with | .ok v => some (.ok (.int v)) | .error _ => none
  | .i32, s => match Scalar.toI64 s with
    | .ok v => some (if -(2^31 : Int) ≤ v ∧ v < 2^31 then .ok (.int v) else .error .type)
    | .error _ => none
  | .u64, s => match Scalar.toU64 s with | .ok v => some (.ok (.uint v)) | .error _ => none
  | .u32, s => match Scalar.toU64 s with
    | .ok v => some (if v < 2^32 then .ok (.uint v) else .error .type)
    | .error _ => none
  | .i16, s => match Scalar.toI64 s with
    | .ok v => some (if -(2^15 : Int) ≤ v ∧ v < 2^15 then .ok (.int v) else .error .type)
    | .error _ => none
  | .u16, s => match Scalar.toU64 s with
    | .ok v => some (if v < 2^16 then .ok (.uint v) else .error .type)
    | .error _ => none
  | .i8, s => match Scalar.toI64 s with
    | .ok v => some (if -(2^7 : Int) ≤ v ∧ v < 2^7 then .ok (.int v) else .error .type)
    | .error _ => none
  | .u8, s => match Scalar.toU64 s with
    | .ok v => some (if v < 2^8 then .ok (.uint v) else .error .type)
    | .error _ => none
  | .f64, s => match Scalar.toF64 s with | .ok v => some (.ok (.f64 v)) | .error _ => none
  | .f32, s => match Scalar.toF64 s with | .ok v => some (.ok (.f32 (f64ToF32 v))) | .error _ => none
  | _, _ => none

def Ty.isNumLeaf : Ty → Bool
  | .bool | .i64 | .u64 | .i32 | .u32 | .i16 | .u16 | .i8 | .u8 | .f64 | .f32 => true
  | _ => false

/-! ### struct bookkeeping (tyseed.rs `StructVisitor`) -/

def lookupIdx (name : Bytes) : List (Bytes × Ty) → Nat → Option (Nat × Ty)
  | [], _ => none
  | (n, t) :: rest, i => if n = name then some (i, t) else lookupIdx name rest (i + 1)

def seenGet (i : Nat) : List (Nat × Val) → Option Val
  | [] => none
  | (j, v) :: rest => if i = j then some v else seenGet i rest

/-- after the last key: missing `Option` fields are `none`, other missing fields an error;
declaration order -/
def structFinish : List (Bytes × Ty) → Nat → List (Nat × Val) → R (List (Bytes × Val))
  | [], _, _ => .ok []
  | (n, t) :: rest, i, seen =>
    match seenGet i seen with
    | some v => (structFinish rest (i + 1) seen).map (fun tl => (n, v) :: tl)
    | none =>
      match t with
      | .opt _ => (structFinish rest (i + 1) seen).map (fun tl => (n, Val.none) :: tl)
      | _ => .error (.missing n)

def remainderKey : Bytes := [114, 101, 109, 97, 105, 110, 100, 101, 114]
def operatorKey : Bytes := [111, 112, 101, 114, 97, 116, 111, 114]
def valueKey : Bytes := [118, 97, 108, 117, 101]

/-! ## tape path -/

inductive TTok where
  | arr (end_ : Nat) (mixed : Bool) | obj (end_ : Nat) (mixed : Bool) | mixedC
  | unq (s : Bytes) | quo (s : Bytes) | param (s : Bytes) | undef (s : Bytes)
  | op (o : Op) | end_ (i : Nat) | hdr (s : Bytes)
  deriving DecidableEq, Repr

/-- tape.rs:95 `TextToken::as_scalar` -/
def TTok.asScalar : TTok → Option Bytes
  | .hdr s | .unq s | .quo s | .param s | .undef s => some s
  | _ => none

/-- `tokens[i]` -/
def tokAt (toks : List TTok) (i : Nat) : R TTok :=
  match toks[i]? with
  | some t => .ok t
  | none => .error .panic

/-- dom.rs:21 `next_idx_header` -/
def nextIdxHeader (toks : List TTok) (idx : Nat) : R Nat :=
  match tokAt toks idx with
  | .error e => .error e
  | .ok (.arr e _) | .ok (.obj e _) => .ok (e + 1)
  | .ok (.op _) | .ok .mixedC => .ok (idx + 2)
  | .ok _ => .ok (idx + 1)

/-- dom.rs:32 `next_idx` (fuel: an operator run is shorter than the tape) -/
def nextIdx (toks : List TTok) : Nat → Nat → R Nat
  | 0, _ => .error .panic
  | f + 1, idx =>
    match tokAt toks idx with
    | .error e => .error e
    | .ok (.arr e _) | .ok (.obj e _) => .ok (e + 1)
    | .ok (.op _) => nextIdx toks f (idx + 1)
    | .ok (.hdr _) => nextIdxHeader toks (idx + 1)
    | .ok _ => .ok (idx + 1)

/-- dom.rs:42 `next_idx_values` -/
def nextIdxValues (toks : List TTok) (idx : Nat) : R Nat :=
  match tokAt toks idx with
  | .error e => .error e
  | .ok (.arr e _) | .ok (.obj e _) => .ok (e + 1)
  | .ok _ => .ok (idx + 1)

/-- de.rs:1052 `ValueKind` -/
inductive VK where
  | opval (op : Op) (idx : Nat) | value (idx : Nat) | scalar (s : Bytes) | array (s e : Nat)
  deriving Repr

/-- dom.rs:477 `FieldsIter::next`: key bytes, operator, value index, next token index -/
def fieldsNext (toks : List TTok) (ti e : Nat) : R (Option (Bytes × Option Op × Nat × Nat)) :=
  if ti ≥ e then .ok none else
  match tokAt toks ti with
  | .error x => .error x
  | .ok .mixedC => .ok none
  | .ok key =>
    match key with
    | .quo s | .unq s | .param s | .undef s =>
      match tokAt toks (ti + 1) with
      | .error x => .error x
      | .ok nxt =>
        let (op, vi) : Option Op × Nat := match nxt with | .op o => (some o, ti + 2) | _ => (none, ti + 1)
        match nextIdx toks (toks.length + 1) vi with
        | .error x => .error x
        | .ok ti' => .ok (some (s, op, vi, ti'))
    | _ => .error .panic -- debug_assert!(false, "All keys should be scalars")

/-- dom.rs:445 `FieldsIter::remainder` (start, end) -/
def remainderOf (toks : List TTok) (ti e : Nat) : Nat × Nat :=
  match toks[ti]? with
  | some .mixedC => (ti + 1, e)
  | some (.end_ y) =>
    (match toks[y]? with
     | some (.arr _ _) => (y + 1, e)
     | _ => (ti, e))
  | some _ => (ti, e)
  | none => (e, e)

/-- dom.rs:757 `ValueReader::read_array` -/
def readArray (toks : List TTok) (i : Nat) : R (Option (Nat × Nat)) :=
  match tokAt toks i with
  | .error x => .error x
  | .ok (.obj e true) =>
    -- skip fields until the MixedContainer marker
    let rec go : Nat → Nat → R Nat
      | 0, _ => .error .panic
      | f + 1, s =>
        if toks[s]? = some .mixedC then .ok s else
        match nextIdx toks (toks.length + 1) s with
        | .error x => .error x
        | .ok s' => go f s'
    match go (toks.length + 1) (i + 1) with
    | .error x => .error x
    | .ok s => .ok (some (s + 1, e))
  | .ok (.arr e _) | .ok (.obj e _) => .ok (some (i + 1, e))
  | .ok (.hdr _) =>
    match nextIdx toks (toks.length + 1) (i + 1) with
    | .error x => .error x
    | .ok e => .ok (some (i, e))
  | .ok _ => .ok none

/-- what `deserialize_any` / `deserialize_map` / `deserialize_seq` hand to the visitor -/
inductive TShape where
  | str (s : Bytes) (borrowed : Bool) | seq (s e : Nat) | map (s e : Nat)

inductive Mode where | any | map | seq

/-- de.rs:1124 `deserialize_any` (macro `deserialize_any_value`), :1318 `deserialize_map`,
:1331 `deserialize_seq` with their mutual fallbacks -/
def tShape (enc : Enc) (toks : List TTok) : Nat → Mode → VK → R TShape
  | 0, _, _ => .error .panic
  | f + 1, .map, vk =>
    match vk with
    | .opval _ i | .value i =>
      match tokAt toks i with
      | .error x => .error x
      | .ok (.obj e _) => .ok (.map (i + 1) e)
      | .ok (.arr e _) => .ok (.map e e)
      | .ok _ => tShape enc toks f .any vk
    | _ => tShape enc toks f .any vk
  | f + 1, .seq, vk =>
    match vk with
    | .array s e => .ok (.seq s e)
    | .opval _ i | .value i =>
      match readArray toks i with
      | .error x => .error x
      | .ok (some (s, e)) => .ok (.seq s e)
      | .ok none => tShape enc toks f .any vk
    | .scalar _ => tShape enc toks f .any vk
  | f + 1, .any, vk =>
    match vk with
    | .scalar s => .ok (.str (decode enc s) (isBorrowed enc s))
    | .array _ _ => tShape enc toks f .seq vk
    | .opval o i =>
      match tokAt toks i with
      | .error x => .error x
      | .ok (.quo s) | .ok (.unq s) => .ok (.str (decode enc s) (isBorrowed enc s))
      | .ok (.hdr _) =>
        (match toks[i + 1]? with
         | some (.obj _ _) => tShape enc toks f .map (.opval o (i + 1))
         | _ => tShape enc toks f .seq (.opval o (i + 1)))
      | .ok (.arr _ _) => tShape enc toks f .seq vk
      | .ok (.obj _ _) => tShape enc toks f .map vk
      | .ok _ => .error .other
    | .value i =>
      match tokAt toks i with
      | .error x => .error x
      | .ok (.quo s) | .ok (.unq s) => .ok (.str (decode enc s) (isBorrowed enc s))
      | .ok (.hdr _) =>
        (match toks[i + 1]? with
         | some (.obj _ _) => tShape enc toks f .map (.value (i + 1))
         | _ => tShape enc toks f .seq (.value (i + 1)))
      | .ok (.arr _ _) => tShape enc toks f .seq vk
      | .ok (.obj _ _) => tShape enc toks f .map vk
      | .ok _ => .error .other

def shapeFuel : Nat := 8

/-- de.rs:1085 `read_scalar` (`Err` = `none`) -/
def vkReadScalar (toks : List TTok) : VK → R (Option Bytes)
  | .scalar s => .ok (some s)
  | .opval _ i | .value i =>
    match tokAt toks i with
    | .error x => .error x
    | .ok t => .ok t.asScalar
  | .array _ _ => .ok none

/-- dom.rs:691 `raw_str` via `Reader::read_str` / `read_string`: (decoded, borrowed) -/
def vkReadStr (enc : Enc) (toks : List TTok) : VK → R (Option (Bytes × Bool))
  | .scalar s => .ok (some (decode enc s, isBorrowed enc s))
  | .opval _ i | .value i =>
    match tokAt toks i with
    | .error x => .error x
    | .ok (.op o) => .ok (some (o.symbol, true))
    | .ok t => .ok (t.asScalar.map (fun s => (decode enc s, isBorrowed enc s)))
  | .array _ _ => .ok none

/-- scalar leaf types on the tape path: de.rs:1195-1316 then serde's primitive visitor
(which rejects whatever `deserialize_any` offers) -/
def tLeaf (enc : Enc) (toks : List TTok) (ty : Ty) (vk : VK) : R Val :=
  match vkReadScalar toks vk with
  | .error x => .error x
  | .ok so =>
    match so.bind (leafConv ty) with
    | some r => r
    | none =>
      match tShape enc toks shapeFuel .any vk with
      | .error x => .error x
      | .ok _ => .error .type

/-- `String::deserialize`: de.rs:1184 `deserialize_string` -/
def tStr (enc : Enc) (toks : List TTok) (vk : VK) : R Bytes :=
  match vkReadStr enc toks vk with
  | .error x => .error x
  | .ok (some (s, _)) => .ok s
  | .ok none =>
    match tShape enc toks shapeFuel .any vk with
    | .error x => .error x
    | .ok (.str s _) => .ok s
    | .ok _ => .error .type

/-- `Operator::deserialize`: `deserialize_str` with a visitor that accepts only borrowed strings -/
def tOperator (enc : Enc) (toks : List TTok) (vk : VK) : R Op :=
  let visit (s : Bytes) (borrowed : Bool) : R Op :=
    if borrowed then (match Op.ofSymbol s with | some o => .ok o | none => .error .other) else .error .type
  match vkReadStr enc toks vk with
  | .error x => .error x
  | .ok (some (s, b)) => visit s b
  | .ok none =>
    match tShape enc toks shapeFuel .any vk with
    | .error x => .error x
    | .ok (.str s b) => visit s b
    | .ok _ => .error .type

/-- key of a `MapAccess` entry: a field key or the synthetic "remainder" -/
inductive TKey where | key (s : Bytes) | remainder

def TKey.decoded (enc : Enc) : TKey → Bytes
  | .key s => decode enc s
  | .remainder => remainderKey

/-- de.rs:993 `MapAccess` driven to the end: `onEntry` is the visitor's reaction to a key with
the deserializer for its value. -/
def tMapFold {σ : Type} (toks : List TTok) (onEntry : σ → TKey → VK → R σ) :
    Nat → Nat → Nat → Bool → σ → R σ
  | 0, _, _, _, _ => .error .panic
  | f + 1, ti, e, atRem, st =>
    match fieldsNext toks ti e with
    | .error x => .error x
    | .ok (some (k, op, vi, ti')) =>
      (match onEntry st (.key k) (.opval (op.getD .eq) vi) with
       | .error x => .error x
       | .ok st' => tMapFold toks onEntry f ti' e atRem st')
    | .ok none =>
      let (rs, re) := remainderOf toks ti e
      if !atRem && rs < re then
        match onEntry st .remainder (.array rs re) with
        | .error x => .error x
        | .ok st' => tMapFold toks onEntry f ti e true st'
      else .ok st

/-- de.rs:1525 `SeqAccess` driven to the end -/
def tSeqFold (toks : List TTok) (onElem : VK → R Val) : Nat → Nat → Nat → R (List Val)
  | 0, _, _ => .error .panic
  | f + 1, s, e =>
    if s < e then
      match nextIdxValues toks s with
      | .error x => .error x
      | .ok s' =>
        match onElem (.value s) with
        | .error x => .error x
        | .ok v => (tSeqFold toks onElem f s' e).map (fun tl => v :: tl)
    else .ok []

/-- tyseed.rs `MapVisitor::visit_map` entry: key as `String`, value with the element type -/
def tMapEntry (enc : Enc) (deVal : VK → R Val) (acc : List (Val × Val)) (k : TKey) (vk : VK) : R (List (Val × Val)) :=
  (deVal vk).map (fun v => acc ++ [(Val.str (k.decoded enc), v)])

/-- tyseed.rs `AnyVisitor` on a `ValueDeserializer` -/
def tAny (enc : Enc) (toks : List TTok) : Nat → VK → R Val
  | 0, _ => .error .panic
  | f + 1, vk =>
    match tShape enc toks shapeFuel .any vk with
    | .error x => .error x
    | .ok (.str s _) => .ok (.str s)
    | .ok (.seq s e) => (tSeqFold toks (tAny enc toks f) (toks.length + 1) s e).map Val.seq
    | .ok (.map s e) =>
      (tMapFold toks (tMapEntry enc (tAny enc toks f)) (toks.length + 2) s e false []).map Val.map

/-- tyseed.rs `StructVisitor::visit_map` entry -/
def structEntry (fs : List (Bytes × Ty)) (name : Bytes) (deVal : Ty → R Val)
    (seen : List (Nat × Val)) : R (List (Nat × Val)) :=
  match lookupIdx name fs 0 with
  | some (i, t) =>
    if (seenGet i seen).isSome then .error (.duplicate name) else
    match deVal t with
    | .error x => .error x
    | .ok v => .ok (seen ++ [(i, v)])
  | none => .ok seen -- unknown field: the value is ignored

/-- tyseed.rs `StructVisitor::visit_seq` (positional) -/
def structSeq (toks : List TTok) (deElem : Ty → VK → R Val) : List (Bytes × Ty) → Nat → Nat → R (List (Bytes × Val))
  | [], _, _ => .ok []
  | (n, t) :: rest, s, e =>
    if s < e then
      match nextIdxValues toks s with
      | .error x => .error x
      | .ok s' =>
        match deElem t (.value s) with
        | .error x => .error x
        | .ok v => (structSeq toks deElem rest s' e).map (fun tl => (n, v) :: tl)
    else .error .other -- invalid_length

/-- tyseed.rs `TupleVisitor::visit_seq` on the tape `SeqAccess` (de.rs:1539): exactly `len` elements are asked
for, a missing one is `invalid_length`; whatever FOLLOWS the last asked element is never looked at -/
def tTupFold (toks : List TTok) (deElem : Ty → VK → R Val) : List Ty → Nat → Nat → R (List Val)
  | [], _, _ => .ok []
  | t :: rest, s, e =>
    if s < e then
      match nextIdxValues toks s with
      | .error x => .error x
      | .ok s' =>
        match deElem t (.value s) with
        | .error x => .error x
        | .ok v => (tTupFold toks deElem rest s' e).map (fun tl => v :: tl)
    else .error .other -- invalid_length

/-- tyseed.rs `PropVisitor::visit_map` over a general map: (operator, value) seen so far -/
def propEntry (enc : Enc) (toks : List TTok) (deVal : VK → R Val)
    (st : Option Op × Option Val) (k : TKey) (vk : VK) : R (Option Op × Option Val) :=
  let name := k.decoded enc
  if name = operatorKey then (tOperator enc toks vk).map (fun o => (some o, st.2))
  else if name = valueKey then (deVal vk).map (fun v => (st.1, some v))
  else .ok st

def propFinish (st : Option Op × Option Val) : R Val :=
  match st with
  | (none, _) => .error (.missing operatorKey)
  | (some _, none) => .error (.missing valueKey)
  | (some o, some v) => .ok (.prop o v)

/-- `TySeed(ty).deserialize(ValueDeserializer{kind})` -/
def tde (enc : Enc) (toks : List TTok) : Nat → Ty → VK → R Val
  | 0, _, _ => .error .panic
  | f + 1, ty, vk =>
    match ty with
    | .bool | .i64 | .u64 | .i32 | .u32 | .i16 | .u16 | .i8 | .u8 | .f64 | .f32 => tLeaf enc toks ty vk
    | .str => (tStr enc toks vk).map Val.str
    | .any => tAny enc toks (toks.length + 1) vk
    | .ign => .ok .ign
    | .opt t => (tde enc toks f t vk).map Val.some
    | .seq t =>
      (match tShape enc toks shapeFuel .seq vk with
       | .error x => .error x
       | .ok (.seq s e) => (tSeqFold toks (tde enc toks f t) (toks.length + 1) s e).map Val.seq
       | .ok _ => .error .type)
    | .map t =>
      (match tShape enc toks shapeFuel .map vk with
       | .error x => .error x
       | .ok (.map s e) =>
         (tMapFold toks (tMapEntry enc (tde enc toks f t)) (toks.length + 2) s e false []).map Val.map
       | .ok _ => .error .type)
    | .st fs =>
      (match tShape enc toks shapeFuel .map vk with
       | .error x => .error x
       | .ok (.map s e) =>
         (match tMapFold toks (fun seen k vk => structEntry fs (k.decoded enc) (fun t => tde enc toks f t vk) seen)
            (toks.length + 2) s e false [] with
          | .error x => .error x
          | .ok seen => (structFinish fs 0 seen).map Val.st)
       | .ok (.seq s e) => (structSeq toks (tde enc toks f) fs s e).map Val.st
       | .ok (.str _ _) => .error .type)
    | .prop t =>
      (match vk with
       | .opval o i => (tde enc toks f t (.value i)).map (Val.prop o)
       | _ =>
         match tShape enc toks shapeFuel .map vk with
         | .error x => .error x
         | .ok (.map s e) =>
           (match tMapFold toks (propEntry enc toks (tde enc toks f t)) (toks.length + 2) s e false (none, none) with
            | .error x => .error x
            | .ok st => propFinish st)
         | .ok (.seq s e) =>
           if s < e then
             match nextIdxValues toks s with
             | .error x => .error x
             | .ok s' =>
               match tOperator enc toks (.value s) with
               | .error x => .error x
               | .ok o =>
                 if s' < e then (tde enc toks f t (.value s')).map (Val.prop o)
                 else .error .other
           else .error .other
         | .ok (.str _ _) => .error .type)
    | .en vs =>
      (match vk with
       | .opval _ i | .value i =>
         (match readArray toks i with
          | .error x => .error x
          | .ok (some (s, e)) =>
            if s < e then
              match nextIdxValues toks s with
              | .error x => .error x
              | .ok s' =>
                match tStr enc toks (.value s) with
                | .error x => .error x
                | .ok name =>
                  -- unit_variant: `()` is read from the next element
                  if s' < e then (if vs.contains name then .ok (.en name) else .error .other)
                  else .error .other
            else .error .other
          | .ok none =>
            match tStr enc toks (.value i) with
            | .error x => .error x
            | .ok name => if vs.contains name then .ok (.en name) else .error .other)
       | _ => .error .other)
    | .tup ts =>
      -- de.rs:1373 `deserialize_tuple` = `deserialize_seq`
      (match tShape enc toks shapeFuel .seq vk with
       | .error x => .error x
       | .ok (.seq s e) => (tTupFold toks (tde enc toks f) ts s e).map Val.tup
       | .ok _ => .error .type)

/-- tape path from the root deserializer (de.rs:899): only maps / structs are supported -/
def deTape (enc : Enc) (ty : Ty) (toks : List TTok) : R Val :=
  let f := ty.height
  match ty with
  | .st fs =>
    (match tMapFold toks (fun seen k vk => structEntry fs (k.decoded enc) (fun t => tde enc toks f t vk) seen)
       (toks.length + 2) 0 toks.length false [] with
     | .error x => .error x
     | .ok seen => (structFinish fs 0 seen).map Val.st)
  | .map t =>
    (tMapFold toks (tMapEntry enc (tde enc toks f t)) (toks.length + 2) 0 toks.length false []).map Val.map
  | .prop t =>
    (match tMapFold toks (propEntry enc toks (tde enc toks f t)) (toks.length + 2) 0 toks.length false (none, none) with
     | .error x => .error x
     | .ok st => propFinish st)
  | _ => .error .other

/-! ## stream path -/

inductive RTok where
  | open_ | close | op (o : Op) | unq (s : Bytes) | quo (s : Bytes)
  | err -- the lexer failed here
  deriving DecidableEq, Repr

/-- reader.rs:36 `Token::as_scalar` -/
def RTok.asScalar : RTok → Option Bytes
  | .unq s | .quo s => some s
  | _ => none

/-- reader.rs:766 `read` -/
def rRead : List RTok → R (RTok × List RTok)
  | [] => .error .other
  | .err :: _ => .error .other
  | t :: r => .ok (t, r)

/-- reader.rs:798 `next` -/
def rNext : List RTok → R (Option RTok × List RTok)
  | [] => .ok (none, [])
  | .err :: _ => .error .other
  | t :: r => .ok (some t, r)

/-- reader.rs:556 `skip_container` at token level; the argument counts additional open containers -/
def rSkip : List RTok → Nat → R (List RTok)
  | [], _ => .error .other
  | .err :: _, _ => .error .other
  | .open_ :: r, d => rSkip r (d + 1)
  | .close :: r, 0 => .ok r
  | .close :: r, d + 1 => rSkip r d
  | _ :: r, d => rSkip r d

/-- scalar leaf types on the stream path: de.rs:309-396; the fallback `deserialize_any`
(de.rs:289) offers a sequence, a string, or fails on `Close` -/
def sLeaf (ty : Ty) (tok : RTok) : R Val :=
  match tok.asScalar.bind (leafConv ty) with
  | some r => r
  | none =>
    match tok with
    | .close => .error .other
    | _ => .error .type

/-- `String::deserialize`: de.rs:419 → :405 `deserialize_str` -/
def sStr (enc : Enc) (tok : RTok) : R Bytes :=
  match tok with
  | .unq s | .quo s => .ok (decode enc s)
  | .op o => .ok o.symbol
  | .open_ => .error .type
  | .close => .error .other
  | .err => .error .other

/-- de.rs:597 `TextReaderSeq` driven to the end -/
def sSeqFold (onElem : RTok → List RTok → R (Val × List RTok)) : Nat → List RTok → R (List Val × List RTok)
  | 0, _ => .error .panic
  | f + 1, toks =>
    match rRead toks with
    | .error x => .error x
    | .ok (.close, r) => .ok ([], r)
    | .ok (t, r) =>
      match onElem t r with
      | .error x => .error x
      | .ok (v, r') =>
        match sSeqFold onElem f r' with
        | .error x => .error x
        | .ok (tl, r'') => .ok (v :: tl, r'')

/-- tyseed.rs `TupleVisitor::visit_seq` on `TextReaderSeq` (de.rs:604): exactly `len` elements are asked for; the
closing brace in place of an element is `invalid_length` -/
def sTupFold (deElem : Ty → RTok → List RTok → R (Val × List RTok)) : List Ty → List RTok → R (List Val × List RTok)
  | [], toks => .ok ([], toks)
  | t :: rest, toks =>
    match rRead toks with
    | .error x => .error x
    | .ok (.close, _) => .error .other
    | .ok (tok, r) =>
      match deElem t tok r with
      | .error x => .error x
      | .ok (v, r') =>
        match sTupFold deElem rest r' with
        | .error x => .error x
        | .ok (tl, r'') => .ok (v :: tl, r'')

/-- de.rs:223 `TextReaderMap` driven to the end.  `onKey` = the visitor's reaction to the key
token (before the value is read), `onVal` = its reaction to the value token with its operator. -/
def sMapFold {σ κ : Type} (root : Bool) (onKey : σ → RTok → R κ)
    (onVal : σ → κ → RTok → Op → List RTok → R (σ × List RTok)) :
    Nat → List RTok → σ → R (σ × List RTok)
  | 0, _, _ => .error .panic
  | f + 1, toks, st =>
    match rNext toks with
    | .error x => .error x
    | .ok (some .close, r) => .ok (st, r)
    | .ok (some .open_, r) =>
      (match rSkip r 0 with
       | .error x => .error x
       | .ok r' => sMapFold root onKey onVal f r' st)
    | .ok (some k, r) =>
      (match onKey st k with
       | .error x => .error x
       | .ok kk =>
         -- read_expect_equals, then the value token when an operator was there
         match rRead r with
         | .error x => .error x
         | .ok (.op o, r1) =>
           (match rRead r1 with
            | .error x => .error x
            | .ok (t, r2) =>
              match onVal st kk t o r2 with
              | .error x => .error x
              | .ok (st', r3) => sMapFold root onKey onVal f r3 st')
         | .ok (t, r1) =>
           match onVal st kk t .eq r1 with
           | .error x => .error x
           | .ok (st', r3) => sMapFold root onKey onVal f r3 st')
    | .ok (none, r) => if root then .ok (st, r) else .error .other

/-- tyseed.rs `AnyVisitor` on a `TextReaderTokenDeserializer` (de.rs:289) -/
def sAny (enc : Enc) : Nat → RTok → List RTok → R (Val × List RTok)
  | 0, _, _ => .error .panic
  | f + 1, tok, toks =>
    match tok with
    | .open_ =>
      (match sSeqFold (sAny enc f) (toks.length + 1) toks with
       | .error x => .error x
       | .ok (vs, r) => .ok (.seq vs, r))
    | .close => .error .other
    | .op o => .ok (.str o.symbol, toks)
    | .unq s | .quo s => .ok (.str (decode enc s), toks)
    | .err => .error .other

/-- key of a struct as `FieldId` sees it (de.rs:561 → `deserialize_str`) -/
def sKeyName (enc : Enc) (k : RTok) : R Bytes := sStr enc k

abbrev SDe := Ty → RTok → Op → List RTok → R (Val × List RTok)

/-- struct key (`FieldId`): known field → its index and type (a second occurrence is an error
before the value is read), unknown → `none` -/
def sStructKey (enc : Enc) (fs : List (Bytes × Ty)) (seen : List (Nat × Val)) (k : RTok) : R (Option (Nat × Ty)) :=
  match sKeyName enc k with
  | .error x => .error x
  | .ok name =>
    match lookupIdx name fs 0 with
    | some (i, t) => if (seenGet i seen).isSome then .error (.duplicate name) else .ok (some (i, t))
    | none => .ok none

/-- struct value: known → deserialized with the field type; unknown → `IgnoredAny` -/
def sStructVal (de : SDe) (seen : List (Nat × Val)) (kk : Option (Nat × Ty)) (t' : RTok) (o : Op) (r : List RTok) :
    R (List (Nat × Val) × List RTok) :=
  match kk with
  | some (i, t) => (de t t' o r).map (fun (v, r') => (seen ++ [(i, v)], r'))
  | none => (de .ign t' o r).map (fun (_, r') => (seen, r'))

/-- map value (`MapVisitor`) -/
def sMapVal (de : SDe) (t : Ty) (acc : List (Val × Val)) (name : Bytes) (t' : RTok) (o : Op) (r : List RTok) :
    R (List (Val × Val) × List RTok) :=
  (de t t' o r).map (fun (v, r') => (acc ++ [(Val.str name, v)], r'))

/-- `TySeed(ty).deserialize(TextReaderTokenDeserializer{token, op})`, rest of the stream threaded -/
def sde (enc : Enc) : Nat → Ty → RTok → Op → List RTok → R (Val × List RTok)
  | 0, _, _, _, _ => .error .panic
  | f + 1, ty, tok, op, toks =>
    match ty with
    | .bool | .i64 | .u64 | .i32 | .u32 | .i16 | .u16 | .i8 | .u8 | .f64 | .f32 => (sLeaf ty tok).map (fun v => (v, toks))
    | .str => (sStr enc tok).map (fun s => (.str s, toks))
    | .any => sAny enc (toks.length + 2) tok toks
    | .ign =>
      (match tok with
       | .open_ => (rSkip toks 0).map (fun r => (.ign, r))
       | _ => .ok (.ign, toks))
    | .opt t => (sde enc f t tok op toks).map (fun (v, r) => (.some v, r))
    | .seq t =>
      -- de.rs:479: a sequence is read whatever the token was; `hit_end` holds when the visitor ran dry
      (match sSeqFold (fun t' r => sde enc f t t' .eq r) (toks.length + 1) toks with
       | .error x => .error x
       | .ok (vs, r) => .ok (.seq vs, r))
    | .map t =>
      (match tok with
       | .open_ =>
         (match sMapFold false (fun _ k => sKeyName enc k) (sMapVal (sde enc f) t) (toks.length + 1) toks [] with
          | .error x => .error x
          | .ok (kvs, r) => .ok (.map kvs, r))
       | .close => .error .other
       | _ => .error .type)
    | .st fs =>
      (match tok with
       | .open_ =>
         (match sMapFold false (sStructKey enc fs) (sStructVal (sde enc f)) (toks.length + 1) toks [] with
          | .error x => .error x
          | .ok (seen, r) => (structFinish fs 0 seen).map (fun v => (.st v, r)))
       | .close => .error .other
       | _ => .error .type)
    | .prop t => (sde enc f t tok .eq toks).map (fun (v, r) => (.prop op v, r))
    | .en vs =>
      (match sStr enc tok with
       | .error x => .error x
       | .ok name => if vs.contains name then .ok (.en name, toks) else .error .other)
    | .tup ts =>
      -- de.rs:524 `deserialize_tuple` = `deserialize_seq` (de.rs:493): the current token is not looked at; the
      -- visitor stops after `len` elements without having seen the end (`hit_end` false), so the NEXT token has
      -- to be the closing brace ("Expected sequence to be terminated with an end token")
      (match sTupFold (fun t tok r => sde enc f t tok .eq r) ts toks with
       | .error x => .error x
       | .ok (vs, r) =>
         match rRead r with
         | .error x => .error x
         | .ok (.close, r') => .ok (.tup vs, r')
         | .ok _ => .error .other)

/-- stream path from the root deserializer (de.rs:171) -/
def deStream (enc : Enc) (ty : Ty) (toks : List RTok) : R Val :=
  let f := ty.height
  match ty with
  | .st fs =>
    (match sMapFold true (sStructKey enc fs) (sStructVal (sde enc f)) (toks.length + 1) toks [] with
     | .error x => .error x
     | .ok (seen, _) => (structFinish fs 0 seen).map Val.st)
  | .map t =>
    (match sMapFold true (fun _ k => sKeyName enc k) (sMapVal (sde enc f) t) (toks.length + 1) toks [] with
     | .error x => .error x
     | .ok (kvs, _) => .ok (.map kvs))
  | .prop t =>
    -- tyseed.rs `PropVisitor::visit_map` over the root map; an "operator" key is read through
    -- `visit_str`, which `OperatorVisitor` does not accept
    (match sMapFold true (fun _ k => sKeyName enc k)
       (fun (st : Option Op × Option Val) name t' o r =>
         if name = operatorKey then
           (match t' with
            | .close => .error .other
            | _ => .error .type)
         else if name = valueKey then (sde enc f t t' o r).map (fun (v, r') => ((st.1, some v), r'))
         else (sde enc f .ign t' o r).map (fun (_, r') => (st, r')))
       (toks.length + 1) toks (none, none) with
     | .error x => .error x
     | .ok (st, _) => propFinish st)
  | _ => .error .other

end Jomini.TextDe
