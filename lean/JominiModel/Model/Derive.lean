import JominiModel.Model.Basic
/-
Model of the `Deserialize` implementation that `#[derive(JominiDeserialize)]` emits
(/repo/jomini_derive/src/lib.rs:260-601): the `__FieldVisitor` (`visit_str` / `visit_u16`),
the `visit_map` loop over the `(key, value)` pairs the `MapAccess` yields, and the field
extraction after the loop.

* A struct is a `Schema = List FieldSpec`.
* `Key` is the key *as delivered to `__FieldVisitor`* by the deserializer (which `visit_*` it
  calls is the deserializer's business, C02/C04): `str` = `visit_str`/`visit_borrowed_str`/
  `visit_string`, `u16` = `visit_u16`, `other` = any other `visit_*` (the generated visitor does
  not implement it: serde's default answers `invalid_type`).
* Values stay abstract (`V`); deserializing the value of a known field is the parameter
  `de : FieldSpec → V → Except ε R` (`next_value::<T>()?`, resp. the `deserialize_with`
  wrapper).  The value of an ignored key is consumed with `IgnoredAny`, which accepts anything.
-/
namespace Jomini.Derive
open Jomini

/-- `duplicated` wins over `take_last` when both attributes are present (lib.rs:341, 368) -/
inductive Kind where
  | plain | duplicated | takeLast
  deriving DecidableEq, Repr

/-- the `default` attribute: absent, `default`, `default = "path"` -/
inductive Dflt where
  | no | yes | path
  deriving DecidableEq, Repr

structure FieldSpec where
  name : String
  alias : Option String := none
  token : Option Nat := none
  kind : Kind := .plain
  dflt : Dflt := .no
  /-- some path segment of the type is `Option` (lib.rs:51-57) -/
  isOption : Bool := false
  deriving DecidableEq, Repr

abbrev Schema := List FieldSpec

/-- lib.rs:50 `can_default`: an `Option` type wins over the attribute (so `default = "f"` on an
`Option` field is ignored) -/
def canDefault (f : FieldSpec) : Dflt := if f.isOption then .yes else f.dflt

/-- lib.rs:445 the string a field answers to: the alias REPLACES the name -/
def matchName (f : FieldSpec) : String := f.alias.getD f.name

inductive Key where
  | str (s : String)
  | u16 (n : Nat)
  | other
  deriving DecidableEq, Repr

inductive Err (ε : Type) where
  | duplicate (name : String)
  | missing (name : String)
  /-- `__FieldVisitor` got a `visit_*` it does not implement -/
  | invalidType
  | value (e : ε)
  deriving DecidableEq, Repr

/-- index of the first element satisfying `p` (match arms are tried in declaration order) -/
def findIdx : List FieldSpec → (FieldSpec → Bool) → Option Nat
  | [], _ => none
  | f :: fs, p => if p f then some 0 else (findIdx fs p).map (· + 1)

/-- lib.rs:514-537 `__FieldVisitor`: `some (some i)` = `__Field::<field i>`, `some none` =
`__Field::__ignore`, `none` = a `visit_*` the visitor does not implement -/
def fieldIdx (schema : Schema) : Key → Option (Option Nat)
  | .str s => some (findIdx schema (fun f => matchName f == s))
  | .u16 n => some (findIdx schema (fun f => f.token == some n))
  | .other => none

/-- `next_key::<__Field>()?` -/
def fieldOf {ε : Type} (schema : Schema) (k : Key) : Except (Err ε) (Option Nat) :=
  match fieldIdx schema k with
  | some r => .ok r
  | none => .error .invalidType

/-- lib.rs:462-478: `deserialize_u16` is requested for keys iff some (then: every) field has a
`token` attribute, else `deserialize_identifier` -/
def requestsU16 (schema : Schema) : Bool := schema.any (fun f => f.token.isSome)

/-- builder variable of a field: `<name>_opt : Option<T>` or, for `duplicated`, the `Vec` itself -/
inductive Slot (R : Type) where
  | opt (v : Option R)
  | vec (l : List R)
  deriving DecidableEq, Repr

/-- lib.rs:321-330 `builder_init` -/
def initSlot {R : Type} (f : FieldSpec) : Slot R :=
  match f.kind with
  | .duplicated => .vec []
  | _ => .opt none

def initState {R : Type} (schema : Schema) : List (Slot R) := schema.map initSlot

/-- lib.rs:332-405 one match arm of `builder_fields`: field `f`, its slot, the pending value -/
def stepSlot {ε V R : Type} (de : FieldSpec → V → Except ε R) (f : FieldSpec) (slot : Slot R) (v : V) :
    Except (Err ε) (Slot R) :=
  match f.kind, slot with
  | .duplicated, .vec l =>
    match de f v with
    | .ok r => .ok (.vec (l ++ [r]))
    | .error e => .error (.value e)
  | .takeLast, .opt _ =>
    match de f v with
    | .ok r => .ok (.opt (some r))
    | .error e => .error (.value e)
  | .plain, .opt none =>
    match de f v with
    | .ok r => .ok (.opt (some r))
    | .error e => .error (.value e)
  | .plain, .opt (some _) => .error (.duplicate f.name)
  -- slot shapes that `initState` never produces
  | .duplicated, .opt o => .ok (.opt o)
  | .takeLast, .vec l => .ok (.vec l)
  | .plain, .vec l => .ok (.vec l)

/-- update slot `i` of the builder state -/
def stepAt {ε V R : Type} (de : FieldSpec → V → Except ε R) :
    Schema → List (Slot R) → Nat → V → Except (Err ε) (List (Slot R))
  | f :: _, s :: ss, 0, v =>
    match stepSlot de f s v with
    | .ok s' => .ok (s' :: ss)
    | .error e => .error e
  | _ :: fs, s :: ss, i + 1, v =>
    match stepAt de fs ss i v with
    | .ok ss' => .ok (s :: ss')
    | .error e => .error e
  | _, st, _, _ => .ok st

/-- lib.rs:573-578 the `while let Some(__key) = next_key()?` loop -/
def loop {ε V R : Type} (schema : Schema) (de : FieldSpec → V → Except ε R) :
    List (Key × V) → List (Slot R) → Except (Err ε) (List (Slot R))
  | [], st => .ok st
  | (k, v) :: rest, st =>
    match fieldOf schema k with
    | .error e => .error e
    | .ok none => loop schema de rest st
    | .ok (some i) =>
      match stepAt de schema st i v with
      | .ok st' => loop schema de rest st'
      | .error e => .error e

/-- value of a field of the finished struct -/
inductive FieldVal (R : Type) where
  | val (r : R)
  | vec (l : List R)
  /-- `unwrap_or_default()`: `Default::default()` (`None` for an `Option`) -/
  | dflt
  /-- `unwrap_or_else(path)` -/
  | dfltPath
  deriving DecidableEq, Repr

/-- lib.rs:407-427 `field_extract`, in declaration order (the first missing field without a
default is the one reported) -/
def extract {ε R : Type} : Schema → List (Slot R) → Except (Err ε) (List (FieldVal R))
  | f :: fs, s :: ss =>
    match s with
    | .vec l =>
      match extract fs ss with
      | .ok out => .ok (.vec l :: out)
      | .error e => .error e
    | .opt (some r) =>
      match extract fs ss with
      | .ok out => .ok (.val r :: out)
      | .error e => .error e
    | .opt none =>
      match canDefault f with
      | .yes =>
        match extract fs ss with
        | .ok out => .ok (.dflt :: out)
        | .error e => .error e
      | .path =>
        match extract fs ss with
        | .ok out => .ok (.dfltPath :: out)
        | .error e => .error e
      | .no => .error (.missing f.name)
  | _, _ => .ok []

/-- lib.rs:564-585 `visit_map` -/
def run {ε V R : Type} (schema : Schema) (de : FieldSpec → V → Except ε R) (pairs : List (Key × V)) :
    Except (Err ε) (List (FieldVal R)) :=
  match loop schema de pairs (initState schema) with
  | .ok st => extract schema st
  | .error e => .error e

end Jomini.Derive
