import JominiModel.Model.Basic
import JominiModel.Generated.Tables
/-
Model of /repo/src/text/writer.rs (`TextWriter`, the nine-state `WriteState` machine,
`write_preamble` / `write_epilogue` / `write_indent`, every public `write_*` call,
`escape`, `write_binary`, `write_tape`) and of the `Display` impl of
`common::PdsDateFormatter` (date.rs:73-108).

State = the machine fields of `TextWriter` plus the bytes written so far.  The sink is a
`Vec<u8>` (never fails), so the only error a public call can return is `StackEmpty`
(`write_end` with an empty depth stack).  Places where the Rust indexes / unwraps /
hits `unreachable!` are explicit `panic` outcomes.

`WRITE_STATE_NEXT` is not copied from the source: it is the measured table
`Jomini.Tables.writeStateNext` (harness `c15::tables()` drives the real `TextWriter`
through public calls into every reachable state, performs one value write and reads the
successor state).  `WRITE_STATE_NEXT[state as usize]` is the checked list access below.

Not modelled: `Display` for f32/f64 (float calls carry the text `std` produced, see
`Call.fmt`), I/O errors of the sink, the `scratch` buffer reuse of `write_quoted`.
-/
namespace Jomini.Writer
open Jomini

/-- writer.rs:46 -/
inductive DepthMode where
  | object | array
  deriving DecidableEq, Repr

/-- writer.rs:52 -/
inductive MixedMode where
  | disabled | started | keyed
  deriving DecidableEq, Repr

/-- writer.rs:59 (discriminants 0..8 in this order) -/
inductive WriteState where
  | error | key | objectValue | keyValueSeparator | arrayValue | arrayValueFirst
  | firstKey | firstUnknown | secondUnknown
  deriving DecidableEq, Repr

/-- `state as usize` -/
def WriteState.toNat : WriteState → Nat
  | .error => 0 | .key => 1 | .objectValue => 2 | .keyValueSeparator => 3 | .arrayValue => 4
  | .arrayValueFirst => 5 | .firstKey => 6 | .firstUnknown => 7 | .secondUnknown => 8

def WriteState.ofNat? : Nat → Option WriteState
  | 0 => some .error | 1 => some .key | 2 => some .objectValue | 3 => some .keyValueSeparator
  | 4 => some .arrayValue | 5 => some .arrayValueFirst | 6 => some .firstKey
  | 7 => some .firstUnknown | 8 => some .secondUnknown | _ => none

/-- writer.rs:78 `no_data_encountered_yet` -/
def WriteState.noDataYet : WriteState → Bool
  | .arrayValueFirst | .firstKey | .firstUnknown => true
  | _ => false

/-- `WRITE_STATE_NEXT[state as usize]` through the measured table; `none` = index out of
bounds (a Rust panic). -/
def WriteState.next (s : WriteState) : Option WriteState :=
  match Jomini.Tables.writeStateNext[s.toNat]? with
  | some n => WriteState.ofNat? n
  | none => none

inductive WErr where
  /-- `ErrorKind::StackEmpty` -/
  | stackEmpty
  /-- an index out of bounds / `unwrap` on `None` / `unreachable!` / `debug_assert!` -/
  | panic
  /-- model artefact: fuel of the tape walk exhausted (never happens with the fuel `writeTape` passes) -/
  | fuel
  /-- `ErrorKind::Io`: the sink refused bytes (only the failing-sink model of Model/WriterSink.lean produces it) -/
  | io
  deriving DecidableEq, Repr

/-- writer.rs:13 `TextWriter` (sink = `out`; `indents` is `[indent_char; 16]`). -/
structure State where
  mode : DepthMode
  /-- the `depth` stack, top of the stack first -/
  depth : List DepthMode
  state : WriteState
  needsLineTerminator : Bool
  mixedMode : MixedMode
  indentChar : UInt8
  /-- `indent_factor: u8` -/
  indentFactor : Nat
  out : Bytes
  deriving Repr

/-- writer.rs:887 `TextWriterBuilder::from_writer` -/
def State.init (indentChar : UInt8) (indentFactor : Nat) : State :=
  { mode := .object, depth := [], state := .key, needsLineTerminator := false,
    mixedMode := .disabled, indentChar := indentChar, indentFactor := indentFactor, out := [] }

/-- `self.writer.write_all(b)` -/
@[inline] def put (s : State) (b : Bytes) : State := { s with out := s.out ++ b }

/-- writer.rs:130 -/
def State.expectingKey (s : State) : Bool :=
  match s.state with | .key | .firstKey => true | _ => false
/-- writer.rs:136 -/
def State.atUnknownStart (s : State) : Bool :=
  match s.state with | .firstUnknown => true | _ => false
/-- writer.rs:142 -/
def State.atArrayValue (s : State) : Bool :=
  match s.state with | .arrayValue => true | _ => false
/-- writer.rs:148 -/
def State.depthLen (s : State) : Nat := s.depth.length

/-- the slow path of `write_indent`: one `write_all(&[indent_char])` per iteration -/
def slowIndent : Nat → State → State
  | 0, s => s
  | n + 1, s => slowIndent n (put s [s.indentChar])

/-- writer.rs:623 `write_indent`: `self.indents.get(..indents)` is `Some` iff `indents ≤ 16`. -/
def writeIndent (s : State) : State :=
  let indents := s.depth.length * s.indentFactor
  if indents ≤ 16 then put s ((List.replicate 16 s.indentChar).take indents)
  else slowIndent (s.depth.length * s.indentFactor) s

/-- writer.rs:576 -/
def writeLineTerminator (s : State) : State :=
  if s.needsLineTerminator then { put s [10] with needsLineTerminator := false } else s

/-- writer.rs:586 -/
def writePreamble (s0 : State) : State :=
  let justWroteLineTerminator := s0.needsLineTerminator
  let s := writeLineTerminator s0
  match s.state with
  | .arrayValue | .secondUnknown =>
    if justWroteLineTerminator then writeIndent s
    else if s.mixedMode = .keyed then { s with mixedMode := .started }
    else put s [32]
  | .key => writeIndent s
  | .keyValueSeparator => put s [61]
  | x => if x.noDataYet then writeIndent s else s

/-- writer.rs:615 -/
def writeEpilogue (s : State) : Except WErr State :=
  match s.state.next with
  | none => .error .panic
  | some st => .ok { s with state := st, needsLineTerminator := decide (st = .key) }

/-- writer.rs:157 -/
def writeStart (s0 : State) : State :=
  let s := put (writePreamble s0) [123]
  { s with depth := s.mode :: s.depth, needsLineTerminator := true, mode := .array, state := .firstUnknown }

/-- writer.rs:169 -/
def writeObjectStart (s : State) : State :=
  { writeStart s with mode := .object, state := .firstKey }

/-- writer.rs:178 -/
def writeArrayStart (s : State) : State :=
  { writeStart s with mode := .array, state := .arrayValueFirst }

/-- writer.rs:187 -/
def writeEnd (s0 : State) : Except WErr State :=
  let oldState := s0.state
  match s0.depth with
  | [] => .error .stackEmpty
  | mode :: rest =>
    let s := { s0 with depth := rest, mode := mode,
                       state := (match mode with | .object => .key | .array => .arrayValue) }
    let s := if oldState.noDataYet then put s [32] else writeIndent (put s [10])
    .ok { put s [125] with needsLineTerminator := true, mixedMode := .disabled }

/-- text/operator.rs -/
inductive Op where
  | lt | le | gt | ge | ne | exact | eq | «exists»
  deriving DecidableEq, Repr

/-- operator.rs:54 `symbol` (also its `Display`) -/
def Op.symbol : Op → Bytes
  | .lt => [60] | .le => [60, 61] | .gt => [62] | .ge => [62, 61]
  | .exact => [61, 61] | .eq => [61] | .ne => [33, 61] | .exists => [63, 61]

/-- writer.rs:254 -/
def writeOperator (s : State) (op : Op) : State :=
  if s.mixedMode = .disabled then
    let s := if op = .eq then put s [61] else put s ([32] ++ op.symbol ++ [32])
    { s with mode := .object, state := .objectValue }
  else
    { put s op.symbol with mixedMode := .keyed }

/-- writer.rs:289 `write_unquoted`; writer.rs:568 `write_fmt` has the same shape (the formatted text
takes the place of `data`). -/
def writeUnquoted (s : State) (data : Bytes) : Except WErr State :=
  writeEpilogue (put (writePreamble s) data)

/-- `x == b'\\' || x == b'"'` -/
@[inline] def isSpecial (x : UInt8) : Bool := x == 92 || x == 34

/-- the body of the inner loop of `escape`: `if special { push('\\') } push(x)` -/
def escByte (x : UInt8) : Bytes := if isSpecial x then [92, x] else [x]

/-- index of the first byte that needs an escape (the outer `for (i, &x)` of `escape`) -/
def firstSpecial : Bytes → Option Nat
  | [] => none
  | x :: xs => if isSpecial x then some 0 else (firstSpecial xs).map (· + 1)

/-- per-byte escaping of `data[i..data.len() - 1]` -/
def escapeEach : Bytes → Bytes
  | [] => []
  | x :: xs => escByte x ++ escapeEach xs

/-- writer.rs:942 `escape`.  Found a special byte at `i`: copy `data[..i]`, escape
`data[i..len-1]` byte by byte, then handle the last byte separately (dropped when it is
`\n`).  No special byte: borrow the data, minus one trailing `\n`. -/
def escape (data : Bytes) : Bytes :=
  match firstSpecial data with
  | some i =>
    let buffer := data.take i ++ escapeEach ((data.drop i).dropLast)
    match data.getLast? with
    | some last => if last != 10 then buffer ++ escByte last else buffer
    | none => buffer
  | none =>
    match data.getLast? with
    | some last => if last == 10 then data.dropLast else data
    | none => data

/-- writer.rs:316 -/
def writeQuoted (s : State) (data : Bytes) : Except WErr State :=
  writeEpilogue (put (writePreamble s) ([34] ++ escape data ++ [34]))

/-- writer.rs:793 `write_escaped_quotes` (data already escaped) -/
def writeEscapedQuotes (s : State) (x : Bytes) : Except WErr State :=
  writeEpilogue (put (writePreamble s) ([34] ++ x ++ [34]))

/-- writer.rs:495 -/
def writeHeader (s : State) (header : Bytes) : State :=
  { put (writePreamble s) (header ++ [32]) with state := .objectValue }

/-- writer.rs:639 -/
def startMixedMode (s : State) : State :=
  { s with mode := .array, mixedMode := .started }

/-! ### integer `Display` (decimal, `{:x}`, zero padding) -/

@[inline] def digitChar (d : Nat) : UInt8 := UInt8.ofNat (48 + d)

/-- decimal digits of `n`, most significant first; the fuel is the digit budget (20 digits
cover every `u64`).  Out of fuel = empty tail (unreachable for `n < 10^fuel`). -/
def fmtNatF : Nat → Nat → Bytes
  | 0, _ => []
  | f + 1, n => if n < 10 then [digitChar n] else fmtNatF f (n / 10) ++ [digitChar (n % 10)]

/-- `Display` for `u8`/`u16`/`u32`/`u64` -/
def fmtNat (n : Nat) : Bytes := fmtNatF 20 n

/-- `Display` for `i16`/`i32`/`i64` -/
def fmtInt (i : Int) : Bytes := if i < 0 then 45 :: fmtNat i.natAbs else fmtNat i.toNat

@[inline] def hexChar (d : Nat) : UInt8 := if d < 10 then UInt8.ofNat (48 + d) else UInt8.ofNat (87 + d)

def fmtHexF : Nat → Nat → Bytes
  | 0, _ => []
  | f + 1, n => if n < 16 then [hexChar n] else fmtHexF f (n / 16) ++ [hexChar (n % 16)]

/-- `{:x}` for `u16` -/
def fmtHex (n : Nat) : Bytes := fmtHexF 16 n

/-- `{:0width$}` (sign-aware zero padding) of an integer -/
def fmtIntPad (width : Nat) (i : Int) : Bytes :=
  let digits := if i < 0 then fmtNat i.natAbs else fmtNat i.toNat
  let sign : Bytes := if i < 0 then [45] else []
  sign ++ List.replicate (width - (sign.length + digits.length)) 48 ++ digits

/-- common/date.rs:46 -/
inductive DateFormat where
  | iso8601 | dotShort | dotWide
  deriving DecidableEq, Repr

/-- date.rs:73 `Display for PdsDateFormatter` over the raw components (`hour = 0` ⇔ no hour). -/
def fmtDate (f : DateFormat) (year : Int) (month day hour : Nat) : Bytes :=
  match f with
  | .iso8601 =>
    let base := fmtIntPad 4 year ++ [45] ++ fmtIntPad 2 month ++ [45] ++ fmtIntPad 2 day
    if hour != 0 then base ++ [84] ++ fmtIntPad 2 ((hour : Int) - 1) else base
  | fmt =>
    let width := if fmt = .dotWide then 2 else 0
    let base := fmtInt year ++ [46] ++ fmtIntPad width month ++ [46] ++ fmtIntPad width day
    if hour != 0 then base ++ [46] ++ fmtIntPad width hour else base

/-! ### the public calls as data -/

/-- `binary::Rgb` -/
structure Rgb where
  r : Nat
  g : Nat
  b : Nat
  a : Option Nat
  deriving DecidableEq, Repr

/-- writer.rs:540 `write_rgb` -/
def writeRgb (s : State) (c : Rgb) : Except WErr State :=
  let s := writeArrayStart (writeHeader s [114, 103, 98])
  match writeUnquoted s (fmtNat c.r) with
  | .error e => .error e
  | .ok s =>
  match writeUnquoted s (fmtNat c.g) with
  | .error e => .error e
  | .ok s =>
  match writeUnquoted s (fmtNat c.b) with
  | .error e => .error e
  | .ok s =>
  match c.a with
  | some a =>
    (match writeUnquoted s (fmtNat a) with
     | .error e => .error e
     | .ok s => writeEnd s)
  | none => writeEnd s

/-- `BinaryToken` (container `end` indices are ignored by `write_binary`); float tokens carry the
text `std`'s `Display` produces for the value. -/
inductive BinTok where
  | array | object | mixedContainer | equal | «end»
  | bool (b : Bool) | u32 (n : Nat) | u64 (n : Nat) | i64 (i : Int) | i32 (i : Int)
  | quoted (b : Bytes) | unquoted (b : Bytes)
  | f32 (text : Bytes) | f64 (text : Bytes)
  | token (id : Nat) | rgb (c : Rgb)
  deriving DecidableEq, Repr

/-- `"__unknown_0x"` -/
def unknownPrefix : Bytes := [95, 95, 117, 110, 107, 110, 111, 119, 110, 95, 48, 120]

/-- writer.rs:228 -/
def writeBool (s : State) (b : Bool) : Except WErr State :=
  writeUnquoted s (if b then [121, 101, 115] else [110, 111])

/-- writer.rs:685 -/
def writeBinary (s : State) : BinTok → Except WErr State
  | .array => .ok (writeArrayStart s)
  | .object => .ok (writeObjectStart s)
  | .mixedContainer => .ok (startMixedMode s)
  | .equal => .ok (writeOperator s .eq)
  | .end => writeEnd s
  | .bool b => writeBool s b
  | .u32 n => writeUnquoted s (fmtNat n)
  | .u64 n => writeUnquoted s (fmtNat n)
  | .i64 i => writeUnquoted s (fmtInt i)
  | .i32 i => writeUnquoted s (fmtInt i)
  | .quoted b => writeQuoted s b
  | .unquoted b => writeUnquoted s b
  | .f32 t => writeUnquoted s t
  | .f64 t => writeUnquoted s t
  | .token id => writeUnquoted s (unknownPrefix ++ fmtHex id)
  | .rgb c => writeRgb s c

/-- one public call on a `TextWriter` -/
inductive Call where
  | start | objectStart | arrayStart | «end» | mixedMode
  | unquoted (b : Bytes) | quoted (b : Bytes) | header (b : Bytes) | operator (op : Op)
  | bool (b : Bool) | i32 (i : Int) | u32 (n : Nat) | i64 (i : Int) | u64 (n : Nat)
  /-- `write_fmt` / `write_f32` / `write_f64` / `write_f*_precision` with the rendered text -/
  | fmt (text : Bytes)
  | date (f : DateFormat) (year : Int) (month day hour : Nat)
  | rgb (c : Rgb)
  | binary (t : BinTok)
  deriving DecidableEq, Repr

/-- the effect of one call: new state, or the error the call returns -/
def step (s : State) : Call → Except WErr State
  | .start => .ok (writeStart s)
  | .objectStart => .ok (writeObjectStart s)
  | .arrayStart => .ok (writeArrayStart s)
  | .end => writeEnd s
  | .mixedMode => .ok (startMixedMode s)
  | .unquoted b => writeUnquoted s b
  | .quoted b => writeQuoted s b
  | .header b => .ok (writeHeader s b)
  | .operator op => .ok (writeOperator s op)
  | .bool b => writeBool s b
  | .i32 i => writeUnquoted s (fmtInt i)
  | .u32 n => writeUnquoted s (fmtNat n)
  | .i64 i => writeUnquoted s (fmtInt i)
  | .u64 n => writeUnquoted s (fmtNat n)
  | .fmt t => writeUnquoted s t
  | .date f y m d h => writeUnquoted s (fmtDate f y m d h)
  | .rgb c => writeRgb s c
  | .binary t => writeBinary s t

/-- what a caller can observe between calls -/
structure Obs where
  depth : Nat
  expectingKey : Bool
  atArrayValue : Bool
  atUnknownStart : Bool
  deriving DecidableEq, Repr

def State.obs (s : State) : Obs :=
  { depth := s.depthLen, expectingKey := s.expectingKey, atArrayValue := s.atArrayValue,
    atUnknownStart := s.atUnknownStart }

/-- Run a call list the way a caller that ignores errors would: a failed call leaves the
writer as it was (`write_end` checks the stack before touching anything; nothing else fails
on a `Vec` sink).  Returns the final state and, per call, the observation or the error. -/
def run : List Call → State → State × List (Except WErr Obs)
  | [], s => (s, [])
  | c :: cs, s =>
    match step s c with
    | .ok s' => let r := run cs s'; (r.1, .ok s'.obs :: r.2)
    | .error e => let r := run cs s; (r.1, .error e :: r.2)

/-! ### `write_tape` : a walk over the token list of a `TextTape`

The readers of text/dom.rs are index ranges into the token slice; only the parts
`write_tape` uses are mirrored (`FieldsIter::next`, `ValuesIter::next`, `read_object`,
`read_array` on `Array`/`Header`, `next_idx*`).  Scalars are byte strings: the offsets of a
token into the parsed input do not exist in this representation. -/

inductive Tok where
  | array («end» : Nat) (mixed : Bool)
  | object («end» : Nat) (mixed : Bool)
  | mixedContainer
  | unquoted (b : Bytes) | quoted (b : Bytes)
  | parameter (b : Bytes) | undefinedParameter (b : Bytes)
  | operator (op : Op)
  | «end» (start : Nat)
  | header (b : Bytes)
  deriving DecidableEq, Repr

/-- dom.rs:42 `next_idx_values` (`tokens[idx]`: out of bounds panics) -/
def nextIdxValues (toks : List Tok) (idx : Nat) : Except WErr Nat :=
  match toks[idx]? with
  | none => .error .panic
  | some (.array e _) | some (.object e _) => .ok (e + 1)
  | some _ => .ok (idx + 1)

/-- dom.rs:21 `next_idx_header` -/
def nextIdxHeader (toks : List Tok) (idx : Nat) : Except WErr Nat :=
  match toks[idx]? with
  | none => .error .panic
  | some (.array e _) | some (.object e _) => .ok (e + 1)
  | some (.operator _) | some .mixedContainer => .ok (idx + 2)
  | some _ => .ok (idx + 1)

/-- dom.rs:32 `next_idx` (recursive through operators; fuel = tokens that can be skipped) -/
def nextIdx (toks : List Tok) : Nat → Nat → Except WErr Nat
  | 0, _ => .error .fuel
  | fuel + 1, idx =>
    match toks[idx]? with
    | none => .error .panic
    | some (.array e _) | some (.object e _) => .ok (e + 1)
    | some (.operator _) => nextIdx toks fuel (idx + 1)
    | some (.header _) => nextIdxHeader toks (idx + 1)
    | some _ => .ok (idx + 1)

mutual
/-- writer.rs:734 `write_object_core` over `FieldsIter` (dom.rs:477) of the range `[tokenInd, endInd)` -/
def writeObjectCore (toks : List Tok) : Nat → Nat → Nat → State → Except WErr State
  | 0, _, _, _ => .error .fuel
  | fuel + 1, tokenInd, endInd, s =>
    if tokenInd ≥ endInd then .ok s else
    match toks[tokenInd]? with
    | none => .error .panic
    | some key =>
      match key with
      | .mixedContainer => .ok s              -- the iterator ends; the rest of the container is not written
      | .array .. | .object .. | .operator _ | .end _ | .header _ => .error .panic  -- `debug_assert!(false, "All keys should be scalars")`
      | .quoted _ | .unquoted _ | .parameter _ | .undefinedParameter _ =>
        match toks[tokenInd + 1]? with
        | none => .error .panic
        | some t1 =>
          let opv : Option Op × Nat := match t1 with
            | .operator x => (some x, tokenInd + 2)
            | _ => (none, tokenInd + 1)
          let op := opv.1
          let valueInd := opv.2
          match nextIdx toks (toks.length + 1) valueInd with
          | .error e => .error e
          | .ok next =>
            let afterField : Except WErr State :=
              match key with
              | .parameter x => writeParam toks fuel [91, 91] x valueInd s
              | .undefinedParameter x => writeParam toks fuel [91, 91, 33] x valueInd s
              | .quoted x =>
                (match writeEscapedQuotes s x with
                 | .error e => .error e
                 | .ok s =>
                   let s := match op with | some o => writeOperator s o | none => s
                   writeValue toks fuel valueInd s)
              | .unquoted x =>
                (match writeUnquoted s x with
                 | .error e => .error e
                 | .ok s =>
                   let s := match op with | some o => writeOperator s o | none => s
                   writeValue toks fuel valueInd s)
              | _ => .error .panic
            match afterField with
            | .error e => .error e
            | .ok s => writeObjectCore toks fuel next endInd s

/-- writer.rs:740-769: the `Parameter` / `UndefinedParameter` arms (identical up to the opening bytes) -/
def writeParam (toks : List Tok) : Nat → Bytes → Bytes → Nat → State → Except WErr State
  | 0, _, _, _, _ => .error .fuel
  | fuel + 1, opening, x, valueInd, s =>
    let s := put (writePreamble s) (opening ++ x ++ [93, 10])
    -- `value.read_object()` (dom.rs:733)
    match toks[valueInd]? with
    | none => .error .panic
    | some (.object e _) =>
      (match writeObjectCore toks fuel (valueInd + 1) e s with
       | .error e => .error e
       | .ok s => .ok (put (writeIndent (put s [10])) [93]))
    | some (.array e _) =>
      (match writeObjectCore toks fuel e e s with
       | .error e => .error e
       | .ok s => .ok (put (writeIndent (put s [10])) [93]))
    | some _ =>
      (match writeValue toks fuel valueInd s with
       | .error e => .error e
       | .ok s => .ok (put s [93]))

/-- writer.rs:802 `write_value` -/
def writeValue (toks : List Tok) : Nat → Nat → State → Except WErr State
  | 0, _, _ => .error .fuel
  | fuel + 1, valueInd, s =>
    match toks[valueInd]? with
    | none => .error .panic
    | some tok =>
      match tok with
      | .array e _ =>
        -- `write_array(value.read_array().unwrap())`
        (match writeValues toks fuel (valueInd + 1) e (writeArrayStart s) with
         | .error e => .error e
         | .ok s => writeEnd s)
      | .object e _ =>
        -- `write_object(value.read_object().unwrap())`
        (match writeObjectCore toks fuel (valueInd + 1) e (writeObjectStart s) with
         | .error e => .error e
         | .ok s => writeEnd s)
      | .mixedContainer => .ok (startMixedMode s)
      | .unquoted x => writeUnquoted s x
      | .quoted x => writeEscapedQuotes s x
      | .parameter _ | .undefinedParameter _ | .end _ => .error .panic   -- `unreachable!()`
      | .operator op =>
        let s := if s.mixedMode = .disabled then put s [32] else { s with mixedMode := .keyed }
        .ok (put s op.symbol)
      | .header x =>
        -- `read_array` on a header: `[valueInd, next_idx(valueInd + 1))`, two `values.next().unwrap()`
        (match nextIdx toks (toks.length + 1) (valueInd + 1) with
         | .error e => .error e
         | .ok endInd =>
           let s := writeHeader s x
           if ¬ (valueInd < endInd) then .error .panic else
           if ¬ (valueInd + 1 < endInd) then .error .panic else
           match nextIdxValues toks (valueInd + 1) with
           | .error e => .error e
           | .ok _ => writeValue toks fuel (valueInd + 1) s)

/-- writer.rs:845 the `for value in array.values()` loop over `ValuesIter` (dom.rs:867) -/
def writeValues (toks : List Tok) : Nat → Nat → Nat → State → Except WErr State
  | 0, _, _, _ => .error .fuel
  | fuel + 1, tokenInd, endInd, s =>
    if tokenInd < endInd then
      match nextIdxValues toks tokenInd with
      | .error e => .error e
      | .ok next =>
        match writeValue toks fuel tokenInd s with
        | .error e => .error e
        | .ok s => writeValues toks fuel next endInd s
    else .ok s
end

/-- writer.rs:725 `write_tape`: the root object is the whole token slice.  Every level of
the walk and every loop iteration consumes one unit of fuel; `4·len + 8` always suffices for
a tape whose container tokens point forward. -/
def writeTape (toks : List Tok) (s : State) : Except WErr State :=
  writeObjectCore toks (4 * toks.length + 8) 0 toks.length s

end Jomini.Writer
