import JominiModel.Model.Basic
import JominiModel.Model.Scalar
/-
Model of /repo/src/common/date.rs (`ExpandedRawDate`, `RawDate`, `Date`, `DateHour`,
`UniformDate`, `PdsDateFormatter`, `month_day_from_julian`, `julian_ordinal_day`,
`to_binary`) and of `util::fast_digit_parse` / `util::le_u64` (src/util.rs:14-33).

Conventions
* `i16`/`i32`/`i64` values are `Int`, `u8` values are `Nat`; every range test the Rust
  performs (`i16::try_from`, `i32::try_from`, `checked_sub`, `checked_add`) is an explicit
  comparison.  Truncating casts (`as u8`, `as i16`) are the wrapping functions `asU8`,
  `asI16`.  Signed `/` and `%` are `Int.tdiv` / `Int.tmod`.
* `Option<T>` and `Result<T, DateError>` (`DateError` is a unit struct) are both the
  three-valued `Out T`: `ok v`, `err` (`None` / `Err(DateError)`), and `panic` for every
  place where the Rust would panic (`unreachable!()`, `unwrap`/`expect`, array index out of
  bounds, arithmetic overflow under overflow checks).  Nothing is totalised.
* `RawDate.data` is the `u16` bit field `month << 12 + day << 7 + hour << 2` as `BitVec 16`.
* `u64` words of the digit-packed fast paths are `BitVec 64`.
* Formatting produces bytes; integer `Display` (`{}`, `{:04}`, `{:02}`, `{:0w$}`) is modelled
  exactly (sign first, then zero padding up to the width, width counts the sign).
-/
namespace Jomini.Date
open Jomini

/-- outcome of a Rust function returning `Option<T>` / `Result<T, DateError>` / `T`. -/
inductive Out (α : Type) where
  | ok (a : α)
  | err
  | panic
  deriving DecidableEq, Repr

namespace Out
/-- `Option::and_then` (a panic propagates). -/
@[inline] def bind {α β : Type} : Out α → (α → Out β) → Out β
  | .ok a, f => f a
  | .err, _ => .err
  | .panic, _ => .panic

@[inline] def map {α β : Type} (f : α → β) : Out α → Out β
  | .ok a => .ok (f a)
  | .err => .err
  | .panic => .panic

@[simp] theorem bind_ok {α β : Type} (a : α) (f : α → Out β) : (Out.ok a).bind f = f a := rfl
@[simp] theorem bind_err {α β : Type} (f : α → Out β) : (Out.err : Out α).bind f = .err := rfl
@[simp] theorem bind_panic {α β : Type} (f : α → Out β) : (Out.panic : Out α).bind f = .panic := rfl
@[simp] theorem map_ok {α β : Type} (a : α) (f : α → β) : (Out.ok a).map f = .ok (f a) := rfl
@[simp] theorem map_err {α β : Type} (f : α → β) : (Out.err : Out α).map f = .err := rfl
@[simp] theorem map_panic {α β : Type} (f : α → β) : (Out.panic : Out α).map f = .panic := rfl
end Out

/-! ### machine integer ranges and casts -/

def I16_MIN : Int := -32768
def I16_MAX : Int := 32767
def I32_MIN : Int := -2147483648
def I32_MAX : Int := 2147483647

/-- `i16::try_from(x).is_ok()` -/
def inI16 (x : Int) : Bool := decide (I16_MIN ≤ x) && decide (x ≤ I16_MAX)
/-- `i32::try_from(x).is_ok()` / "fits an i32" -/
def inI32 (x : Int) : Bool := decide (I32_MIN ≤ x) && decide (x ≤ I32_MAX)

/-- `x as u8` for a signed `x` (two's complement truncation). -/
def asU8 (x : Int) : Nat := (x % 256).toNat
/-- `n as i16` for an unsigned `n` (two's complement truncation). -/
def asI16 (n : Nat) : Int :=
  if n % 65536 < 32768 then ((n % 65536 : Nat) : Int) else ((n % 65536 : Nat) : Int) - 65536

/-! ### calendar tables (date.rs:24, 1099-1140) -/

/-- date.rs:24 `DAYS_PER_MONTH` -/
def daysPerMonth : List Nat := [0, 31, 28, 31, 30, 31, 30, 31, 31, 30, 31, 30, 31]

/-- date.rs:1100 `month_day_from_julian`; `none` is the `unreachable!()` arm.
The day is computed in `i32` and cast with `as u8`. -/
def monthDayFromJulian (d : Int) : Option (Nat × Nat) :=
  if 0 ≤ d ∧ d ≤ 30 then some (1, asU8 (d + 1))
  else if 31 ≤ d ∧ d ≤ 58 then some (2, asU8 (d - 30))
  else if 59 ≤ d ∧ d ≤ 89 then some (3, asU8 (d - 58))
  else if 90 ≤ d ∧ d ≤ 119 then some (4, asU8 (d - 89))
  else if 120 ≤ d ∧ d ≤ 150 then some (5, asU8 (d - 119))
  else if 151 ≤ d ∧ d ≤ 180 then some (6, asU8 (d - 150))
  else if 181 ≤ d ∧ d ≤ 211 then some (7, asU8 (d - 180))
  else if 212 ≤ d ∧ d ≤ 242 then some (8, asU8 (d - 211))
  else if 243 ≤ d ∧ d ≤ 272 then some (9, asU8 (d - 242))
  else if 273 ≤ d ∧ d ≤ 303 then some (10, asU8 (d - 272))
  else if 304 ≤ d ∧ d ≤ 333 then some (11, asU8 (d - 303))
  else if 334 ≤ d ∧ d ≤ 364 then some (12, asU8 (d - 333))
  else none

/-- date.rs:1124 `julian_ordinal_day`; `none` is the `unreachable!()` arm. -/
def julianOrdinalDay (month : Nat) : Option Int :=
  match month with
  | 1 => some (-1)
  | 2 => some 30
  | 3 => some 58
  | 4 => some 89
  | 5 => some 119
  | 6 => some 150
  | 7 => some 180
  | 8 => some 211
  | 9 => some 242
  | 10 => some 272
  | 11 => some 303
  | 12 => some 333
  | _ => none

/-- date.rs:1143 `to_binary` (free function).  `hour.saturating_sub(1)` is truncated
subtraction on `Nat`.  No intermediate can leave `i32` for an `i16` year, an ordinal day in
`0..=364` and an hour `≤ 24` (`toBinaryRaw_fits` in `Proofs/Date.lean`). -/
def toBinaryRaw (year : Int) (ordinalDay : Int) (hour : Nat) : Int :=
  let yearPart := (year + 5000) * 365
  let hour : Int := ((hour - 1 : Nat) : Int)
  (yearPart + ordinalDay) * 24 + hour

/-! ### ExpandedRawDate (date.rs:110-248) -/

structure Expanded where
  year : Int
  month : Nat
  day : Nat
  hour : Nat
  deriving DecidableEq, Repr

/-- date.rs:121 `ExpandedRawDate::from_binary` (argument is an `i32`). -/
def Expanded.fromBinary (s : Int) : Out Expanded :=
  let hour := s.tmod 24
  let s1 := s.tdiv 24
  let daysSinceJan1 := s1.tmod 365
  if hour < 0 ∨ daysSinceJan1 < 0 then .err
  else
    let s2 := s1.tdiv 365
    -- `s.checked_sub(5000)`
    if s2 - 5000 < I32_MIN then .err
    else
      let year := s2 - 5000
      if !inI16 year then .err
      else
        match monthDayFromJulian daysSinceJan1 with
        | none => .panic
        | some (month, day) => .ok ⟨year, month, day, asU8 hour⟩

/-- date.rs:214-251: the hour component, entered with `offset` pointing at the expected '.'.
A zero hour (`0`, `00`) is refused; a leading zero (`05`) is accepted. -/
def Expanded.parseHour (year : Int) (month day : Nat) (offset : Nat) (data : Bytes) : Out Expanded :=
  match data[offset]? with
  | none => .err
  | some c =>
    if c != 46 then .err
    else
      match data[offset + 1]? with
      | none => .err
      | some n =>
        if !isDigit n then .err
        else
          let hour1 := digitVal n
          match data[offset + 2]? with
          | none => if hour1 == 0 then .err else .ok ⟨year, month, day, hour1⟩
          | some n2 =>
            if isDigit n2 then
              let result := hour1 * 10 + digitVal n2
              if data.length != offset + 3 || result == 0 then .err
              else .ok ⟨year, month, day, result⟩
            else .err

/-- date.rs:177-212: the day component, entered with `offset` pointing at the expected '.'
after the month; continues with the hour when bytes are left. -/
def Expanded.parseDay (year : Int) (month : Nat) (offset : Nat) (data : Bytes) : Out Expanded :=
  match data[offset]? with
  | none => .err
  | some c1 =>
    if c1 != 46 then .err
    else
      match data[offset + 1]? with
      | none => .err
      | some n3 =>
        if !isDigit n3 then .err
        else
          let day1 := digitVal n3
          match data[offset + 2]? with
          | none => .ok ⟨year, month, day1, 0⟩
          | some n4 =>
            if n4 == 46 then Expanded.parseHour year month day1 (offset + 2) data
            else if isDigit n4 then
              let result := day1 * 10 + digitVal n4
              if data.length != offset + 3 then
                Expanded.parseHour year month result (offset + 3) data
              else .ok ⟨year, month, result, 0⟩
            else .err

/-- date.rs:156-175: everything after the year (`data` starts at the first '.'): the month,
then `parseDay`. -/
def Expanded.parseRest (year : Int) (data : Bytes) : Out Expanded :=
  match data[0]? with
  | none => .err
  | some c0 =>
    if c0 != 46 then .err
    else
      match data[1]? with
      | none => .err
      | some n1 =>
        if !isDigit n1 then .err
        else
          let month1 := digitVal n1
          match data[2]? with
          | none => .err
          | some n2 =>
            let mo : Option (Nat × Nat) :=
              if n2 == 46 then some (month1, 2)
              else if isDigit n2 then some (month1 * 10 + digitVal n2, 3)
              else none
            match mo with
            | none => .err
            | some (month, offset) => Expanded.parseDay year month offset data

/-- date.rs:150 `ExpandedRawDate::_parse`. -/
def Expanded.parse (s : Bytes) : Out Expanded :=
  match Scalar.toI64T s with
  | .error _ => .err
  | .ok (year, data) =>
    if data.isEmpty then
      -- `i32::try_from(year).ok().and_then(Self::from_binary)`
      if inI32 year then Expanded.fromBinary year else .err
    else if !inI16 year then .err
    else Expanded.parseRest year data

/-! ### RawDate (date.rs:274-433) -/

structure RawDate where
  year : Int
  data : BitVec 16
  deriving DecidableEq, Repr

namespace RawDate

/-- date.rs:337 `from_ymdh_opt` -/
def fromYmdhOpt (year : Int) (month day hour : Nat) : Out RawDate :=
  if month != 0 && decide (month < 13) && day != 0 && decide (day < 32) && decide (hour < 25) then
    .ok ⟨year, (BitVec.ofNat 16 month <<< 12) + (BitVec.ofNat 16 day <<< 7) + (BitVec.ofNat 16 hour <<< 2)⟩
  else .err

/-- date.rs:350 `from_ymdh` (`unwrap`) -/
def fromYmdh (year : Int) (month day hour : Nat) : Out RawDate :=
  match fromYmdhOpt year month day hour with
  | .ok r => .ok r
  | _ => .panic

def fromExpanded (e : Expanded) : Out RawDate := fromYmdhOpt e.year e.month e.day e.hour

/-- date.rs:407 `(self.data >> 12) as u8` -/
def month (r : RawDate) : Nat := (r.data >>> 12).toNat % 256
/-- date.rs:413 `((self.data >> 7) & 0x1f) as u8` -/
def day (r : RawDate) : Nat := ((r.data >>> 7) &&& 0x1f).toNat % 256
/-- date.rs:356 `((self.data >> 2) & 0x1f) as u8` -/
def hour (r : RawDate) : Nat := ((r.data >>> 2) &&& 0x1f).toNat % 256
/-- date.rs:362 `self.data & 0x7c != 0` -/
def hasHour (r : RawDate) : Bool := (r.data &&& 0x7c) != 0

/-- date.rs:329 -/
def fromBinary (s : Int) : Out RawDate := (Expanded.fromBinary s).bind fromExpanded

/-- date.rs:384 `RawDate::_parse`: a bare number (binary form) is refused. -/
def parse (s : Bytes) : Out RawDate :=
  ((Expanded.parse s).bind fromExpanded).bind fun x =>
    match Scalar.toI64T s with
    | .error _ => .err
    | .ok (_, rest) => if rest.isEmpty then .err else .ok x

/-- date.rs:304 `Ord for RawDate`: year, then the packed `u16`. -/
def cmp (a b : RawDate) : Ordering :=
  (compare a.year b.year).then (compare a.data.toNat b.data.toNat)

end RawDate

/-! ### formatting (date.rs:73-108) -/

/-- ASCII digit for `k < 10`. -/
def digitByte (k : Nat) : UInt8 := UInt8.ofNat (48 + k)

/-- decimal digits of `n`, most significant first, prepended to `acc`
(fuel = maximal number of digits; 20 covers `u64`). -/
def natDecGo : Nat → Nat → Bytes → Bytes
  | 0, _, acc => acc
  | fuel + 1, n, acc =>
    if n < 10 then digitByte n :: acc
    else natDecGo fuel (n / 10) (digitByte (n % 10) :: acc)

/-- `Display` of an unsigned integer (`n < 10^20`). -/
def natDec (n : Nat) : Bytes := natDecGo 20 n []

/-- `format!("{:0width$}", x)` for a signed integer: sign, zero padding, digits; the
width counts the sign. `width = 0` is plain `{}`. -/
def fmtInt (width : Nat) (x : Int) : Bytes :=
  let digits := natDec x.natAbs
  if x < 0 then
    45 :: (List.replicate (width - 1 - digits.length) 48 ++ digits)
  else
    List.replicate (width - digits.length) 48 ++ digits

inductive DateFormat where
  | iso8601 | dotShort | dotWide
  deriving DecidableEq, Repr

/-- date.rs:73 `Display for PdsDateFormatter`.  `hour() - 1` is a `u8` subtraction: `panic`
if it underflowed (it cannot: `has_hour` tests the same bits, `hasHour_iff` in Proofs). -/
def format (raw : RawDate) (f : DateFormat) : Out Bytes :=
  match f with
  | .iso8601 =>
    let base := fmtInt 4 raw.year ++ [45] ++ fmtInt 2 raw.month ++ [45] ++ fmtInt 2 raw.day
    if raw.hasHour then
      if raw.hour = 0 then .panic
      else .ok (base ++ [84] ++ fmtInt 2 ((raw.hour - 1 : Nat) : Int))
    else .ok base
  | fmt =>
    let width := if fmt = .dotWide then 2 else 0
    let base := fmtInt 0 raw.year ++ [46] ++ fmtInt width raw.month ++ [46] ++ fmtInt width raw.day
    if raw.hasHour then .ok (base ++ [46] ++ fmtInt width raw.hour)
    else .ok base

/-! ### fast_digit_parse / le_u64 (util.rs:14-33) -/

/-- util.rs:15 `fast_digit_parse` -/
def fastDigitParse (v : BitVec 64) : Option (BitVec 64) :=
  let isDigits :=
    ((v &&& 0xF0F0F0F0F0F0F0F0#64)
      ||| (((v + 0x0606060606060606#64) &&& 0xF0F0F0F0F0F0F0F0#64) >>> 4))
    == 0x3333333333333333#64
  if !isDigits then none
  else
    let v1 := ((v &&& 0x0F0F0F0F0F0F0F0F#64) * 2561#64) >>> 8
    let v2 := ((v1 &&& 0x00FF00FF00FF00FF#64) * 6553601#64) >>> 16
    let v3 := ((v2 &&& 0x0000FFFF0000FFFF#64) * 42949672960001#64) >>> 32
    some v3

/-- `u64::from_le_bytes` of (at most) eight bytes: byte `i` lands in bits `8i..8i+7`. -/
def leU64 : Bytes → BitVec 64
  | [] => 0#64
  | b :: rest => (BitVec.ofNat 64 b.toNat) ||| (leU64 rest <<< 8)

/-! ### Date (date.rs:435-751) -/

structure Date where
  raw : RawDate
  deriving DecidableEq, Repr

namespace Date

def year (d : Date) : Int := d.raw.year
def month (d : Date) : Nat := d.raw.month
def day (d : Date) : Nat := d.raw.day

/-- date.rs:485 `from_ymd_opt`; `DAYS_PER_MONTH[usize::from(month)]` is a checked index. -/
def fromYmdOpt (year : Int) (month day : Nat) : Out Date :=
  (RawDate.fromYmdhOpt year month day 0).bind fun raw =>
    match daysPerMonth[month]? with
    | none => .panic
    | some days => if day ≤ days then .ok ⟨raw⟩ else .err

/-- date.rs:451 -/
def fromExpanded (e : Expanded) : Out Date :=
  if e.hour != 0 then .err else fromYmdOpt e.year e.month e.day

/-- date.rs:460 `days` (private): mirrored around year 0. -/
def days (d : Date) : Out Int :=
  match julianOrdinalDay d.month with
  | none => .panic
  | some monthDays =>
    let yearDay := d.year * 365
    if yearDay < 0 then .ok (yearDay - monthDays - (d.day : Int))
    else .ok (yearDay + monthDays + (d.day : Int))

/-- date.rs:526 `fast_parse_u64`: `none` = "not eight digits, use the fallback". -/
def fastParseU64 (r : BitVec 64) : Option (Out Date) :=
  match fastDigitParse r with
  | none => none
  | some v =>
    let val := v.toNat
    let day := val % 100
    let month := (val / 100) % 100
    let val := val / 10000
    some (fromExpanded ⟨asI16 val, month % 256, day % 256, 0⟩)

/-- date.rs:521 `fast_parse` -/
def fastParse (r : Bytes) : Option (Out Date) := fastParseU64 (leU64 r)

/-- date.rs:544 `fallback`: the component-wise parser. -/
def fallback (s : Bytes) : Out Date := (Expanded.parse s).bind fromExpanded

/-- date.rs:565-582: the `_` arm of `_parse`. -/
def parseOther (s : Bytes) : Out Date :=
  if s.length = 8 then
    -- YYYY.M.D
    let d := leU64 s
    let oneDigitMonth := (d &&& 0x00FF00FF00000000#64) == 0x002E002E00000000#64
    let e := (d &&& 0xFF30FF30FFFFFFFF#64) ||| 0x0030003000000000#64
    if oneDigitMonth then
      match fastParseU64 e with
      | some x => x
      | none => fallback s
    else fallback s
  else if s.length < 5 || s.length > 12 then .err
  else
    match s[0]? with
    | none => .panic            -- `s[0]` (cannot happen: length ≥ 5)
    | some c => if !(c == 45 || isDigit c) then .err else fallback s

/-- date.rs:551 `_parse`.  The three slice patterns are tried in source order. -/
def parse (s : Bytes) : Out Date :=
  match s with
  | [y1, y2, y3, y4, p1, m1, m2, p2, d1, d2] =>
    if p1 == 46 && p2 == 46 then
      match fastParse [y1, y2, y3, y4, m1, m2, d1, d2] with
      | some x => x
      | none => fallback s
    else parseOther s
  | [y1, y2, y3, y4, p1, c5, c6, c7, c8] =>
    if p1 == 46 && c7 == 46 then
      -- YYYY.MM.D
      match fastParse [y1, y2, y3, y4, c5, c6, 48, c8] with
      | some x => x
      | none => fallback s
    else if p1 == 46 && c6 == 46 then
      -- YYYY.M.DD
      match fastParse [y1, y2, y3, y4, 48, c5, c7, c8] with
      | some x => x
      | none => fallback s
    else parseOther s
  | _ => parseOther s

/-- date.rs:601 `days_until` -/
def daysUntil (self other : Date) : Out Int :=
  other.days.bind fun o => self.days.bind fun s => .ok (o - s)

/-- date.rs:620 `add_days` (`days` is an `i32`).  Panics: `checked_add` overflow,
year not an `i16`. -/
def addDays (self : Date) (days : Int) : Out Date :=
  self.days.bind fun sd =>
    let newDays := sd + days
    if !inI32 newDays then .panic
    else
      let daysSinceJan1 := (newDays.tmod 365).natAbs
      let year := newDays.tdiv 365
      match monthDayFromJulian daysSinceJan1 with
      | none => .panic
      | some (month, day) =>
        if !inI16 year then .panic
        else (RawDate.fromYmdh year month day self.raw.hour).map fun raw => ⟨raw⟩

/-- date.rs:640 `from_binary` (hour dropped) -/
def fromBinary (s : Int) : Out Date :=
  ((Expanded.fromBinary s).map fun x => { x with hour := 0 }).bind fromExpanded

/-- date.rs:660 `from_binary_heuristic` -/
def fromBinaryHeuristic (s : Int) : Out Date :=
  (Expanded.fromBinary s).bind fun x => if x.year > -100 then fromExpanded x else .err

/-- date.rs:678 `to_binary` -/
def toBinary (d : Date) : Out Int :=
  match julianOrdinalDay d.month with
  | none => .panic
  | some j => .ok (toBinaryRaw d.year (j + (d.day : Int)) 0)

/-- derived `Ord` -/
def cmp (a b : Date) : Ordering := a.raw.cmp b.raw

/-- game format of a `Date` is `DotShort` (date.rs:739) -/
def gameFmt (d : Date) : Out Bytes := format d.raw .dotShort
def iso8601 (d : Date) : Out Bytes := format d.raw .iso8601

end Date

/-! ### DateHour (date.rs:753-951) -/

structure DateHour where
  raw : RawDate
  deriving DecidableEq, Repr

namespace DateHour

def year (d : DateHour) : Int := d.raw.year
def month (d : DateHour) : Nat := d.raw.month
def day (d : DateHour) : Nat := d.raw.day
def hour (d : DateHour) : Nat := d.raw.hour

/-- date.rs:793 `from_ymdh_opt` -/
def fromYmdhOpt (year : Int) (month day hour : Nat) : Out DateHour :=
  (RawDate.fromYmdhOpt year month day hour).bind fun raw =>
    match daysPerMonth[month]? with
    | none => .panic
    | some days => if decide (hour > 0) && decide (day ≤ days) then .ok ⟨raw⟩ else .err

def fromExpanded (e : Expanded) : Out DateHour := fromYmdhOpt e.year e.month e.day e.hour

/-- date.rs:834 `parse` -/
def parse (s : Bytes) : Out DateHour := (Expanded.parse s).bind fromExpanded

/-- date.rs:842 `from_binary`: `raw.hour += 1` is a `u8` addition (panic on overflow under
overflow checks; the hour is `< 24` here). -/
def fromBinary (s : Int) : Out DateHour :=
  (Expanded.fromBinary s).bind fun raw =>
    if raw.hour + 1 > 255 then .panic
    else fromExpanded { raw with hour := raw.hour + 1 }

/-- date.rs:856 `from_binary_heuristic` -/
def fromBinaryHeuristic (s : Int) : Out DateHour :=
  (fromBinary s).bind fun x =>
    let isMinYear := x.year == 1 || x.year == -1
    let isMinDate := isMinYear && x.month == 1 && x.day == 1 && x.hour == 1
    if decide (x.year < 1800) && !isMinDate then .err else .ok x

/-- date.rs:876 `to_binary` -/
def toBinary (d : DateHour) : Out Int :=
  match julianOrdinalDay d.month with
  | none => .panic
  | some j => .ok (toBinaryRaw d.year (j + (d.day : Int)) d.hour)

def cmp (a b : DateHour) : Ordering := a.raw.cmp b.raw

def gameFmt (d : DateHour) : Out Bytes := format d.raw .dotShort
def iso8601 (d : DateHour) : Out Bytes := format d.raw .iso8601

end DateHour

/-! ### UniformDate (date.rs:953-1097) -/

structure UniformDate where
  raw : RawDate
  deriving DecidableEq, Repr

namespace UniformDate

def year (d : UniformDate) : Int := d.raw.year
def month (d : UniformDate) : Nat := d.raw.month
def day (d : UniformDate) : Nat := d.raw.day

/-- date.rs:994 `from_ymd_opt` -/
def fromYmdOpt (year : Int) (month day : Nat) : Out UniformDate :=
  if day > 30 then .err
  else (RawDate.fromYmdhOpt year month day 0).map fun raw => ⟨raw⟩

def fromExpanded (e : Expanded) : Out UniformDate :=
  if e.hour != 0 then .err else fromYmdOpt e.year e.month e.day

/-- date.rs:1023 `_parse` -/
def parse (s : Bytes) : Out UniformDate := (Expanded.parse s).bind fromExpanded

def cmp (a b : UniformDate) : Ordering := a.raw.cmp b.raw

/-- game format of a `UniformDate` is `DotWide` (date.rs:1085) -/
def gameFmt (d : UniformDate) : Out Bytes := format d.raw .dotWide
def iso8601 (d : UniformDate) : Out Bytes := format d.raw .iso8601

end UniformDate

/-! ### serde glue (date.rs `mod datederive`, feature `derive`) -/

/-- the `visit_*` call a deserializer makes on the date visitor after `deserialize_any`.
`str` stands for `visit_str`, `visit_borrowed_str`, `visit_string` (overridden to forward to
`visit_str`) and `visit_char` (serde's default encodes the char and calls `visit_str`);
`other` for every method the visitors do not override (`visit_bool`, `visit_i8/i16/i64`
— serde forwards the small ones to `visit_i64`, not to `visit_i32` —, `visit_u8…u64`,
`visit_f32/f64`, `visit_bytes`, `visit_unit`, `visit_seq`, `visit_map`, …), whose serde
default is `Err(invalid_type)`. -/
inductive LeafToken where
  | i32 (v : Int)
  | str (s : Bytes)
  | other
  deriving DecidableEq, Repr

/-- date.rs `DateVisitor`: `visit_i32 → Date::from_binary`, `visit_str → Date::parse` -/
def Date.visit : LeafToken → Out Date
  | .i32 v => Date.fromBinary v
  | .str s => Date.parse s
  | .other => .err

/-- date.rs `DateHourVisitor`: `visit_i32 → DateHour::from_binary`, `visit_str → DateHour::parse` -/
def DateHour.visit : LeafToken → Out DateHour
  | .i32 v => DateHour.fromBinary v
  | .str s => DateHour.parse s
  | .other => .err

/-- date.rs `UniformDateVisitor`: only `visit_str → UniformDate::parse` (no `visit_i32`) -/
def UniformDate.visit : LeafToken → Out UniformDate
  | .str s => UniformDate.parse s
  | _ => .err

/-- `Serialize for Date` / `DateHour`: `serialize_str(self.iso_8601().to_string())` -/
def Date.serialize (d : Date) : Out Bytes := d.iso8601
def DateHour.serialize (d : DateHour) : Out Bytes := d.iso8601

/-! ### remaining public entry points (thin wrappers) -/

/-- date.rs:503 `Date::from_ymd` = `from_ymd_opt(..).unwrap()` -/
def Date.fromYmd (year : Int) (month day : Nat) : Out Date :=
  match Date.fromYmdOpt year month day with
  | .ok d => .ok d
  | _ => .panic

/-- date.rs:813 `DateHour::from_ymdh` = `from_ymdh_opt(..).unwrap()` -/
def DateHour.fromYmdh (year : Int) (month day hour : Nat) : Out DateHour :=
  match DateHour.fromYmdhOpt year month day hour with
  | .ok d => .ok d
  | _ => .panic

/-- date.rs:1009 `UniformDate::from_ymd` = `from_ymd_opt(..).unwrap()` -/
def UniformDate.fromYmd (year : Int) (month day : Nat) : Out UniformDate :=
  match UniformDate.fromYmdOpt year month day with
  | .ok d => .ok d
  | _ => .panic

/-- `FromStr` of the four types is `parse(s.as_bytes())` (date.rs:429, 747, 947, 1093) -/
def RawDate.fromStr (s : Bytes) : Out RawDate := RawDate.parse s
def Date.fromStr (s : Bytes) : Out Date := Date.parse s
def DateHour.fromStr (s : Bytes) : Out DateHour := DateHour.parse s
def UniformDate.fromStr (s : Bytes) : Out UniformDate := UniformDate.parse s

/-- `PdsDate for RawDate` (date.rs:420-427): `game_fmt` is `DotShort` -/
def RawDate.gameFmt (r : RawDate) : Out Bytes := format r .dotShort
def RawDate.iso8601 (r : RawDate) : Out Bytes := format r .iso8601

/-- `PartialOrd::partial_cmp` (date.rs:302, and derived on the three wrappers): `Some(self.cmp(other))` -/
def RawDate.partialCmp (a b : RawDate) : Option Ordering := some (a.cmp b)

/-- ASCII bytes of a literal -/
def ascii (s : String) : Bytes := s.toList.map fun c => UInt8.ofNat c.toNat

/-- `Debug for RawDate` (date.rs:288): `RawDate { year: Y month: M day: D hour: H }` -/
def RawDate.debugFmt (r : RawDate) : Bytes :=
  ascii "RawDate { year: " ++ fmtInt 0 r.year ++ ascii " month: " ++ fmtInt 0 (r.month : Int) ++
    ascii " day: " ++ fmtInt 0 (r.day : Int) ++ ascii " hour: " ++ fmtInt 0 (r.hour : Int) ++ ascii " }"

/-- `Debug for Date` / `DateHour` / `UniformDate` (date.rs:446, 773, 966): the type name, a
space, the game format -/
def Date.debugFmt (d : Date) : Out Bytes := d.gameFmt.map fun t => ascii "Date " ++ t
def DateHour.debugFmt (d : DateHour) : Out Bytes := d.gameFmt.map fun t => ascii "DateHour " ++ t
def UniformDate.debugFmt (d : UniformDate) : Out Bytes := d.gameFmt.map fun t => ascii "UniformDate " ++ t

/-- `Display for DateError` (date.rs:18) -/
def dateErrorText : Bytes := ascii "unable to decode date"

end Jomini.Date
