import JominiModel.Model.BinTape
/-
The token vector of `BinaryTape` as a Rust `Vec` with its capacity contents: what
`parse_slice_into_tape` finds when it is handed a previously used tape (tape.rs:95-115:
`token_tape.clear(); token_tape.reserve(..)`, then the raw write of `Equal` into slot 0).

`buf` is the whole allocation (initialised prefix `len`, stale tokens of earlier parses behind it),
`view` what safe code can see.  Every operation the parser performs on the vector is given here
with its effect on `buf`/`len`; `Proofs/BinTapeReuse.lean` shows that each of them acts on `view`
exactly like the list operation of `Model/BinTape.lean`, whatever lies beyond `len` — except an
unchecked read at an index `≥ len`, which returns stale memory and is exactly where the list
model answers `ub`.
-/
namespace Jomini.BinTape
open Jomini

structure VecS where
  buf : List BTok
  len : Nat
  deriving Repr

namespace VecS

/-- what `as_slice()` / indexing / `get` see -/
def view (v : VecS) : Tape := v.buf.take v.len

/-- a vector holding exactly `t` (no spare capacity) -/
def ofList (t : Tape) : VecS := ⟨t, t.length⟩

/-- `Vec::clear` (`BinaryToken` needs no drop: only the length is reset) -/
def clear (v : VecS) : VecS := ⟨v.buf, 0⟩

/-- `ptr.add(i).write(x)` inside the allocation; growing the allocation when `i` is its end
(`reserve` / `alloc()` have made room) -/
def rawWrite (v : VecS) (i : Nat) (x : BTok) : VecS :=
  if i < v.buf.length then ⟨v.buf.set i x, v.len⟩ else ⟨v.buf ++ [x], v.len⟩

/-- `set_len` -/
def setLen (v : VecS) (n : Nat) : VecS := ⟨v.buf, n⟩

/-- copyless `alloc().init(x)`: write at `len`, `set_len(len + 1)` -/
def push (v : VecS) (x : BTok) : VecS := (v.rawWrite v.len x).setLen (v.len + 1)

/-- `Vec::pop` -/
def pop? (v : VecS) : Option (VecS × BTok) :=
  if v.len = 0 then none
  else match v.buf[v.len - 1]? with
    | some x => some (⟨v.buf, v.len - 1⟩, x)
    | none => none

/-- `get(i)` / `get_mut(i)`: bounds-checked against `len` -/
def get? (v : VecS) (i : Nat) : Option BTok := if i < v.len then v.buf[i]? else none

/-- `get_unchecked(i)`: whatever the allocation holds at `i` (stale memory beyond `len`);
`none` = outside the allocation -/
def getUnchecked (v : VecS) (i : Nat) : Option BTok := v.buf[i]?

/-- `*get_mut(i).unwrap() = x` for `i < len` -/
def setAt (v : VecS) (i : Nat) (x : BTok) : VecS := if i < v.len then ⟨v.buf.set i x, v.len⟩ else v

/-- a well-formed vector: the length does not exceed the allocation -/
def Wf (v : VecS) : Prop := v.len ≤ v.buf.length

end VecS

/-- `BinaryTapeParser::parse_slice_into_tape(data, &mut tape)` on a tape that was used before:
the vector is cleared (the raw write of `Equal` at slot 0 lies beyond the new length), the loop
starts on its view. -/
def parseInto (opt : Bool) (prev : VecS) (data : Bytes) : Except Err Tape :=
  run opt (data.length + 1) (data.length + 1) ⟨((prev.clear).rawWrite 0 .equal).view, 0, .key, data⟩

end Jomini.BinTape
