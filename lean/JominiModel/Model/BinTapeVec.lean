import JominiModel.Model.BinTape
/-
The token vector of `BinaryTape` as a Rust `Vec` with its capacity contents: what
`parse_slice_into_tape` finds when it is handed a previously used tape (tape.rs:95-115:
`token_tape.clear(); token_tape.reserve(..)`, then the raw write of `Equal` into slot 0).

`buf` is the whole allocation (initialised prefix `len`, stale tokens of earlier parses behind it),
`view` what safe code can see.  Every operation the parser performs on the vector is given here
with its effect on `buf`/`len`; `Proofs/BinTapeReuse.lean` shows that each of them acts on `view`
exactly like the list operation of `Model/BinTape.lean`, whatever lies beyond `len` — except an
unchecked read at an index `≥ len`, which returns stale memory and is exactly where the list
model answers `ub`.
-/
namespace Jomini.BinTape
open Jomini

structure VecS where
  buf : List BTok
  len : Nat
  deriving Repr

namespace VecS

/-- what `as_slice()` / indexing / `get` see -/
def view (v : VecS) : Tape := v.buf.take v.len

/-- a vector holding exactly `t` (no spare capacity) -/
def ofList (t : Tape) : VecS := ⟨t, t.length⟩

/-- `Vec::clear` (`BinaryToken` needs no drop: only the length is reset) -/
def clear (v : VecS) : VecS := ⟨v.buf, 0⟩

/-- `ptr.add(i).write(x)` inside the allocation; growing the allocation when `i` is its end
(`reserve` / `alloc()` have made room) -/
def rawWrite (v : VecS) (i : Nat) (x : BTok) : VecS :=
  if i < v.buf.length then ⟨v.buf.set i x, v.len⟩ else ⟨v.buf ++ [x], v.len⟩

/-- `set_len` -/
def setLen (v : VecS) (n : Nat) : VecS := ⟨v.buf, n⟩

/-- copyless `alloc().init(x)`: write at `len`, `set_len(len + 1)` -/
def push (v : VecS) (x : BTok) : VecS := (v.rawWrite v.len x).setLen (v.len + 1)

/-- `Vec::pop` -/
def pop? (v : VecS) : Option (VecS × BTok) :=
  if v.len = 0 then none
  else match v.buf[v.len - 1]? with
    | some x => some (⟨v.buf, v.len - 1⟩, x)
    | none => none

/-- `get(i)` / `get_mut(i)`: bounds-checked against `len` -/
def get? (v : VecS) (i : Nat) : Option BTok := if i < v.len then v.buf[i]? else none

/-- `get_unchecked(i)`: whatever the allocation holds at `i` (stale memory beyond `len`);
`none` = outside the allocation -/
def getUnchecked (v : VecS) (i : Nat) : Option BTok := v.buf[i]?

/-- `*get_mut(i).unwrap() = x` for `i < len` -/
def setAt (v : VecS) (i : Nat) (x : BTok) : VecS := if i < v.len then ⟨v.buf.set i x, v.len⟩ else v

/-- a well-formed vector: the length does not exceed the allocation -/
def Wf (v : VecS) : Prop := v.len ≤ v.buf.length

end VecS

/-! ## the parser over the vector with its capacity contents

The same functions as in `Model/BinTape.lean`, written against the vector primitives: bounds-checked
accesses (`get`, `get_mut`, `pop`, `is_empty`, `len`, the slice `get(parent_ind + 1..)`) go through
`get?` / `pop?` / `len` / `view`; `get_unchecked(_mut)` goes through `getUnchecked` / `setAtU` and
sees whatever the allocation holds. -/

/-- `*get_unchecked_mut(i) = x` -/
def VecS.setAtU (v : VecS) (i : Nat) (x : BTok) : VecS := ⟨v.buf.set i x, v.len⟩

def VecS.pushAll (v : VecS) : Tape → VecS
  | [] => v
  | x :: xs => (v.push x).pushAll xs

structure StV where
  vec : VecS
  parent : Nat
  state : PState
  data : Bytes
  deriving Repr

def StV.toSt (s : StV) : St := ⟨s.vec.view, s.parent, s.state, s.data⟩

/-- a `parse_*` helper (tape.rs:166-233): read the payload, `alloc().init(token)` -/
def parseV (P : Tape → Bytes → Except Err (Tape × Bytes)) (v : VecS) (d : Bytes) : Except Err (VecS × Bytes) :=
  match P [] d with
  | .error e => .error e
  | .ok (t, r) => .ok (v.pushAll t, r)

def scalarArmV (r : Except Err (VecS × Bytes)) (parent : Nat) (state : PState) : Except Err StV :=
  match r with
  | .error e => .error e
  | .ok (v', d') =>
    match nextState state with
    | none => .error .ub
    | some s' => .ok ⟨v', parent, s', d'⟩

def closeToV (v : VecS) (grand : Nat) : Except Err (VecS × Nat × PState) :=
  match v.getUnchecked grand with
  | some (BTok.array _) => .ok (v, grand, .arrayValue)
  | some _ => .ok (v, grand, .key)
  | none => .error .ub

def pushEndV (v : VecS) (parent : Nat) : Except Err (VecS × Nat × PState) :=
  match v.get? parent with
  | some (.array grand) => closeToV ((v.setAt parent (.array v.len)).push (.end_ parent)) grand
  | some (.object grand) => closeToV ((v.setAt parent (.object v.len)).push (.end_ parent)) grand
  | _ => .error .syntax

def setParentToObjectV (v : VecS) (parent : Nat) : Except Err VecS :=
  match v.getUnchecked parent with
  | some (.array e) => .ok (v.setAtU parent (.object e))
  | _ => .error .ub

def mixedInsert2V (v : VecS) : Except Err VecS :=
  match v.pop? with
  | none => .error .panic
  | some (v1, stashed1) =>
    match v1.pop? with
    | none => .error .panic
    | some (v2, stashed2) => .ok (((v2.push .mixed).push stashed2).push stashed1)

def mixedInsert1V (v : VecS) : Except Err VecS :=
  match v.pop? with
  | none => .error .panic
  | some (v1, stashed1) => .ok ((v1.push .mixed).push stashed1)

def i32LoopV : Nat → VecS → Nat → Bytes → Except Err StV
  | 0, _, _, _ => .error .fuel
  | fuel + 1, v, parent, nd =>
    match readId nd with
    | none => .error .eof
    | some (x, nd2) =>
      if x = L.i32 then
        match parseV parseI32 v nd2 with
        | .error e => .error e
        | .ok (v', nd') => i32LoopV fuel v' parent nd'
      else if x = L.close then
        match pushEndV v parent with
        | .error e => .error e
        | .ok (v', parent', state') => .ok ⟨v', parent', state', nd2⟩
      else .ok ⟨v, parent, .arrayValue, nd⟩

def equalArmV (v : VecS) (parent : Nat) (state : PState) (d : Bytes) : Except Err StV :=
  match state with
  | .keyValueSeparator => .ok ⟨v, parent, .objectValue, d⟩
  | .openSecond =>
    (match setParentToObjectV v parent with
      | .error e => .error e
      | .ok v' => .ok ⟨v', parent, .objectValue, d⟩)
  | .arrayValueMixed => .ok ⟨v.push .equal, parent, .arrayValueMixed, d⟩
  | .arrayValue =>
    (match v.pop? with
      | none => .error .ub
      | some (v1, last) =>
        match last with
        | .array _ => .error .syntax
        | .end_ _ => .error .syntax
        | _ =>
          if onlyEmpties v1.view parent then
            match setParentToObjectV v1 parent with
            | .error e => .error e
            | .ok v2 => .ok ⟨(v2.rawWrite (parent + 1) last).setLen (parent + 2), parent, .objectValue, d⟩
          else
            .ok ⟨((((v1.rawWrite v1.len .mixed).rawWrite (v1.len + 1) last).rawWrite (v1.len + 2) .equal).setLen (v1.len + 3)),
              parent, .arrayValueMixed, d⟩)
  | _ => .error .syntax

def openArmV (v : VecS) (parent : Nat) (state : PState) (d : Bytes) : Except Err StV :=
  if state ≠ .key then
    .ok ⟨v.push (.array parent), v.len, .openFirst, d⟩
  else if v.len = 0 then .error .syntax
  else
    match readId d with
    | none => .error .eof
    | some (x, nd) => if x = L.close then .ok ⟨v, parent, state, nd⟩ else .error .syntax

def closeArmV (v : VecS) (parent : Nat) (state : PState) (d : Bytes) : Except Err StV :=
  let pre : Except Err VecS :=
    match state with
    | .keyValueSeparator => mixedInsert1V v
    | .objectValue => .error .syntax
    | _ => .ok v
  match pre with
  | .error e => .error e
  | .ok v1 =>
    match pushEndV v1 parent with
    | .error e => .error e
    | .ok (v', parent', state') => .ok ⟨v', parent', state', d⟩

def tokenArmV (opt : Bool) (fuel : Nat) (v : VecS) (parent : Nat) (state : PState) (d : Bytes)
    (tok : Nat) : Except Err StV :=
  if tok = L.u32 then scalarArmV (parseV parseU32 v d) parent state
  else if tok = L.u64 then scalarArmV (parseV parseU64 v d) parent state
  else if tok = L.i32 then
    match scalarArmV (parseV parseI32 v d) parent state with
    | .error e => .error e
    | .ok st =>
      if opt ∧ st.state = .arrayValue then i32LoopV fuel st.vec st.parent st.data
      else .ok st
  else if tok = L.bool then scalarArmV (parseV parseBool v d) parent state
  else if tok = L.quoted then scalarArmV (parseV parseQuoted v d) parent state
  else if tok = L.unquoted then scalarArmV (parseV parseUnquoted v d) parent state
  else if tok = L.f32 then scalarArmV (parseV parseF32 v d) parent state
  else if tok = L.f64 then scalarArmV (parseV parseF64 v d) parent state
  else if tok = L.open_ then openArmV v parent state d
  else if tok = L.close then closeArmV v parent state d
  else if tok = L.equal then equalArmV v parent state d
  else if tok = L.rgb ∧ state = .objectValue then
    match parseV parseRgb v d with
    | .error e => .error e
    | .ok (v', d') => .ok ⟨v', parent, .key, d'⟩
  else if tok = L.i64 then scalarArmV (parseV parseI64 v d) parent state
  else scalarArmV (.ok (v.push (.token tok), d)) parent state

def dispatchV (opt : Bool) (fuel : Nat) (v : VecS) (parent : Nat) (state : PState) (d : Bytes)
    (tok : Nat) : Except Err StV :=
  if state = .objectToArray then
    match mixedInsert2V v with
    | .error e => .error e
    | .ok v' => tokenArmV opt fuel v' parent .arrayValueMixed d tok
  else tokenArmV opt fuel v parent state d tok

inductive FPV where
  | cont (st : StV)
  | fall (v : VecS) (parent : Nat) (state : PState) (d : Bytes) (tok : Nat)
  | err (e : Err)

@[inline] def FPV.withId (d : Bytes) (k : Nat → Bytes → FPV) : FPV :=
  match readId d with
  | none => .err .eof
  | some (t, rest) => k t rest

@[inline] def FPV.withParse (r : Except Err (VecS × Bytes)) (k : VecS → Bytes → FPV) : FPV :=
  match r with
  | .error e => .err e
  | .ok (v', d') => k v' d'

def arrLoopV (k : EKind) : Nat → VecS → Nat → Bytes → FPV
  | 0, _, _, _ => .err .fuel
  | fuel + 1, v, parent, nd =>
    match readId nd with
    | none => .err .eof
    | some (x, nd2) =>
      if x = k.lex then
        match parseV (parseElem k) v nd2 with
        | .error e => .err e
        | .ok (v', nd') => arrLoopV k fuel v' parent nd'
      else if x = L.close then
        match v.getUnchecked parent with
        | some (.array grand) =>
          .cont ⟨(v.setAtU parent (.array v.len)).push (.end_ parent), grand, .key, nd2⟩
        | _ => .err .ub
      else .fall v parent .arrayValue nd2 x

def arrayFieldV (k : EKind) (fuel : Nat) (v : VecS) (parent : Nat) (d4 : Bytes) : FPV :=
  FPV.withParse (parseV (parseElem k) v d4) fun v1 d4' =>
  FPV.withId d4' fun t5 d5 =>
  if t5 = k.lex then
    FPV.withParse (parseV (parseElem k) v1 d5) fun v2 nd => arrLoopV k fuel v2 parent nd
  else .fall v1 parent .openSecond d5 t5

def tokenKeyFastV (fuel : Nat) (v : VecS) (parent : Nat) (d : Bytes) : FPV :=
  FPV.withId d fun t2 d2 =>
  if t2 = L.equal then
    FPV.withId d2 fun t3 d3 =>
    if t3 = L.i32 then
      FPV.withParse (parseV parseI32 v d3) fun v' data => .cont ⟨v', parent, .key, data⟩
    else if t3 = L.open_ then
      let ind := v.len
      let v1 := v.push (.array parent)
      FPV.withId d3 fun t4 d4 =>
      if t4 = L.i32 then arrayFieldV .i32 fuel v1 ind d4
      else if t4 = L.quoted then arrayFieldV .quoted fuel v1 ind d4
      else if t4 = L.f32 then arrayFieldV .f32 fuel v1 ind d4
      else if isPlainId t4 ∨ t4 = 0xb then
        let v2 := v1.push (.token t4)
        FPV.withId d4 fun t5 d5 =>
        if t5 = L.equal then
          match setParentToObjectV v2 ind with
          | .error e => .err e
          | .ok v3 => FPV.withId d5 fun t6 d6 => .fall v3 ind .objectValue d6 t6
        else .fall v2 ind .openSecond d5 t5
      else .fall v1 ind .openFirst d4 t4
    else if t3 = L.quoted then
      FPV.withParse (parseV parseQuoted v d3) fun v' data => .cont ⟨v', parent, .key, data⟩
    else if t3 = L.f32 then
      FPV.withParse (parseV parseF32 v d3) fun v' data => .cont ⟨v', parent, .key, data⟩
    else .fall v parent .objectValue d3 t3
  else .fall v parent .keyValueSeparator d2 t2

def quotedKeyFastV (v : VecS) (parent : Nat) (d : Bytes) : FPV :=
  FPV.withParse (parseV parseQuoted v d) fun v1 d2 =>
  FPV.withId d2 fun t2 d3 =>
  if t2 = L.equal then
    FPV.withId d3 fun t3 d4 =>
    if t3 = L.open_ then
      let ind := v1.len
      let v2 := v1.push (.array parent)
      FPV.withId d4 fun t e1 =>
      if isPlainId t then
        let v3 := v2.push (.token t)
        FPV.withId e1 fun t' e2 =>
        if t' = L.equal then
          match setParentToObjectV v3 ind with
          | .error e => .err e
          | .ok v4 =>
            FPV.withId e2 fun t'' e3 =>
            if t'' = L.bool then
              FPV.withParse (parseV parseBool v4 e3) fun v5 data => .cont ⟨v5, ind, .key, data⟩
            else if t'' = L.quoted then
              FPV.withParse (parseV parseQuoted v4 e3) fun v5 data => .cont ⟨v5, ind, .key, data⟩
            else .fall v4 ind .objectValue e3 t''
        else .fall v3 ind .openSecond e2 t'
      else .fall v2 ind .openFirst e1 t
    else .fall v1 parent .objectValue d4 t3
  else .fall v1 parent .keyValueSeparator d3 t2

def i32KeyFastV (v : VecS) (parent : Nat) (d : Bytes) : FPV :=
  FPV.withParse (parseV parseI32 v d) fun v1 d2 =>
  FPV.withId d2 fun t2 d3 =>
  if t2 = L.equal then
    FPV.withId d3 fun t3 d4 =>
    if t3 = L.i32 then
      FPV.withParse (parseV parseI32 v1 d4) fun v2 data => .cont ⟨v2, parent, .key, data⟩
    else .fall v1 parent .objectValue d4 t3
  else .fall v1 parent .keyValueSeparator d3 t2

def keyFastV (fuel : Nat) (v : VecS) (parent : Nat) (d : Bytes) (tok : Nat) : FPV :=
  if tok > L.unquoted ∨ tok = 0xb then
    if tok ≠ L.f64 ∧ tok ≠ L.u64 ∧ tok ≠ L.i64 then
      tokenKeyFastV fuel (v.push (.token tok)) parent d
    else .fall v parent .key d tok
  else if tok = L.close then
    match pushEndV v parent with
    | .error e => .err e
    | .ok (v', parent', state') => .cont ⟨v', parent', state', d⟩
  else if tok = L.quoted then quotedKeyFastV v parent d
  else if tok = L.i32 then i32KeyFastV v parent d
  else .fall v parent .key d tok

inductive IterV where
  | done
  | next (st : StV)
  | err (e : Err)

def IterV.ofExcept : Except Err StV → IterV
  | .ok st => .next st
  | .error e => .err e

def iterV (opt : Bool) (fuel : Nat) (st : StV) : IterV :=
  match readId st.data with
  | none => .done
  | some (tok, d) =>
    if opt ∧ st.state = .key then
      match keyFastV fuel st.vec st.parent d tok with
      | .cont st' => .next st'
      | .err e => .err e
      | .fall v parent state d' tok' => IterV.ofExcept (dispatchV opt fuel v parent state d' tok')
    else IterV.ofExcept (dispatchV opt fuel st.vec st.parent st.state d tok)

def runV (opt : Bool) (fuel : Nat) : Nat → StV → Except Err Tape
  | 0, _ => .error .fuel
  | n + 1, st =>
    match iterV opt fuel st with
    | .done => finish st.toSt
    | .err e => .error e
    | .next st' => runV opt fuel n st'

/-- `BinaryTapeParser::parse_slice_into_tape(data, &mut tape)` on a tape that was used before
(tape.rs:95-115): `clear()`, the raw write of `Equal` into slot 0, then the loop over the vector
itself — stale tokens of the previous parse lie behind its length. -/
def parseInto (opt : Bool) (prev : VecS) (data : Bytes) : Except Err Tape :=
  runV opt (data.length + 1) (data.length + 1) ⟨(prev.clear).rawWrite 0 .equal, 0, .key, data⟩

end Jomini.BinTape
