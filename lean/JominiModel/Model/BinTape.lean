import JominiModel.Model.Basic
/-
Model of the binary tape parser, /repo/src/binary/tape.rs:95-688
(`parse_slice_into_tape_core`, `ParserState::parse`, `next_state`, `set_parent_to_object`,
`push_end!`, `parse_array_field!`, `mixed_insert1/2`) together with the slice readers of
/repo/src/binary/lexer.rs:86-168 it calls (`read_id`, `read_string`, `read_bool`, `read_u32`,
`read_u64`, `read_i64`, `read_i32`, `read_f32`, `read_f64`, `read_rgb`) and
/repo/src/copyless.rs (`alloc().init(x)` = append).

* `parse true`  = `parse_slice_into_tape`              (ENABLE_OPTIMIZATION = true)
* `parse false` = `parse_slice_into_tape_unoptimized`  (ENABLE_OPTIMIZATION = false, the plain
  one-token-at-a-time interpretation; compiled under `--cfg unoptimized_build`).

The tape is a `List BTok`; `alloc().init(x)` is `tape ++ [x]`; the three raw writes past
`len` followed by `set_len` (tape.rs:611-622) are appends / a truncation.  Error *positions*
are not modelled (errors are collapsed to `eof` / `syntax`).

Guards the Rust relies on without checking are explicit outcomes:
* `ub`    — `transmute` of a non-state in `next_state`, `get_unchecked(_mut)` out of range,
            `unwrap_unchecked` on an empty tape, `unreachable_unchecked` in
            `set_parent_to_object` / the fast array close;
* `panic` — the `debug_assert!(false, "empty token tape")` of `mixed_insert1/2` (a silent return
            without debug assertions);
* `fuel`  — the explicit fuel of the model's loops ran out (never, see `Proofs/BinTape*.lean`).
-/
namespace Jomini.BinTape
open Jomini

/-- tape.rs:12 `BinaryToken`.  Integers are mathematical values (`u32/u64` as `Nat`,
`i32/i64` as `Int`), floats are their raw little-endian bytes, scalars are byte strings. -/
inductive BTok where
  | array (end_ : Nat)
  | object (end_ : Nat)
  | mixed
  | equal
  | end_ (idx : Nat)
  | bool (b : Bool)
  | u32 (v : Nat)
  | u64 (v : Nat)
  | i64 (v : Int)
  | i32 (v : Int)
  | quoted (b : Bytes)
  | unquoted (b : Bytes)
  | f32 (b : Bytes)
  | f64 (b : Bytes)
  | token (id : Nat)
  | rgb (r g b : Nat) (a : Option Nat)
  deriving DecidableEq, Repr

inductive Err where
  | eof | syntax | panic | ub | fuel
  deriving DecidableEq, Repr

/-! ## lexeme ids (lexer.rs:11-48) -/
namespace L
def open_ : Nat := 0x0003
def close : Nat := 0x0004
def equal : Nat := 0x0001
def u32 : Nat := 0x0014
def u64 : Nat := 0x029c
def i32 : Nat := 0x000c
def bool : Nat := 0x000e
def quoted : Nat := 0x000f
def unquoted : Nat := 0x0017
def f32 : Nat := 0x000d
def f64 : Nat := 0x0167
def rgb : Nat := 0x0243
def i64 : Nat := 0x0317
end L

/-! ## slice readers (lexer.rs) -/

/-- `get_split::<2>` + `u16::from_le_bytes` (lexer.rs:86 `read_id`, tape.rs:155). -/
def readId : Bytes → Option (Nat × Bytes)
  | a :: b :: rest => some (a.toNat + 256 * b.toNat, rest)
  | _ => none

/-- little-endian value of a byte string -/
def leNat : Bytes → Nat
  | [] => 0
  | x :: xs => x.toNat + 256 * leNat xs

/-- `get_split::<N>` -/
def split? (n : Nat) (d : Bytes) : Option (Bytes × Bytes) :=
  if n ≤ d.length then some (d.take n, d.drop n) else none

/-- two's complement reading of an unsigned `bits`-bit value -/
def toSigned (bits : Nat) (v : Nat) : Int :=
  if v < 2 ^ (bits - 1) then (v : Int) else (v : Int) - (2 ^ bits : Nat)

/-- lexer.rs:92 `read_string` -/
def readString (d : Bytes) : Option (Bytes × Bytes) :=
  match readId d with
  | none => none
  | some (len, rest) => if len ≤ rest.length then some (rest.take len, rest.drop len) else none

/-- lexer.rs:104 `read_bool` -/
def readBool : Bytes → Option (Bool × Bytes)
  | [] => none
  | x :: rest => some (x != 0, rest)

/-- lexer.rs:143 `read_rgb`: all eight reads first (each may hit the end), then the shape test. -/
def readRgb (d : Bytes) : Except Err (BTok × Bytes) :=
  match readId d with
  | none => .error .eof
  | some (start, d) =>
  match readId d with
  | none => .error .eof
  | some (rtok, d) =>
  match split? 4 d with
  | none => .error .eof
  | some (r, d) =>
  match readId d with
  | none => .error .eof
  | some (gtok, d) =>
  match split? 4 d with
  | none => .error .eof
  | some (g, d) =>
  match readId d with
  | none => .error .eof
  | some (btok, d) =>
  match split? 4 d with
  | none => .error .eof
  | some (b, d) =>
  match readId d with
  | none => .error .eof
  | some (next, d) =>
    if start = L.open_ ∧ rtok = L.u32 ∧ gtok = L.u32 ∧ btok = L.u32 ∧ next = L.close then
      .ok (.rgb (leNat r) (leNat g) (leNat b) none, d)
    else if start = L.open_ ∧ rtok = L.u32 ∧ gtok = L.u32 ∧ btok = L.u32 ∧ next = L.u32 then
      match split? 4 d with
      | none => .error .eof
      | some (a, d) =>
      match readId d with
      | none => .error .eof
      | some (e, d) =>
        if e = L.close then .ok (.rgb (leNat r) (leNat g) (leNat b) (some (leNat a)), d)
        else .error .syntax
    else .error .syntax

/-! ## `parse_*` helpers of tape.rs:166-233: read a payload, append the token -/

abbrev Tape := List BTok

def parseFixed (n : Nat) (mk : Bytes → BTok) (tape : Tape) (d : Bytes) : Except Err (Tape × Bytes) :=
  match split? n d with
  | none => .error .eof
  | some (h, rest) => .ok (tape ++ [mk h], rest)

def parseU32 := parseFixed 4 (fun h => .u32 (leNat h))
def parseU64 := parseFixed 8 (fun h => .u64 (leNat h))
def parseI64 := parseFixed 8 (fun h => .i64 (toSigned 64 (leNat h)))
def parseI32 := parseFixed 4 (fun h => .i32 (toSigned 32 (leNat h)))
def parseF32 := parseFixed 4 (fun h => .f32 h)
def parseF64 := parseFixed 8 (fun h => .f64 h)

def parseBool (tape : Tape) (d : Bytes) : Except Err (Tape × Bytes) :=
  match readBool d with
  | none => .error .eof
  | some (b, rest) => .ok (tape ++ [.bool b], rest)

def parseQuoted (tape : Tape) (d : Bytes) : Except Err (Tape × Bytes) :=
  match readString d with
  | none => .error .eof
  | some (s, rest) => .ok (tape ++ [.quoted s], rest)

def parseUnquoted (tape : Tape) (d : Bytes) : Except Err (Tape × Bytes) :=
  match readString d with
  | none => .error .eof
  | some (s, rest) => .ok (tape ++ [.unquoted s], rest)

def parseRgb (tape : Tape) (d : Bytes) : Except Err (Tape × Bytes) :=
  match readRgb d with
  | .error e => .error e
  | .ok (t, rest) => .ok (tape ++ [t], rest)

/-! ## `ParseState` (tape.rs:124-147) and `next_state` (tape.rs:236-241) -/

inductive PState where
  | arrayValue | arrayValueMixed | objectValue | key | keyValueSeparator
  | objectToArray | openFirst | openSecond
  deriving DecidableEq, Repr

/-- `state as u8` -/
def PState.toU8 : PState → UInt8
  | .arrayValue => 0
  | .arrayValueMixed => 2
  | .objectValue => 4
  | .key => 8
  | .keyValueSeparator => 16
  | .objectToArray => 32
  | .openFirst => 64
  | .openSecond => 128

/-- `transmute::<u8, ParseState>`: defined exactly on the eight discriminants. -/
def PState.ofU8? (x : UInt8) : Option PState :=
  if x = 0 then some .arrayValue
  else if x = 2 then some .arrayValueMixed
  else if x = 4 then some .objectValue
  else if x = 8 then some .key
  else if x = 16 then some .keyValueSeparator
  else if x = 32 then some .objectToArray
  else if x = 64 then some .openFirst
  else if x = 128 then some .openSecond
  else none

/-- tape.rs:236 `next_state`: `num.wrapping_mul(2) - (num & 2)` on `u8`, then `transmute`;
`none` = the transmute of a non-discriminant (undefined behaviour). -/
def nextState (s : PState) : Option PState :=
  let num := s.toU8
  let offset := num &&& 2
  let next := num * 2 - offset
  PState.ofU8? next

/-! ## tape surgery -/

/-- tape.rs:244 `set_parent_to_object` (`get_unchecked_mut`, `unreachable_unchecked`). -/
def setParentToObject (tape : Tape) (parent : Nat) : Except Err Tape :=
  match tape[parent]? with
  | some (.array e) => .ok (tape.set parent (.object e))
  | _ => .error .ub

/-- `Vec::pop` -/
def pop? (tape : Tape) : Option (Tape × BTok) :=
  match tape.getLast? with
  | none => none
  | some x => some (tape.dropLast, x)

/-- tape.rs:654 `mixed_insert2` -/
def mixedInsert2 (tape : Tape) : Except Err Tape :=
  match pop? tape with
  | none => .error .panic
  | some (t1, stashed1) =>
    match pop? t1 with
    | none => .error .panic
    | some (t2, stashed2) => .ok (t2 ++ [.mixed, stashed2, stashed1])

/-- tape.rs:677 `mixed_insert1` -/
def mixedInsert1 (tape : Tape) : Except Err Tape :=
  match pop? tape with
  | none => .error .panic
  | some (t1, stashed1) => .ok (t1 ++ [.mixed, stashed1])

/-- the loop-carried variables of `parse` (tape.rs:257-261): tape, `parent_ind`, `state`, `data`. -/
structure St where
  tape : Tape
  parent : Nat
  state : PState
  data : Bytes
  deriving DecidableEq, Repr

/-- tape.rs:273-276: `state = match get_unchecked(grand_ind) { Array(_) => ArrayValue, _ => Key }`
evaluated on the tape that already holds the new `End`. -/
def closeTo (tape' : Tape) (grand : Nat) : Except Err (Tape × Nat × PState) :=
  match tape'[grand]? with
  | some (BTok.array _) => .ok (tape', grand, .arrayValue)
  | some _ => .ok (tape', grand, .key)
  | none => .error .ub

/-- tape.rs:263 `push_end!`: returns the new tape, `parent_ind` and `state`. -/
def pushEnd (tape : Tape) (parent : Nat) : Except Err (Tape × Nat × PState) :=
  match tape[parent]? with
  | some (.array grand) => closeTo (tape.set parent (.array tape.length) ++ [.end_ parent]) grand
  | some (.object grand) => closeTo (tape.set parent (.object tape.length) ++ [.end_ parent]) grand
  | _ => .error .syntax

/-- tape.rs:600-609: is everything after the parent a run of empty containers
`[Array(x), End(y)]` with `x == y + 1` (`chunks_exact(2)` ignores an odd trailing token). -/
def allEmptyPairs : Tape → Bool
  | .array x :: .end_ y :: rest => (x == y + 1) && allEmptyPairs rest
  | _ :: _ :: _ => false
  | _ => true

def onlyEmpties (tape : Tape) (parent : Nat) : Bool :=
  let rest := tape.drop (parent + 1)
  decide (rest.length / 2 > 0) && allEmptyPairs rest

/-! ## the main `match token_id` (tape.rs:482-642) -/

/-- a scalar arm: `data = self.parse_x(d)?; state = Self::next_state(state);` -/
def scalarArm (r : Except Err (Tape × Bytes)) (parent : Nat) (state : PState) : Except Err St :=
  match r with
  | .error e => .error e
  | .ok (tape', d') =>
    match nextState state with
    | none => .error .ub
    | some s' => .ok ⟨tape', parent, s', d'⟩

/-- tape.rs:504-520: after an `I32` that leaves the parser in `ArrayValue`, swallow the
following `I32`s and the closing `}` in one go. -/
def i32Loop : Nat → Tape → Nat → Bytes → Except Err St
  | 0, _, _, _ => .error .fuel
  | fuel + 1, tape, parent, nd =>
    match readId nd with
    | none => .error .eof
    | some (x, nd2) =>
      if x = L.i32 then
        match parseI32 tape nd2 with
        | .error e => .error e
        | .ok (tape', nd') => i32Loop fuel tape' parent nd'
      else if x = L.close then
        match pushEnd tape parent with
        | .error e => .error e
        | .ok (tape', parent', state') => .ok ⟨tape', parent', state', nd2⟩
      else .ok ⟨tape, parent, .arrayValue, nd⟩

/-- tape.rs:580-628, the `L::EQUAL` arm. -/
def equalArm (tape : Tape) (parent : Nat) (state : PState) (d : Bytes) : Except Err St :=
  match state with
  | .keyValueSeparator => .ok ⟨tape, parent, .objectValue, d⟩
  | .openSecond =>
    (match setParentToObject tape parent with
      | .error e => .error e
      | .ok tape' => .ok ⟨tape', parent, .objectValue, d⟩)
  | .arrayValueMixed => .ok ⟨tape ++ [.equal], parent, .arrayValueMixed, d⟩
  | .arrayValue =>
    (match pop? tape with
      | none => .error .ub
      | some (t1, last) =>
        match last with
        | .array _ => .error .syntax
        | .end_ _ => .error .syntax
        | _ =>
          if onlyEmpties t1 parent then
            match setParentToObject t1 parent with
            | .error e => .error e
            | .ok t2 => .ok ⟨t2.take (parent + 1) ++ [last], parent, .objectValue, d⟩
          else .ok ⟨t1 ++ [.mixed, last, .equal], parent, .arrayValueMixed, d⟩)
  | _ => .error .syntax

/-- tape.rs:543-561, the `L::OPEN` arm. -/
def openArm (tape : Tape) (parent : Nat) (state : PState) (d : Bytes) : Except Err St :=
  if state ≠ .key then
    .ok ⟨tape ++ [.array parent], tape.length, .openFirst, d⟩
  else if tape.isEmpty then .error .syntax
  else
    match readId d with
    | none => .error .eof
    | some (x, nd) => if x = L.close then .ok ⟨tape, parent, state, nd⟩ else .error .syntax

/-- tape.rs:562-579, the `L::CLOSE` arm. -/
def closeArm (tape : Tape) (parent : Nat) (state : PState) (d : Bytes) : Except Err St :=
  let pre : Except Err Tape :=
    match state with
    | .keyValueSeparator => mixedInsert1 tape
    | .objectValue => .error .syntax
    | _ => .ok tape
  match pre with
  | .error e => .error e
  | .ok tape1 =>
    match pushEnd tape1 parent with
    | .error e => .error e
    | .ok (tape', parent', state') => .ok ⟨tape', parent', state', d⟩

/-- tape.rs:491-642 after the `ObjectToArray` rewrite: one token `tok` (payload at `d`) in
state `state`. -/
def tokenArm (opt : Bool) (fuel : Nat) (tape : Tape) (parent : Nat) (state : PState) (d : Bytes)
    (tok : Nat) : Except Err St :=
  if tok = L.u32 then scalarArm (parseU32 tape d) parent state
  else if tok = L.u64 then scalarArm (parseU64 tape d) parent state
  else if tok = L.i32 then
    match scalarArm (parseI32 tape d) parent state with
    | .error e => .error e
    | .ok st =>
      if opt ∧ st.state = .arrayValue then i32Loop fuel st.tape st.parent st.data
      else .ok st
  else if tok = L.bool then scalarArm (parseBool tape d) parent state
  else if tok = L.quoted then scalarArm (parseQuoted tape d) parent state
  else if tok = L.unquoted then scalarArm (parseUnquoted tape d) parent state
  else if tok = L.f32 then scalarArm (parseF32 tape d) parent state
  else if tok = L.f64 then scalarArm (parseF64 tape d) parent state
  else if tok = L.open_ then openArm tape parent state d
  else if tok = L.close then closeArm tape parent state d
  else if tok = L.equal then equalArm tape parent state d
  else if tok = L.rgb ∧ state = .objectValue then
    match parseRgb tape d with
    | .error e => .error e
    | .ok (tape', d') => .ok ⟨tape', parent, .key, d'⟩
  else if tok = L.i64 then scalarArm (parseI64 tape d) parent state
  else scalarArm (.ok (tape ++ [.token tok], d)) parent state

/-- tape.rs:482-642: the `ObjectToArray` rewrite, then the token match. -/
def dispatch (opt : Bool) (fuel : Nat) (tape : Tape) (parent : Nat) (state : PState) (d : Bytes)
    (tok : Nat) : Except Err St :=
  if state = .objectToArray then
    match mixedInsert2 tape with
    | .error e => .error e
    | .ok tape' => tokenArm opt fuel tape' parent .arrayValueMixed d tok
  else tokenArm opt fuel tape parent state d tok

/-! ## the key fast paths (tape.rs:290-480) -/

/-- outcome of the fast-path prelude of one loop iteration -/
inductive FP where
  /-- `continue 'outer` with these loop variables -/
  | cont (st : St)
  /-- fall through to tape.rs:482 with the (possibly advanced) `tape, parent_ind, state, d, token_id` -/
  | fall (tape : Tape) (parent : Nat) (state : PState) (d : Bytes) (tok : Nat)
  | err (e : Err)
  deriving DecidableEq, Repr

/-- `let (d', id) = self.parse_next_id(d)?; k id d'` -/
@[inline] def FP.withId (d : Bytes) (k : Nat → Bytes → FP) : FP :=
  match readId d with
  | none => .err .eof
  | some (t, rest) => k t rest

/-- `let d' = self.parse_x(d)?; k tape' d'` -/
@[inline] def FP.withParse (r : Except Err (Tape × Bytes)) (k : Tape → Bytes → FP) : FP :=
  match r with
  | .error e => .err e
  | .ok (tape', d') => k tape' d'

/-- the three element kinds of `parse_array_field!` (tape.rs:357-362) -/
inductive EKind where
  | i32 | quoted | f32
  deriving DecidableEq, Repr

def EKind.lex : EKind → Nat
  | .i32 => L.i32
  | .quoted => L.quoted
  | .f32 => L.f32

def parseElem : EKind → Tape → Bytes → Except Err (Tape × Bytes)
  | .i32 => parseI32
  | .quoted => parseQuoted
  | .f32 => parseF32

/-- tape.rs:318-347, the inner `loop` of `parse_array_field!`. -/
def arrLoop (k : EKind) : Nat → Tape → Nat → Bytes → FP
  | 0, _, _, _ => .err .fuel
  | fuel + 1, tape, parent, nd =>
    match readId nd with
    | none => .err .eof
    | some (x, nd2) =>
      if x = k.lex then
        match parseElem k tape nd2 with
        | .error e => .err e
        | .ok (tape', nd') => arrLoop k fuel tape' parent nd'
      else if x = L.close then
        match tape[parent]? with
        | some (.array grand) =>
          .cont ⟨tape.set parent (.array tape.length) ++ [.end_ parent], grand, .key, nd2⟩
        | _ => .err .ub
      else .fall tape parent .arrayValue nd2 x

/-- tape.rs:311-354 `parse_array_field!($fn, $token)`; `d4` points at the first payload. -/
def arrayField (k : EKind) (fuel : Nat) (tape : Tape) (parent : Nat) (d4 : Bytes) : FP :=
  FP.withParse (parseElem k tape d4) fun tape1 d4' =>
  FP.withId d4' fun t5 d5 =>
  if t5 = k.lex then
    FP.withParse (parseElem k tape1 d5) fun tape2 nd => arrLoop k fuel tape2 parent nd
  else .fall tape1 parent .openSecond d5 t5

/-- "an id that may be pushed as `Token`": `> UNQUOTED` and none of the typed lexemes with a
larger id (tape.rs:294, 363-366, 424-427; `RGB` is deliberately let through: outside
`ObjectValue` the plain loop pushes it as a `Token` as well). -/
def isPlainId (t : Nat) : Bool :=
  decide (t > L.unquoted) && decide (t ≠ L.f64) && decide (t ≠ L.u64) && decide (t ≠ L.i64)

/-- tape.rs:295-402: a token-id key has just been pushed (`tape` already contains it). -/
def tokenKeyFast (fuel : Nat) (tape : Tape) (parent : Nat) (d : Bytes) : FP :=
  FP.withId d fun t2 d2 =>
  if t2 = L.equal then
    FP.withId d2 fun t3 d3 =>
    if t3 = L.i32 then
      FP.withParse (parseI32 tape d3) fun tape' data => .cont ⟨tape', parent, .key, data⟩
    else if t3 = L.open_ then
      let ind := tape.length
      let tape1 := tape ++ [.array parent]
      FP.withId d3 fun t4 d4 =>
      if t4 = L.i32 then arrayField .i32 fuel tape1 ind d4
      else if t4 = L.quoted then arrayField .quoted fuel tape1 ind d4
      else if t4 = L.f32 then arrayField .f32 fuel tape1 ind d4
      else if isPlainId t4 ∨ t4 = 0xb then
        let tape2 := tape1 ++ [.token t4]
        FP.withId d4 fun t5 d5 =>
        if t5 = L.equal then
          match setParentToObject tape2 ind with
          | .error e => .err e
          | .ok tape3 => FP.withId d5 fun t6 d6 => .fall tape3 ind .objectValue d6 t6
        else .fall tape2 ind .openSecond d5 t5
      else .fall tape1 ind .openFirst d4 t4
    else if t3 = L.quoted then
      FP.withParse (parseQuoted tape d3) fun tape' data => .cont ⟨tape', parent, .key, data⟩
    else if t3 = L.f32 then
      FP.withParse (parseF32 tape d3) fun tape' data => .cont ⟨tape', parent, .key, data⟩
    else .fall tape parent .objectValue d3 t3
  else .fall tape parent .keyValueSeparator d2 t2

/-- tape.rs:408-457: a quoted-string key. -/
def quotedKeyFast (tape : Tape) (parent : Nat) (d : Bytes) : FP :=
  FP.withParse (parseQuoted tape d) fun tape1 d2 =>
  FP.withId d2 fun t2 d3 =>
  if t2 = L.equal then
    FP.withId d3 fun t3 d4 =>
    if t3 = L.open_ then
      let ind := tape1.length
      let tape2 := tape1 ++ [.array parent]
      FP.withId d4 fun t d' =>
      if isPlainId t then
        let tape3 := tape2 ++ [.token t]
        FP.withId d' fun t' d'' =>
        if t' = L.equal then
          match setParentToObject tape3 ind with
          | .error e => .err e
          | .ok tape4 =>
            FP.withId d'' fun t'' d''' =>
            if t'' = L.bool then
              FP.withParse (parseBool tape4 d''') fun tape5 data => .cont ⟨tape5, ind, .key, data⟩
            else if t'' = L.quoted then
              FP.withParse (parseQuoted tape4 d''') fun tape5 data => .cont ⟨tape5, ind, .key, data⟩
            else .fall tape4 ind .objectValue d''' t''
        else .fall tape3 ind .openSecond d'' t'
      else .fall tape2 ind .openFirst d' t
    else .fall tape1 parent .objectValue d4 t3
  else .fall tape1 parent .keyValueSeparator d3 t2

/-- tape.rs:458-479: an `I32` key. -/
def i32KeyFast (tape : Tape) (parent : Nat) (d : Bytes) : FP :=
  FP.withParse (parseI32 tape d) fun tape1 d2 =>
  FP.withId d2 fun t2 d3 =>
  if t2 = L.equal then
    FP.withId d3 fun t3 d4 =>
    if t3 = L.i32 then
      FP.withParse (parseI32 tape1 d4) fun tape2 data => .cont ⟨tape2, parent, .key, data⟩
    else .fall tape1 parent .objectValue d4 t3
  else .fall tape1 parent .keyValueSeparator d3 t2

/-- tape.rs:290-480, entered with `state == Key`: `tok` is the id just read, `d` the data
after it. -/
def keyFast (fuel : Nat) (tape : Tape) (parent : Nat) (d : Bytes) (tok : Nat) : FP :=
  if tok > L.unquoted ∨ tok = 0xb then
    if tok ≠ L.f64 ∧ tok ≠ L.u64 ∧ tok ≠ L.i64 then
      tokenKeyFast fuel (tape ++ [.token tok]) parent d
    else .fall tape parent .key d tok
  else if tok = L.close then
    match pushEnd tape parent with
    | .error e => .err e
    | .ok (tape', parent', state') => .cont ⟨tape', parent', state', d⟩
  else if tok = L.quoted then quotedKeyFast tape parent d
  else if tok = L.i32 then i32KeyFast tape parent d
  else .fall tape parent .key d tok

/-! ## the loop (tape.rs:283-650) -/

/-- result of one iteration of `'outer` -/
inductive Iter where
  /-- `parse_next_id_opt` returned `None`: the loop ends -/
  | done
  | next (st : St)
  | err (e : Err)
  deriving DecidableEq, Repr

def Iter.ofExcept : Except Err St → Iter
  | .ok st => .next st
  | .error e => .err e

/-- one iteration of the `'outer` loop.  `fuel` bounds the inner array loops only. -/
def iter (opt : Bool) (fuel : Nat) (st : St) : Iter :=
  match readId st.data with
  | none => .done
  | some (tok, d) =>
    if opt ∧ st.state = .key then
      match keyFast fuel st.tape st.parent d tok with
      | .cont st' => .next st'
      | .err e => .err e
      | .fall tape parent state d' tok' => Iter.ofExcept (dispatch opt fuel tape parent state d' tok')
    else Iter.ofExcept (dispatch opt fuel st.tape st.parent st.state d tok)

/-- tape.rs:645-649, the acceptance test after the loop. -/
def finish (st : St) : Except Err Tape :=
  if st.parent = 0 ∧ st.state = .key then .ok st.tape else .error .eof

/-- the `'outer` loop; `n` bounds the number of iterations, `fuel` the inner loops. -/
def run (opt : Bool) (fuel : Nat) : Nat → St → Except Err Tape
  | 0, _ => .error .fuel
  | n + 1, st =>
    match iter opt fuel st with
    | .done => finish st
    | .err e => .error e
    | .next st' => run opt fuel n st'

/-- tape.rs:95-115 + 254-261: a cleared tape (`token_tape.clear()`; the `Equal` written at
slot 0 lies beyond `len` and is not observable), `state = Key`, `parent_ind = 0`. -/
def init (data : Bytes) : St := ⟨[], 0, .key, data⟩

/-- `BinaryTapeParser::parse_slice_into_tape` (`opt = true`) /
`parse_slice_into_tape_unoptimized` (`opt = false`).  Every iteration of every loop consumes at
least two bytes, so `|data| + 1` is enough fuel (`Proofs/BinTape`). -/
def parse (opt : Bool) (data : Bytes) : Except Err Tape :=
  run opt (data.length + 1) (data.length + 1) (init data)

/-! ## C06: structural soundness of a tape, executable checker -/

/-- One pass with a stack of open containers (index of the opener, index of its declared end).
`i` is the index of the token at the head of the list.
* a container start at `i` must declare an end `j > i`, `j ≠ 0`, `j` inside the tape, and
  inside the enclosing container;
* an `End idx` at `i` must close the innermost open container: `idx` is its opener, `i` is the
  end it declared, and `idx ≠ 0`;
* at the end of the tape no container is open. -/
def wfGo : Tape → Nat → Nat → List (Nat × Nat) → Bool
  | [], _, _, stack => stack.isEmpty
  | t :: rest, i, n, stack =>
    match t with
    | .array e | .object e =>
      i != 0 && decide (i < e) && decide (e < n) &&
        (match stack with
          | [] => true
          | (_, pe) :: _ => decide (e < pe)) &&
        wfGo rest (i + 1) n ((i, e) :: stack)
    | .end_ idx =>
      (match stack with
        | [] => false
        | (o, e) :: stack' => idx != 0 && o == idx && e == i && wfGo rest (i + 1) n stack')
    | _ => wfGo rest (i + 1) n stack

/-- executable `WfBinTape` (the `input` is only needed by the payload clause, which the list
model cannot express: tokens carry values, not positions; it is checked on the real tape by the
harness oracle `wfbin`). -/
def wfBinTape (_input : Bytes) (toks : Tape) : Bool :=
  wfGo toks 0 toks.length []

/-- neither a container start nor an `End` -/
def BTok.isPlain : BTok → Bool
  | .array _ | .object _ | .end_ _ => false
  | _ => true

end Jomini.BinTape
