import JominiModel.Spec.BinDocText
/-
C10 — text and binary renderings of one document deserialize to the same value.
-/
namespace Jomini.Props.C10
open Jomini Jomini.BinDe

/-- yes/no in the text rendering and the Bool token of the binary rendering are the same value
for a `bool` request. -/
theorem C10_bool_leaf (c : Cfg) (b : Bool) :
    textLeaf c .bool (.bool b) = valLeaf c .bool (.bool b) := by
  cases b <;> simp [textLeaf, leafText, textScalarVal, valLeaf, leafPrim, Scalar.toBool, visitPrim]

end Jomini.Props.C10
