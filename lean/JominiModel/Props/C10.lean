import JominiModel.Spec.BinDocText
import JominiModel.Proofs.BinDocText
import JominiModel.Proofs.BinDocTextFlat
import JominiModel.Proofs.DateLeaf
import JominiModel.Proofs.BinDocTextBytes
import JominiModel.Proofs.BinDocTextNestedBytes
/-
C10 — text and binary renderings of one document deserialize to the same value.
Stated at the level of the two reference meanings `valueOfText` / `valueOfBin` of ONE logical
document (Spec/BinDocText.lean, Spec/BinDoc.lean); helper lemmas in Proofs/BinDocText.lean.
-/
namespace Jomini.Props.C10
open Jomini Jomini.BinDe

/-- Both meanings are the SAME container traversal `valueOfG` (struct / map / sequence / option /
unknown-field skipping, fields in document order, duplicates kept in order and reported as the
same `duplicate` error, missing fields as the same `missing` error); they differ only in the
meaning of a leaf, a key and a colour (`Sem`).  So the property reduces to leaf agreement.
(This theorem is true BY DEFINITION - its proof is `⟨rfl, rfl⟩`: it records the design decision that both references are
instances of one traversal; the content is in the leaf theorems below, in `C10_nested_spec` - which needs the leaf
agreement only on the (leaf, request) pairs the traversal meets - and in the byte-level theorems that tie the text
reference to the text slice's parser and deserializer models.) -/
theorem C10_same_traversal (c : Cfg) (ty : RootTy) (d : BDoc) :
    valueOfText c ty d = valueOfG (textSem c) ty d ∧ valueOfBin c ty d = valueOfG (binSem c) ty d :=
  ⟨rfl, rfl⟩

/-- if the two formats agree on every leaf, key and colour, they agree on every document and type.  (A plain CONGRUENCE:
equal `Sem`s give equal traversals.  It is never applicable to the real formats as a whole - they do differ on untyped
and float leaves; the usable form is `C10_nested_spec`, pointwise on the pairs met.) -/
theorem C10_leaf_agreement_suffices (S1 S2 : Sem) (hl : S1.leaf = S2.leaf) (hc : S1.color = S2.color)
    (hk : S1.key = S2.key) (ty : RootTy) (d : BDoc) : valueOfG S1 ty d = valueOfG S2 ty d := by
  cases S1; cases S2; simp_all

/-- yes/no in the text rendering and the Bool token of the binary rendering are the same value
for a `bool` request. -/
theorem C10_bool_leaf (c : Cfg) (b : Bool) :
    textLeaf c .bool (.bool b) = valLeaf c .bool (.bool b) := by
  cases b <;> simp [textLeaf, leafText, textScalarVal, valLeaf, u16Leaf, leafPrim, Scalar.toBool, visitPrim]

/-- the decimal text of an unsigned integer is all digits and reads back (Horner value) as it. -/
theorem C10_decimal_reads_back (n : Nat) : decFrom (fmtNat n) 0 = n ∧ allDigits (fmtNat n) = true :=
  fmtNat_val n

/-- unsigned integer leaves: the U64 token and its decimal text are the same value for a `u64`
request (`Scalar::to_u64` of the rendering, C11 model). -/
theorem C10_uint_leaf (c : Cfg) (n : Nat) (h : n ≤ Scalar.U64_MAX) :
    textLeaf c .u64 (.u64 n) = valLeaf c .u64 (.u64 n) := by
  simp [textLeaf, leafText, textScalarVal, valLeaf, u16Leaf, leafPrim, toU64_fmtNat n h]

example : (18446744073709551615 : Nat) ≤ Scalar.U64_MAX := by decide

/-- signed integer leaves: the I64 (or I32) token and its decimal text are the same value for an `i64` request,
for EVERY i64 (`i64::MIN` included: `to_i64 (fmtInt n) = n`, `toI64_fmtInt`; the repaired `to_i64` of /repo 8327848 is
what `Model/Scalar.lean` models). -/
theorem C10_int_leaf (c : Cfg) (n : Int) (h : inI64 n = true) :
    textLeaf c .i64 (.i64 n) = valLeaf c .i64 (.i64 n) ∧ textLeaf c .i64 (.i32 n) = valLeaf c .i64 (.i32 n) := by
  simp [textLeaf, leafText, textScalarVal, valLeaf, u16Leaf, leafPrim, toI64_fmtInt' n h, visitPrim, Prim.asInt]

example : inI64 (-9223372036854775808) = true ∧ inI64 9223372036854775807 = true ∧ inI64 9223372036854775808 = false := by decide

/-- a string leaf means the same in both formats (the same Windows-1252 decoding of the same bytes),
quoted or not. -/
theorem C10_string_leaf (c : Cfg) (b : Bytes) :
    textLeaf c .str (.quoted b) = valLeaf c .str (.quoted b) ∧
    textLeaf c .str (.unquoted b) = valLeaf c .str (.unquoted b) := by
  simp [textLeaf, leafText, textScalarVal, valLeaf, u16Leaf, leafPrim]

/-- a key written as a resolvable token id is the same key as its name written as text. -/
theorem C10_key_token (c : Cfg) (id : Nat) (name : Bytes) (h : resolve c id = some name)
    (hn : decode1252 name = name) :
    (textSem c).key (.id id) = (binSem c).key (.id id) := by
  simp [textSem, binSem, leafText, leafPrim, idPrim, h, hn]

/-- a colour, component by component, for the typed reading `(String, Vec<u32>)` both formats share (the binary
`ColorSequence` and the text header value `rgb { r g b }`, tests/de.rs `same_deserializer_for_header_token`):
a skipped colour is skipped in both; the FIRST element read as a string is the name `rgb` in both; the SECOND element
read as a sequence of `u32` is `[r, g, b(, a)]` in both (`to_u64` of the decimal text of each component). -/
theorem C10_rgb_head (col : Rgb) :
    textColor .ign col = colorVisit .ign col ∧
    textColor .str col = outerElem1 .str ∧ outerElem1 .str = .ok "s726762" := by
  refine ⟨rfl, ?_, ?_⟩ <;> simp [textColor, textScalarVal, outerElem1, visitPrim] <;> decide

theorem seqFrom_congr (t : Ty) : ∀ (fs gs : List (Ty → Res String)) (acc : List String),
    fs.length = gs.length → (∀ (i : Nat) (f g : Ty → Res String), fs[i]? = some f → gs[i]? = some g → f t = g t) → seqFrom t fs acc = seqFrom t gs acc
  | [], [], _, _, _ => rfl
  | [], _ :: _, _, h, _ => by simp at h
  | _ :: _, [], _, h, _ => by simp at h
  | f :: fs, g :: gs, acc, h, hh => by
    have h0 : f t = g t := hh 0 f g rfl rfl
    simp only [seqFrom, h0]
    cases g t with
    | error e => rfl
    | ok v => exact seqFrom_congr t fs gs _ (by simpa using h) (fun i f' g' h1 h2 => hh (i + 1) f' g' (by simpa using h1) (by simpa using h2))

theorem C10_rgb_components (col : Rgb) (h : ∀ v ∈ col.comps, v ≤ Scalar.U64_MAX) :
    textInner col (.seq .u32) = outerElem2 col (.seq .u32) := by
  simp only [textInner, outerElem2]
  apply seqFrom_congr
  · simp
  · intro i f g h1 h2
    simp only [List.getElem?_map] at h1 h2
    cases hv : col.comps[i]? with
    | none => simp [hv] at h1
    | some v =>
      simp only [hv, Option.map_some, Option.some.injEq] at h1 h2
      subst h1; subst h2
      have hm : v ∈ col.comps := List.mem_of_getElem? hv
      simp [textScalarOpt, textScalarVal, toU64_fmtNat v (h v hm), innerElem, visitPrim, Prim.asInt]

/-- NEGATIVE: with untyped (`any`) elements the formats legitimately differ on a colour - the text header value yields
its body twice (`read_array` on a header starts at the header token, `deserialize_any` on a header goes to its body),
the binary `ColorSequence` yields `["rgb", [r, g, b]]`.  (Measured on the real code: `tref` cases of corpus/C10.txt.) -/
theorem C10_rgb_untyped_differs :
    (textColor (.seq .any) ⟨1, 2, 3, none⟩).toOption = some "[[s31,s32,s33],[s31,s32,s33]]" ∧
    (colorVisit (.seq .any) ⟨1, 2, 3, none⟩).toOption = some "[s726762,[u1,u2,u3]]" := by
  decide +kernel

/-
NOT PROVED here (covered by the `pair` correspondence op — the text reference predicts both text
deserializers and the binary models all three binary ones on every generated document, floats bit
for bit — and by the implementation oracle):
  * the fixed point leaf (text "1.500" through f64 vs. F32 token through f32): equal only up to
    one f32 ulp in general, see the meta file;
  * dates: text `Y.M.D` vs I32 — the date codec model belongs to C13; here only the implementation
    oracle `x-c10-real` with real `jomini::common::Date` fields.
  * full statement  C10 : SharedSubset d → Fits ty d → valueOfText c ty d = valueOfBin c ty d.
-/

/-- C10 capstone on flat documents (see `Proofs/BinDocTextFlat.lean`): one logical flat document of
integers / unsigned / bools / strings, one struct definition: text reference = binary reference = what the
tape, on-demand and streaming deserializer models return. -/
theorem C10_flat_end_to_end : type_of% @BinDe.C10_flat_end_to_end := @BinDe.C10_flat_end_to_end

/-- the date leaf for the same capstone. -/
theorem C10_flat_date_leaf : type_of% @BinDe.C10_flat_date_leaf := @BinDe.C10_flat_date_leaf

/-- the two slices' TEXT references agree on every scalar text and every scalar request (see
`Proofs/BinDocTextBytes.lean`). -/
theorem C10_text_scalar_references_agree : type_of% @BinDe.scalar_agree := @BinDe.scalar_agree

/-- … and on every flat document under a struct request: this slice's `valueOfText` (over the logical document)
and the text slice's `valueOf` (over the text document) have the same outcome. -/
theorem C10_text_references_agree : type_of% @BinDe.valueOfText_bridge := @BinDe.valueOfText_bridge

/-- C10 capstone at BYTE level (flat documents): the text parser / reader models followed by both text
deserializer models on the rendered text bytes, and the binary parser / lexer models followed by the three binary
deserializer models on the encoded binary bytes, all have the outcome `valueOfBin` of the one logical document.
(The streaming text path carries the text reader slice's `bv_decide` certificates.) -/
theorem C10_bytes_end_to_end : type_of% @BinDe.C10_bytes_end_to_end := @BinDe.C10_bytes_end_to_end

/-- C10 on NESTED documents, reference level: under the recursive decidable condition `c10Root` (objects in objects,
arrays of scalars, arrays of objects; structs, maps, sequences, `Option`s, scalar leaves) the text reference equals the
binary reference. -/
theorem C10_nested_spec : type_of% @BinDe.C10_nested_spec := @BinDe.C10_nested_spec

/-- … and that value is what the three binary deserializer models return. -/
theorem C10_nested_end_to_end : type_of% @BinDe.C10_nested_end_to_end := @BinDe.C10_nested_end_to_end

/-- the two slices' TEXT references agree on nested documents. -/
theorem C10_text_references_agree_nested : type_of% @BinDe.valueOfText_bridge_nested := @BinDe.valueOfText_bridge_nested

/-- C10 capstone at BYTE level for NESTED documents: both text deserializer models on the rendered text bytes and the three
binary deserializer models on the encoded binary bytes have the outcome `valueOfBin` of the one logical document. -/
theorem C10_bytes_end_to_end_nested : type_of% @BinDe.C10_bytes_end_to_end_nested := @BinDe.C10_bytes_end_to_end_nested

/-- C10 at BYTE level for EVERY valid text layout of the logical document (blanks, line ends, comments free): the
canonical rendering of `C10_bytes_end_to_end_nested` is one instance (`BinDe.gDoc_textFs`, `BinDe.valid_fs`). -/
theorem C10_bytes_end_to_end_any_layout : type_of% @BinDe.C10_bytes_end_to_end_any_layout := @BinDe.C10_bytes_end_to_end_any_layout

end Jomini.Props.C10
