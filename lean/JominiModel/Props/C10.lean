import JominiModel.Spec.BinDocText
import JominiModel.Proofs.BinDocText
import JominiModel.Proofs.BinDocTextFlat
import JominiModel.Proofs.DateLeaf
import JominiModel.Proofs.BinDocTextBytes
import JominiModel.Proofs.BinDocTextNestedBytes
/-
C10 — text and binary renderings of one document deserialize to the same value.
Stated at the level of the two reference meanings `valueOfText` / `valueOfBin` of ONE logical
document (Spec/BinDocText.lean, Spec/BinDoc.lean); helper lemmas in Proofs/BinDocText.lean.
-/
namespace Jomini.Props.C10
open Jomini Jomini.BinDe

/-- Both meanings are the SAME container traversal `valueOfG` (struct / map / sequence / option /
unknown-field skipping, fields in document order, duplicates kept in order and reported as the
same `duplicate` error, missing fields as the same `missing` error); they differ only in the
meaning of a leaf, a key and a colour (`Sem`).  So the property reduces to leaf agreement. -/
theorem C10_same_traversal (c : Cfg) (ty : RootTy) (d : BDoc) :
    valueOfText c ty d = valueOfG (textSem c) ty d ∧ valueOfBin c ty d = valueOfG (binSem c) ty d :=
  ⟨rfl, rfl⟩

/-- if the two formats agree on every leaf, key and colour, they agree on every document and type. -/
theorem C10_leaf_agreement_suffices (S1 S2 : Sem) (hl : S1.leaf = S2.leaf) (hc : S1.color = S2.color)
    (hk : S1.key = S2.key) (ty : RootTy) (d : BDoc) : valueOfG S1 ty d = valueOfG S2 ty d := by
  cases S1; cases S2; simp_all

/-- yes/no in the text rendering and the Bool token of the binary rendering are the same value
for a `bool` request. -/
theorem C10_bool_leaf (c : Cfg) (b : Bool) :
    textLeaf c .bool (.bool b) = valLeaf c .bool (.bool b) := by
  cases b <;> simp [textLeaf, leafText, textScalarVal, valLeaf, u16Leaf, leafPrim, Scalar.toBool, visitPrim]

/-- the decimal text of an unsigned integer is all digits and reads back (Horner value) as it. -/
theorem C10_decimal_reads_back (n : Nat) : decFrom (fmtNat n) 0 = n ∧ allDigits (fmtNat n) = true :=
  fmtNat_val n

/-- unsigned integer leaves: the U64 token and its decimal text are the same value for a `u64`
request (`Scalar::to_u64` of the rendering, C11 model). -/
theorem C10_uint_leaf (c : Cfg) (n : Nat) (h : n ≤ Scalar.U64_MAX) :
    textLeaf c .u64 (.u64 n) = valLeaf c .u64 (.u64 n) := by
  simp [textLeaf, leafText, textScalarVal, valLeaf, u16Leaf, leafPrim, toU64_fmtNat n h]

example : (18446744073709551615 : Nat) ≤ Scalar.U64_MAX := by decide

/-- signed integer leaves: the I64 (or I32) token and its decimal text are the same value for an
`i64` request: `to_i64 (fmtInt n) = n`.  Stated for |n| ≤ 2^63-1: the present scalar model refuses
the magnitude 2^63 (i64::MIN) before applying the sign; once the repaired `to_i64` (repo 8327848)
is in Model/Scalar.lean the range becomes -2^63..2^63-1. -/
theorem C10_int_leaf (c : Cfg) (n : Int) (h : n.natAbs ≤ Scalar.I64_MAX) :
    textLeaf c .i64 (.i64 n) = valLeaf c .i64 (.i64 n) ∧ textLeaf c .i64 (.i32 n) = valLeaf c .i64 (.i32 n) := by
  simp [textLeaf, leafText, textScalarVal, valLeaf, u16Leaf, leafPrim, toI64_fmtInt n h, visitPrim, Prim.asInt]

example : (-9223372036854775807 : Int).natAbs ≤ Scalar.I64_MAX := by decide

/-- a string leaf means the same in both formats (the same Windows-1252 decoding of the same bytes),
quoted or not. -/
theorem C10_string_leaf (c : Cfg) (b : Bytes) :
    textLeaf c .str (.quoted b) = valLeaf c .str (.quoted b) ∧
    textLeaf c .str (.unquoted b) = valLeaf c .str (.unquoted b) := by
  simp [textLeaf, leafText, textScalarVal, valLeaf, u16Leaf, leafPrim]

/-- a key written as a resolvable token id is the same key as its name written as text. -/
theorem C10_key_token (c : Cfg) (id : Nat) (name : Bytes) (h : resolve c id = some name)
    (hn : decode1252 name = name) :
    (textSem c).key (.id id) = (binSem c).key (.id id) := by
  simp [textSem, binSem, leafText, leafPrim, idPrim, h, hn]

/-- a skipped colour is skipped in both formats; a colour read as a sequence starts with the
name `rgb` in both. -/
theorem C10_rgb_head (col : Rgb) (e : Ty) :
    textColor .ign col = colorVisit .ign col ∧
    (textColor (.seq e) col = seqFrom e [outerElem1, textInner col] [] ∧
     colorVisit (.seq e) col = seqFrom e [outerElem1, outerElem2 col] []) := by
  simp [textColor, colorVisit]

/-
NOT PROVED here (covered by the `pair` correspondence op — the text reference predicts both text
deserializers and the binary models all three binary ones on every generated document, floats bit
for bit — and by the implementation oracle):
  * the components of a colour: `textInner col (.seq .u32) = outerElem2 col (.seq .u32)` needs
    `toU64 (fmtNat v) = v` per component (`toU64_fmtNat`) folded over `seqFrom`;
  * the fixed point leaf (text "1.500" through f64 vs. F32 token through f32): equal only up to
    one f32 ulp in general, see the meta file;
  * dates: text `Y.M.D` vs I32 — the date codec model belongs to C13; here only the implementation
    oracle `x-c10-real` with real `jomini::common::Date` fields.
  * full statement  C10 : SharedSubset d → Fits ty d → valueOfText c ty d = valueOfBin c ty d.
-/

/-- C10 capstone on flat documents (see `Proofs/BinDocTextFlat.lean`): one logical flat document of
integers / unsigned / bools / strings, one struct definition: text reference = binary reference = what the
tape, on-demand and streaming deserializer models return. -/
theorem C10_flat_end_to_end : type_of% @BinDe.C10_flat_end_to_end := @BinDe.C10_flat_end_to_end

/-- the date leaf for the same capstone. -/
theorem C10_flat_date_leaf : type_of% @BinDe.C10_flat_date_leaf := @BinDe.C10_flat_date_leaf

/-- the two slices' TEXT references agree on every scalar text and every scalar request (see
`Proofs/BinDocTextBytes.lean`). -/
theorem C10_text_scalar_references_agree : type_of% @BinDe.scalar_agree := @BinDe.scalar_agree

/-- … and on every flat document under a struct request: this slice's `valueOfText` (over the logical document)
and the text slice's `valueOf` (over the text document) have the same outcome. -/
theorem C10_text_references_agree : type_of% @BinDe.valueOfText_bridge := @BinDe.valueOfText_bridge

/-- C10 capstone at BYTE level (flat documents): the text parser / reader models followed by both text
deserializer models on the rendered text bytes, and the binary parser / lexer models followed by the three binary
deserializer models on the encoded binary bytes, all have the outcome `valueOfBin` of the one logical document.
(The streaming text path carries the text reader slice's `bv_decide` certificates.) -/
theorem C10_bytes_end_to_end : type_of% @BinDe.C10_bytes_end_to_end := @BinDe.C10_bytes_end_to_end

/-- C10 on NESTED documents, reference level: under the recursive decidable condition `c10Root` (objects in objects,
arrays of scalars, arrays of objects; structs, maps, sequences, `Option`s, scalar leaves) the text reference equals the
binary reference. -/
theorem C10_nested_spec : type_of% @BinDe.C10_nested_spec := @BinDe.C10_nested_spec

/-- … and that value is what the three binary deserializer models return. -/
theorem C10_nested_end_to_end : type_of% @BinDe.C10_nested_end_to_end := @BinDe.C10_nested_end_to_end

/-- the two slices' TEXT references agree on nested documents. -/
theorem C10_text_references_agree_nested : type_of% @BinDe.valueOfText_bridge_nested := @BinDe.valueOfText_bridge_nested

/-- C10 capstone at BYTE level for NESTED documents: both text deserializer models on the rendered text bytes and the three
binary deserializer models on the encoded binary bytes have the outcome `valueOfBin` of the one logical document. -/
theorem C10_bytes_end_to_end_nested : type_of% @BinDe.C10_bytes_end_to_end_nested := @BinDe.C10_bytes_end_to_end_nested

end Jomini.Props.C10
