import JominiModel.Model.TextReader
import JominiModel.Generated.Tables
/-
C07 — the streaming text reader is independent of read chunking and buffer size.
Only property theorems live here; helper lemmas are in `Proofs/TextReader*.lean`, `Proofs/SwarReader.lean`.
-/
namespace Jomini.Props.C07
open Jomini Jomini.TextReader

/-- the model's boundary table is the one measured from the compiled `data::is_boundary`. -/
theorem C07_boundary_table :
    (List.range 256).map (fun n => isBoundary (UInt8.ofNat n)) = Jomini.Tables.textBoundary := by
  decide +kernel

end Jomini.Props.C07
