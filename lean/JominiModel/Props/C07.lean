import JominiModel.Model.TextReader
import JominiModel.Spec.TextReader
import JominiModel.Proofs.SwarReader
import JominiModel.Proofs.TextReader
import JominiModel.Proofs.TextReaderStream
import JominiModel.Proofs.TextReaderFast
import JominiModel.Proofs.TextFault
import JominiModel.Proofs.TextReaderFaithful
import JominiModel.Proofs.TextReaderUnfit
import JominiModel.Proofs.TextReaderFull
import JominiModel.Proofs.TextReaderBuf
import JominiModel.Proofs.TextReaderFaithfulX
import JominiModel.Proofs.TextReaderFits
import JominiModel.Generated.Tables
/-
C07 — the streaming text reader is independent of read chunking and buffer size.
Only property theorems live here; helper lemmas are in `Proofs/TextReader*.lean` and
`Proofs/SwarReader.lean` (the only file with `bv_decide`).

Proved here (about the model `Model/TextReader.lean`):
* the SWAR word functions meet their byte-level specifications (all 2^64 words);
* the measured boundary / blank tables are the ones the model uses;
* resume lemmas: resuming at the recorded offset after a refill is the scan of the extended
  body from its start (first scan, re-scan, second and later refills, unquoted);
* no token is split: a token decided inside a window is the token of every extension;
* one call of `next_opt_fallback` under EVERY fault-free schedule and EVERY buffer capacity either ends in
  `BufferFull` or returns what the byte-at-a-time reference step over the whole remaining input returns;
* the fast path of `next_opt` returns the token the fallback scan decides (up to the one skipped space);
* whole stream (`C07_stream_eq_slice`, `C07_fallback_schedule_independent`, `C07_overflow_is_error`): for every
  fault-free schedule and every capacity ≥ 1 the streamed run either equals the from-slice run (tokens, terminal
  outcome, final position = |data| at a clean end) or ends in the error `BufferFull` after a PREFIX of the from-slice
  tokens; for cap > |data| it always equals it.

* `C07_slice_faithful`, `C07_stream_faithful`: on the rendering of any document under a valid reader-safe layout the
  reader returns exactly the document's lexeme list (slice reader; streaming reader for every schedule and fitting cap);
* `C07_full_only_if_unfit`, `C07_stream_eq_slice_fits`: with `need data ≤ cap` (the decidable fit predicate) the run
  never ends in `BufferFull`, hence streamed = from-slice for every capacity that fits.

* `C07_unfit_is_full`, `C07_buffer_full_iff`: the converse — a buffer smaller than `need` ends in `BufferFull` under every
  fault-free schedule —, hence `BufferFull ↔ cap < need data`.

What ties `need` to something outside the model: `Spec.need` and `Spec.specStep` are DEFINED through the model's own scanner
`fbLoop` (the scan of every prefix of the remaining input).  `BufferFull ↔ cap < need` therefore relates two runs of the
model — the streaming reader under an arbitrary schedule and capacity against the one-shot scan of prefixes —; it does not
by itself say that `need` is "the longest token plus look-ahead".  The model-free tie is the harness op `tneed`: an
independent byte-at-a-time lexer (`ref_lex(..).need`: comment length + 1, unquoted length + 1, quoted content + 1, `@[…]`
length, 2 for an operator, up to 3 for a leading `0xEF`) is compared with the model's `need` on every generated input, and the
real code is run at `cap = need` and `cap = need − 1` (oracles `full-although-fits`, `need-not-tight`).
-/
namespace Jomini.Props.C07
open Jomini Jomini.TextReader Jomini.TextReader.Spec Jomini.TextReader.Swar

/-! ### measured tables -/

/-- the model's boundary table is the one measured from the compiled `data::is_boundary`. -/
theorem C07_boundary_table :
    (List.range 256).map (fun n => isBoundary (UInt8.ofNat n)) = Jomini.Tables.textBoundary := by
  decide +kernel

/-- the bytes the model's `next_opt_fallback` skips between tokens are the ones measured on the compiled reader
(`[b] ++ "a"` lexes to exactly `a`). -/
theorem C07_blank_table :
    (List.range 256).map (fun n => isBlank (UInt8.ofNat n)) = Jomini.Tables.textReaderBlank := by
  decide +kernel

/-! ### SWAR -/

/-- `leading_whitespace` on a little-endian word returns the number of leading bytes that are `\t` or `\n`. -/
theorem C07_leadingWhitespace_spec (b0 b1 b2 b3 b4 b5 b6 b7 : UInt8) :
    leadingWhitespace (le64 b0 b1 b2 b3 b4 b5 b6 b7) =
      ([b0, b1, b2, b3, b4, b5, b6, b7].takeWhile (fun b => b == 9 || b == 10)).length :=
  leadingWhitespace_spec b0 b1 b2 b3 b4 b5 b6 b7

example : leadingWhitespace (le64 9 10 9 32 9 9 9 9) = 3 := by decide

/-- the quote finder of `next_opt`: `t2 != 0` iff one of the eight bytes is `"`, and
`t2.trailing_zeros() >> 3` is the index of the first one (8 if none). -/
theorem C07_quoteFinder_spec (b0 b1 b2 b3 b4 b5 b6 b7 : UInt8) :
    (quoteMask (le64 b0 b1 b2 b3 b4 b5 b6 b7) != 0#64) = [b0, b1, b2, b3, b4, b5, b6, b7].any (· == 34) ∧
    trailingZeros (quoteMask (le64 b0 b1 b2 b3 b4 b5 b6 b7)) >>> 3 =
      ([b0, b1, b2, b3, b4, b5, b6, b7].takeWhile (fun b => !(b == 34))).length :=
  quoteFinder_spec b0 b1 b2 b3 b4 b5 b6 b7

example : trailingZeros (quoteMask (le64 97 98 34 99 34 0 0 0)) >>> 3 = 2 := by decide

/-- `contains_zero_byte` is true iff one of the eight bytes is zero. -/
theorem C07_containsZeroByte_spec (b0 b1 b2 b3 b4 b5 b6 b7 : UInt8) :
    containsZeroByte (le64 b0 b1 b2 b3 b4 b5 b6 b7) = [b0, b1, b2, b3, b4, b5, b6, b7].any (· == 0) :=
  containsZeroByte_spec b0 b1 b2 b3 b4 b5 b6 b7

/-- the form in which the reader uses it: `contains_zero_byte(data ^ repeat_byte(c))` iff some byte equals `c`. -/
theorem C07_containsByte_spec (b0 b1 b2 b3 b4 b5 b6 b7 c : UInt8) :
    containsZeroByte (le64 b0 b1 b2 b3 b4 b5 b6 b7 ^^^ repeatByte c) =
      [b0, b1, b2, b3, b4, b5, b6, b7].any (· == c) :=
  containsByte_spec b0 b1 b2 b3 b4 b5 b6 b7 c

/-! ### resume lemmas (`TextReader_resume_*` of the design) -/

/-- **resume inside a quoted scalar, first refill**: if the first scan of the body `w` (the bytes after the
opening quote that are in the window) ran out of window and recorded `(carry, off)`, then for every continuation
`b` the re-scan of `next_opt_refill`'s `Quote` arm, started at `off` on the extended body, finds the closing quote
at `n` iff the scan of the extended body from its start does.  (No byte is skipped, none is read in a different
escape state: a trailing backslash makes the scan resume AT the backslash.) -/
theorem C07_resume_quote {w : Bytes} {carry off : Nat} (b : Bytes) (n : Nat)
    (h : quoteScan w 0 = .more carry off) :
    quoteRescan (w ++ b).length ((w ++ b).drop off) off = .closed n ↔ quoteScan (w ++ b) 0 = .closed n :=
  resume_quote b n h

-- the hypothesis is satisfiable, non-trivially: body `a\"\` (escaped quote, then a backslash as last byte)
example : quoteScan [97, 92, 34, 92] 0 = .more 4 3 := by decide
example : quoteRescan 6 ((([97, 92, 34, 92] : Bytes) ++ [34, 34]).drop 3) 3 = .closed 5 := by decide

/-- **second and later refills of one string** (the offset recorded by the re-scan itself). -/
theorem C07_resume_quote_again {w : Bytes} {i carry off : Nat} (b : Bytes) (n : Nat)
    (h : quoteRescan (i + w.length) w i = .more carry off) :
    quoteRescan (i + (w ++ b).length) ((w ++ b).drop (off - i)) off = .closed n ↔
      quoteRescan (i + (w ++ b).length) (w ++ b) i = .closed n :=
  resume_quote_again b n h

example : quoteRescan (0 + 3) [97, 98, 92] 0 = .more 3 2 := by decide

/-- both scans carry the whole body over, and the offset they record lies inside it. -/
theorem C07_resume_quote_carry {w : Bytes} {carry off : Nat} (h : quoteScan w 0 = .more carry off) :
    carry = w.length ∧ off ≤ carry ∧ quoteEnd w 0 = none := by
  obtain ⟨h1, h2, _, h4, _⟩ := quoteScan_more h
  exact ⟨by simpa using h2, h4, h1⟩

/-- **resume inside an unquoted scalar**: the first scan found no boundary in `a`; resuming at
`offset = carry_over = |a|` on the extended window is the scan of the extended window from its start. -/
theorem C07_resume_unquoted {a : Bytes} {i : Nat} (b : Bytes) (h : findIdx isBoundary a i = none) :
    findIdx isBoundary (a ++ b) i = findIdx isBoundary ((a ++ b).drop a.length) (i + a.length) :=
  resume_unquoted b h

example : findIdx isBoundary [97, 98] 0 = none := by decide

/-- **comments and other `None`-state carries are re-scanned from their first byte**: if the scan passes over
all of `pre` (blanks, complete comments, a BOM at the very start), the scan of `pre ++ x` is the scan of `x`
at offset `|pre|` — so dropping `pre` and re-scanning the carried bytes loses nothing. -/
theorem C07_resume_comment {pos0 : Bool} {pre : Bytes} {i : Nat} {bom bom' : Bom}
    (h : Skips pos0 pre i bom bom') (x : Bytes) :
    fbLoop pos0 (pre ++ x) .top i bom = fbLoop pos0 x .top (i + pre.length) bom' :=
  h.fbLoop x

example : Skips false [32, 35, 97, 10, 9] 0 .unknown .unknown :=
  .blank (by decide) (.comment (a := [97]) (by decide) (.blank (by decide) (.nil _ _)))

/-! ### no token is split -/

/-- a token that the scan of a window decides is the token the scan of every extension of that window decides:
same bytes, same advance, same BOM state.  (A refill can therefore never turn one token into two.) -/
theorem C07_no_token_split {pos0 : Bool} {w : Bytes} {bom bom' : Bom} {adv : Nat} {t : Token} (b : Bytes)
    (h : fbLoop pos0 w .top 0 bom = (bom', .tok adv t)) :
    fbLoop pos0 (w ++ b) .top 0 bom = (bom', .tok adv t) :=
  fbLoop_stable b h

example : fbLoop true [32, 97, 98, 61] .top 0 .unknown = (.unknown, .tok 3 (.unquoted [97, 98])) := by decide

/-! ### schedule independence of the fallback path -/

/-- **one call, every schedule, every buffer capacity.**  Let the reader be at stream position `pos` with BOM state
`bom`, let `d` be its window followed by the bytes the `Read` has not delivered yet (`Rel`), the schedule fault-free.
Then `next_opt_fallback` either ends in `BufferFull` — and then the window really filled the non-empty buffer — or it
returns exactly what the byte-at-a-time reference step over the whole of `d` prescribes: the same token, the same clean
end, the same `Eof` and error position, however the window currently splits `d` and however the remaining bytes arrive;
and it leaves the reader related to the rest.  It never reports a clean end, never returns a different or a shorter
token. -/
theorem C07_fallback_call_eq_spec (r : Reader) (pos : Nat) (bom : Bom) (d : Bytes) (fuel : Nat)
    (hrel : Rel r pos bom d) (hfuel : 2 * r.src.rest.length + 4 ≤ fuel) :
    Out (nextOptFallback fuel r) r.cap pos bom d :=
  run_fallback_spec _ r pos bom d fuel rfl hrel hfuel

/-- the reference step is total: it always prescribes a token, a clean end, or `Eof`. -/
theorem C07_spec_total (pos0 : Bool) (bom : Bom) (d : Bytes) : (specStep pos0 bom d).isSome = true :=
  specStep_isSome pos0 bom d

/-- the start states are related to the whole input -/
theorem C07_start_related (cap : Nat) (sched : List Step) (data : Bytes) (hcap : 0 < cap) (hw : WfSched sched) :
    Rel (fromReader cap sched data) 0 .unknown data ∧ Rel (fromSlice data) 0 .unknown data := by
  constructor
  · exact ⟨rfl, rfl, by simp [fromReader], hw, by intro h; simp [fromReader] at h; omega⟩
  · exact ⟨rfl, rfl, by simp [fromSlice], by intro x hx; simp [fromSlice] at hx, fun _ => rfl⟩

/-- **C07 with the fast path out of play, every capacity.**  For every input, every fault-free read schedule (any
sizes ≥ 1, `repeat`, unlimited; fault steps are allowed and then show up as the I/O-error alternative) and every buffer
capacity ≥ 1: either the streamed run stops with `BufferFull` (then the capacity is at most the input length) or an I/O
error, having produced a prefix of the from-slice token sequence, or the streamed token
sequence equals the from-slice token sequence, the terminal outcome is the same, and at a clean end the final position
of both readers is the input length. -/
theorem C07_fallback_schedule_independent (data : Bytes) (cap : Nat) (sched : List Step)
    (hcap : 0 < cap) (hw : WfSched sched) :
    let s := lexFb (fuelFor data + 2 * sched.length) (fuelFor data) (fromReader cap sched data) []
    let l := lexFb (fuelFor data) (fuelFor data) (fromSlice data) []
    (StopErr s.out ∧ s.toks <+: l.toks ∧ (s.out = .err .full → cap ≤ data.length)) ∨
    (s.toks = l.toks ∧ s.out = l.out ∧
      (s.out = .end_ → s.final.position = data.length ∧ l.final.position = data.length)) := by
  intro s l
  obtain ⟨h1, h2⟩ := C07_start_related cap sched data hcap hw
  have := lexFb_vs_slice (fuelFor data) _ _ 0 .unknown data (fuelFor data + 2 * sched.length) (fuelFor data) [] h1 h2 rfl
    (by simp [fuelFor]; omega) (by simp [fuelFor])
  rcases this with ⟨a, b, c⟩ | this
  · left; exact ⟨a, b, c⟩
  · right; simpa using this

-- the hypotheses are satisfiable: a 1-byte-at-a-time schedule followed by unlimited reads, buffer of 64 bytes
example : WfSched [.give 1, .give 1, .give 3, .repeat_ 2] ∧ NoFaults [.give 1, .give 1, .give 3, .repeat_ 2] := by
  constructor
  · intro x hx; simp at hx; rcases hx with rfl | rfl | rfl | rfl <;> simp [WfStep]
  · intro x hx; simp at hx; rcases hx with rfl | rfl | rfl | rfl <;> simp
example : (lexFb 100 40 (fromReader 64 [.give 1, .give 1, .give 3, .repeat_ 2]
    [97, 61, 34, 98, 92, 34, 34, 32, 35, 99]) []).toks = [.unquoted [97], .op .eq, .quoted [98, 92, 34]] := by
  decide +kernel
-- and the `BufferFull` branch is real: a 4-byte buffer cannot hold `abcdef`
example : (lexFb 100 40 (fromReader 4 [] [97, 98, 99, 100, 101, 102, 32]) []).out = .err .full := by decide +kernel

/-! ### the fast path -/

/-- **`next_opt`'s fast path is unobservable up to one skipped space.**  For every reader state either `next_opt`
defers to `next_opt_fallback`, or both return the same token and leave the same reader — except that after a
fast-path unquoted scalar followed by a space the fast path has consumed that one space as well (position + 1; the
next token is the same, see `C07_stream_eq_slice_partial`).  In particular no 8-byte read of the fast path leaves the
window (`ub` is impossible) and no `advance_to` assertion fires. -/
theorem C07_fast_eq_fallback (fuel : Nat) (r : Reader) (hf : 1 ≤ fuel) :
    nextOpt fuel r = nextOptFallback fuel r ∨
    ∃ t r1 r2, nextOpt fuel r = .ok r1 (some t) ∧ nextOptFallback fuel r = .ok r2 (some t) ∧
      (r1 = r2 ∨ (r2.win = 32 :: r1.win ∧ r1.consumed = r2.consumed + 1 ∧ r1.prior = r2.prior ∧
        r1.src = r2.src ∧ r1.bom = r2.bom ∧ r1.cap = r2.cap)) := by
  rcases nextOpt_vs_scan fuel r with h | ⟨adv, t, r1, hscan, hres, hadv⟩
  · left; exact h
  · right
    obtain ⟨f, rfl⟩ : ∃ f, fuel = f + 1 := ⟨fuel - 1, by omega⟩
    have hfb : nextOptFallback (f + 1) r =
        match advance r adv with
        | some r' => .ok r' (some t)
        | none => .panic := by
      unfold nextOptFallback
      rw [run_fallback_unfold, hscan]
      rfl
    rcases hadv with ha | ⟨h32, ha, _⟩
    · exact ⟨t, r1, r1, hres, by rw [hfb, ha], Or.inl rfl⟩
    · have hk : adv + 1 ≤ r.win.length := by
        unfold TextReader.advance at ha; split at ha
        · assumption
        · simp at ha
      have ha2 : advance r adv = some { r with win := r.win.drop adv, consumed := r.consumed + adv } := by
        simp [TextReader.advance]; omega
      have hr1 : r1 = { r with win := r.win.drop (adv + 1), consumed := r.consumed + (adv + 1) } := by
        simp only [TextReader.advance, hk, if_true, Option.some.injEq] at ha; exact ha.symm
      refine ⟨t, r1, _, hres, by rw [hfb, ha2], Or.inr ?_⟩
      subst hr1
      refine ⟨?_, by simp; omega, rfl, rfl, rfl, rfl⟩
      simp only
      rw [drop_of_getElem? h32]

-- the quirk is real: `ab cdefghijk…` on the fast path consumes 3 bytes, on the fallback path 2
example : (match nextOpt 5 (fromSlice [97, 98, 32, 99, 100, 101, 102, 103, 104, 105, 106, 107]) with
    | .ok r' (some t) => (t, r'.consumed) | _ => (.open_, 0)) = (.unquoted [97, 98], 3) := by decide +kernel
example : (match nextOptFallback 5 (fromSlice [97, 98, 32, 99, 100, 101, 102, 103, 104, 105, 106, 107]) with
    | .ok r' (some t) => (t, r'.consumed) | _ => (.open_, 0)) = (.unquoted [97, 98], 2) := by decide +kernel

/-- **C07, the whole reader (fast path in play), every schedule, every capacity.**  For every input, every fault-free
read schedule (`WfSched`: read sizes ≥ 1; `NoFaults`) and every buffer capacity ≥ 1, the streaming reader (`streamTokens`: `next` until it stops) either

* ends in `BufferFull` — an error, never a clean end — having produced a PREFIX of the from-slice reader's token
  sequence (no token dropped, split or altered), and then the capacity is at most the input length; or
* produces exactly the token sequence of the zero-copy from-slice reader, ends in the same outcome (clean end, or the
  same error), and at a clean end both final positions equal the input length.

This is the statement of C07 and of its last sentence (`C07_overflow_is_error`) except for the liveness half
"`BufferFull` occurs only if some token/comment does not fit" (see the end of this file). -/
theorem C07_stream_eq_slice (data : Bytes) (cap : Nat) (sched : List Step) (hcap : 0 < cap) (hw : WfSched sched)
    (hnf : NoFaults sched) :
    ((streamTokens cap sched data).out = .err .full ∧
      (streamTokens cap sched data).toks <+: (sliceTokens data).toks ∧ cap ≤ data.length) ∨
    ((streamTokens cap sched data).toks = (sliceTokens data).toks ∧
     (streamTokens cap sched data).out = (sliceTokens data).out ∧
     ((streamTokens cap sched data).out = .end_ →
       (streamTokens cap sched data).final.position = data.length ∧ (sliceTokens data).final.position = data.length)) := by
  obtain ⟨h1, h2⟩ := C07_start_related cap sched data hcap hw
  have := lexAll_vs_slice (fuelFor data) _ _ 0 .unknown data (fuelFor data + 2 * sched.length) (fuelFor data) []
    (Or.inl h1) (Or.inl h2) rfl (by simp [fuelFor]; omega) (by simp [fuelFor])
  rcases this with ⟨a, b, c⟩ | this
  · left
    have hfull : (streamTokens cap sched data).out = .err .full := by
      rcases a with a | a
      · exact a
      · exact absurd a (lexAll_no_io cap sched data _ _ hnf)
    exact ⟨hfull, b, c hfull⟩
  · right; simpa [streamTokens, sliceTokens] using this

example : (streamTokens 64 [.give 1, .give 1, .give 3, .repeat_ 2]
    [97, 61, 34, 98, 92, 34, 34, 32, 35, 99]).toks = [.unquoted [97], .op .eq, .quoted [98, 92, 34]] := by
  decide +kernel

/-- **`C07_overflow_is_error`, safety half**: whenever the streamed result is not the from-slice result (tokens or
outcome), the streamed run ended in the error `BufferFull` and its tokens are a prefix of the from-slice tokens — data
is never silently dropped, split into several tokens, or reported as a clean end of input. -/
theorem C07_overflow_is_error (data : Bytes) (cap : Nat) (sched : List Step) (hcap : 0 < cap) (hw : WfSched sched)
    (hnf : NoFaults sched)
    (hdiff : (streamTokens cap sched data).toks ≠ (sliceTokens data).toks ∨
             (streamTokens cap sched data).out ≠ (sliceTokens data).out) :
    (streamTokens cap sched data).out = .err .full ∧
    (streamTokens cap sched data).toks <+: (sliceTokens data).toks := by
  rcases C07_stream_eq_slice data cap sched hcap hw hnf with ⟨a, b, _⟩ | ⟨a, b, _⟩
  · exact ⟨a, b⟩
  · rcases hdiff with h | h
    · exact absurd a h
    · exact absurd b h

-- the hypothesis is satisfiable: `abcdef ` with a 4-byte buffer streams to `err:full`, the slice reader to `abcdef`
example : (streamTokens 4 [] [97, 98, 99, 100, 101, 102, 32]).out ≠ (sliceTokens [97, 98, 99, 100, 101, 102, 32]).out := by
  decide +kernel

/-- a buffer larger than the input never overflows: for every schedule the streamed result IS the from-slice result. -/
theorem C07_stream_eq_slice_large_buffer (data : Bytes) (cap : Nat) (sched : List Step)
    (hcap : data.length < cap) (hw : WfSched sched) (hnf : NoFaults sched) :
    (streamTokens cap sched data).toks = (sliceTokens data).toks ∧
    (streamTokens cap sched data).out = (sliceTokens data).out ∧
    ((streamTokens cap sched data).out = .end_ →
      (streamTokens cap sched data).final.position = data.length ∧ (sliceTokens data).final.position = data.length) := by
  rcases C07_stream_eq_slice data cap sched (by omega) hw hnf with ⟨_, _, c⟩ | h
  · omega
  · exact h

/-- two different schedules and two different (large enough) buffer sizes agree with each other. -/
theorem C07_two_schedules_agree (data : Bytes) (cap1 cap2 : Nat) (sched1 sched2 : List Step)
    (h1 : data.length < cap1) (h2 : data.length < cap2) (hw1 : WfSched sched1) (hw2 : WfSched sched2)
    (hn1 : NoFaults sched1) (hn2 : NoFaults sched2) :
    (streamTokens cap1 sched1 data).toks = (streamTokens cap2 sched2 data).toks ∧
    (streamTokens cap1 sched1 data).out = (streamTokens cap2 sched2 data).out := by
  have a := C07_stream_eq_slice_large_buffer data cap1 sched1 h1 hw1 hn1
  have b := C07_stream_eq_slice_large_buffer data cap2 sched2 h2 hw2 hn2
  exact ⟨a.1.trans b.1.symm, a.2.1.trans b.2.1.symm⟩

/-! ### BufferFull only when something does not fit -/

/-- **`C07_full_only_if_unfit`.**  `Spec.need data` is the fit predicate, a decidable (computable) function of the
input: the largest, over every token / comment / blank run of `data`, of the bytes that must be in the buffer at once
(comment length + 1, unquoted length + 1, quoted content + 1, `@[…]` length, 2 for an operator, up to 3 for a leading
`0xEF`; at least 1).  If `need data ≤ cap`, the streamed run never ends in `BufferFull` — for every read schedule
(read sizes ≥ 1; fault steps allowed).  Contrapositive: `BufferFull` occurs only when some token or comment, with the
look-ahead byte it needs, does not fit the buffer.

(The converse — a buffer smaller than `need` always yields `BufferFull` — is `C07_unfit_is_full` below; together:
`C07_buffer_full_iff`.  `need` is defined through the model's own scanner, see the note at the head of this file: the
description "comment length + 1, …" is what the harness's independent byte-at-a-time computation implements, and the op
`tneed` compares the two on every generated input and runs the real code at `cap = need` and `cap = need − 1`.) -/
theorem C07_full_only_if_unfit (data : Bytes) (cap : Nat) (sched : List Step) (hw : WfSched sched)
    (hfit : need data ≤ cap) : (streamTokens cap sched data).out ≠ .err .full := by
  have hcap : 0 < cap := by unfold need at hfit; omega
  obtain ⟨h1, _⟩ := C07_start_related cap sched data hcap hw
  refine lexAll_no_full (fuelFor data) _ 0 .unknown data _ [] (Or.inl h1) ?_ (by simp [fuelFor]; omega)
  unfold need at hfit
  simp only [fromReader]
  omega

example : need [97, 98, 99, 61, 34, 120, 32, 121, 34, 10, 35, 99, 111, 109, 109, 101, 110, 116, 10, 64, 91, 97, 93] = 9 := by
  decide +kernel
example : fits 9 [97, 98, 99, 61, 34, 120, 32, 121, 34, 10, 35, 99, 111, 109, 109, 101, 110, 116, 10, 64, 91, 97, 93] = true := by
  decide +kernel

/-- **C07, final form.**  For every input, every fault-free read schedule and every buffer that can hold the longest
token / comment with its look-ahead (`need data ≤ cap`), the streamed token sequence equals the from-slice token
sequence, tokenization ends the same way (clean end or the same error), and at a clean end the final position equals the
input length. -/
theorem C07_stream_eq_slice_fits (data : Bytes) (cap : Nat) (sched : List Step) (hw : WfSched sched) (hnf : NoFaults sched)
    (hfit : need data ≤ cap) :
    (streamTokens cap sched data).toks = (sliceTokens data).toks ∧
    (streamTokens cap sched data).out = (sliceTokens data).out ∧
    ((streamTokens cap sched data).out = .end_ →
      (streamTokens cap sched data).final.position = data.length ∧ (sliceTokens data).final.position = data.length) := by
  have hcap : 0 < cap := by unfold need at hfit; omega
  rcases C07_stream_eq_slice data cap sched hcap hw hnf with ⟨a, _, _⟩ | h
  · exact absurd a (C07_full_only_if_unfit data cap sched hw hfit)
  · exact h

/-! ### faithfulness on rendered documents -/

/-- **`C07_slice_faithful`.**  For every document `ms` — fields `key op value`, array elements, containers nested to
any depth, quoted and unquoted scalars — and every valid READER-SAFE layout (`ValidM`: gaps made of blanks and complete
`#` comments, `;` never glued to a scalar, every unquoted scalar followed by a boundary byte, `=`/`<`/`>` not followed by
`=`; an optional BOM; trailing filler `gt`, which may end in an unterminated comment), the from-slice reader over the
rendering returns exactly the lexeme list of the document — `Open` / `Close` / `Operator` / `Unquoted` / `Quoted` with the
scalar bytes —, ends cleanly, and its final position is the input length. -/
theorem C07_slice_faithful (ms : DMembers) (gt : Bytes) (bom : Bool) (hv : ValidM ms gt) (hgt : EndGap gt)
    (hclash : bom = false → ¬∃ r', renderM ms ++ gt = 0xef :: 0xbb :: 0xbf :: r') :
    (sliceTokens (bomBytes bom ++ (renderM ms ++ gt))).toks = (itemsM ms).map (fun x => x.2.tok) ∧
    (sliceTokens (bomBytes bom ++ (renderM ms ++ gt))).out = .end_ ∧
    (sliceTokens (bomBytes bom ++ (renderM ms ++ gt))).final.position = (bomBytes bom ++ (renderM ms ++ gt)).length :=
  slice_faithful ms gt bom hv hgt hclash

/-- the same at the level of lexeme lists with gaps (what the document theorem is proved from). -/
theorem C07_slice_faithful_lexemes (items : List (Bytes × Lexeme)) (gt : Bytes) (bom : Bool) (hv : ValidLex items gt)
    (hclash : bom = false → ¬∃ r', renderLex items gt = 0xef :: 0xbb :: 0xbf :: r') :
    (sliceTokens (bomBytes bom ++ renderLex items gt)).toks = items.map (fun x => x.2.tok) ∧
    (sliceTokens (bomBytes bom ++ renderLex items gt)).out = .end_ ∧
    (sliceTokens (bomBytes bom ++ renderLex items gt)).final.position = (bomBytes bom ++ renderLex items gt).length :=
  slice_faithful_lexemes items gt bom hv hclash

/-- **`C07_stream_faithful`.**  … and therefore, for every fault-free read schedule and every buffer capacity that fits
(`need (rendering) ≤ cap`), the STREAMING reader returns exactly the lexeme list of the document, ends cleanly, at the end
of the input. -/
theorem C07_stream_faithful (ms : DMembers) (gt : Bytes) (bom : Bool) (cap : Nat) (sched : List Step)
    (hv : ValidM ms gt) (hgt : EndGap gt)
    (hclash : bom = false → ¬∃ r', renderM ms ++ gt = 0xef :: 0xbb :: 0xbf :: r')
    (hw : WfSched sched) (hnf : NoFaults sched) (hfit : need (bomBytes bom ++ (renderM ms ++ gt)) ≤ cap) :
    (streamTokens cap sched (bomBytes bom ++ (renderM ms ++ gt))).toks = (itemsM ms).map (fun x => x.2.tok) ∧
    (streamTokens cap sched (bomBytes bom ++ (renderM ms ++ gt))).out = .end_ ∧
    (streamTokens cap sched (bomBytes bom ++ (renderM ms ++ gt))).final.position =
      (bomBytes bom ++ (renderM ms ++ gt)).length := by
  obtain ⟨s1, s2, s3⟩ := C07_slice_faithful ms gt bom hv hgt hclash
  obtain ⟨e1, e2, e3⟩ := C07_stream_eq_slice_fits _ cap sched hw hnf hfit
  refine ⟨e1.trans s1, e2.trans s2, ?_⟩
  exact (e3 (e2.trans s2)).1

-- the hypotheses of `C07_slice_faithful` are satisfiable on a non-trivial document: `a = { "x y" 1 } # c\n b>=2`
example :
    let doc : DMembers :=
      .field [] false [97] [32] .eq (.cont [32] (.elem (.scal [32] true [120, 32, 121]) (.elem (.scal [32] false [49]) .nil)) [32])
        (.field [32, 35, 32, 99, 10, 32] false [98] [] .ge (.scal [] false [50]) .nil)
    ValidM doc [10] ∧ EndGap [10] := by
  have sp : Gap [32] := .ws 32 [] (by decide) .nil
  have g1 : Gap [32, 35, 32, 99, 10, 32] := .ws 32 _ (by decide) (.comment [32, 99] [32] (by decide) sp)
  refine ⟨?_, .gap _ (.ws 10 [] (by decide) .nil)⟩
  simp only [ValidM, ValidV, Lexeme.Valid, renderV, renderM, Lexeme.text, opText, StartsBoundary]
  refine ⟨.nil, sp, ⟨by decide, ⟨97, [], rfl, by decide, by decide, by decide, by decide⟩, Or.inr ⟨32, _, rfl, by decide⟩⟩,
    fun _ => ⟨32, _, rfl, by decide⟩, ⟨sp, sp, ⟨sp, by decide +kernel⟩,
      ⟨sp, by decide, ⟨49, [], rfl, by decide, by decide, by decide, by decide⟩, Or.inr ⟨32, _, rfl, by decide⟩⟩, trivial⟩,
    g1, .nil, ⟨by decide, ⟨98, [], rfl, by decide, by decide, by decide, by decide⟩, Or.inr ⟨62, _, rfl, by decide⟩⟩,
    fun h => by simp at h, ⟨.nil, by decide, ⟨50, [], rfl, by decide, by decide, by decide, by decide⟩, Or.inr ⟨10, _, rfl, by decide⟩⟩,
    trivial⟩

-- `a = { "x y" 1 } # c\n b>=2` : a field whose value is a container with two elements, then a field with `>=`
example :
    let doc : DMembers :=
      .field [] false [97] [32] .eq (.cont [32] (.elem (.scal [32] true [120, 32, 121]) (.elem (.scal [32] false [49]) .nil)) [32])
        (.field [32, 35, 32, 99, 10, 32] false [98] [] .ge (.scal [] false [50]) .nil)
    (sliceTokens (renderM doc ++ [10])).toks = (itemsM doc).map (fun x => x.2.tok) := by
  decide +kernel

/-! ### the converse: what does not fit ends in BufferFull -/

/-- every token the streaming reader returns was inside its buffer (any schedule, cap ≥ 1): `tokSize` = the bytes of an
unquoted scalar, resp. the content of a quoted scalar plus its closing quote. -/
theorem C07_returned_tokens_fit (data : Bytes) (cap : Nat) (sched : List Step) (hcap : 0 < cap) :
    ∀ t ∈ (streamTokens cap sched data).toks, tokSize t ≤ cap :=
  streamTokens_tok_size data cap sched hcap

/-- **`C07_unfit_is_full`, token form (partial).**  If the input contains a token that cannot fit the buffer — an unquoted
scalar longer than `cap`, or a quoted scalar whose content plus closing quote is longer than `cap` — then EVERY
fault-free read schedule ends in `BufferFull`, after a prefix of the from-slice tokens (never a clean end, never a split
or altered token).

Full statement: `C07_unfit_is_full` below (proved): the same under `cap < need data`, which in addition counts the look-ahead
byte after an unquoted scalar / operator, comments, `@[…` prefixes and the BOM arm. -/
theorem C07_unfit_is_full_partial (data : Bytes) (cap : Nat) (sched : List Step) (hcap : 0 < cap) (hw : WfSched sched)
    (hnf : NoFaults sched) (t : Token) (ht : t ∈ (sliceTokens data).toks) (hbig : cap < tokSize t) :
    (streamTokens cap sched data).out = .err .full ∧
    (streamTokens cap sched data).toks <+: (sliceTokens data).toks := by
  rcases C07_stream_eq_slice data cap sched hcap hw hnf with ⟨a, b, _⟩ | ⟨a, _, _⟩
  · exact ⟨a, b⟩
  · exfalso
    rw [← a] at ht
    have := C07_returned_tokens_fit data cap sched hcap t ht
    omega

-- `abcdef ` holds the 6-byte scalar `abcdef`; a 4-byte buffer cannot return it
example : Token.unquoted [97, 98, 99, 100, 101, 102] ∈ (sliceTokens [97, 98, 99, 100, 101, 102, 32]).toks := by
  decide +kernel

/-- **`C07_unfit_is_full`**, the converse of `C07_full_only_if_unfit`: with a buffer smaller than `need data` — some token
with its look-ahead byte, comment, `@[…` prefix, operator look-ahead or the BOM arm's three bytes does not fit — EVERY
fault-free read schedule ends in `BufferFull` (never a clean end, never `Eof`, never a silently different token), after a
prefix of the from-slice tokens.  (`Proofs/TextReaderFull.lean`: a window that asks for a refill larger than the buffer is
reached whatever the read sizes are, because a read never delivers more than what fits behind the carried bytes.) -/
theorem C07_unfit_is_full (data : Bytes) (cap : Nat) (sched : List Step) (hcap : 0 < cap) (h : cap < need data)
    (hw : WfSched sched) (hnf : NoFaults sched) :
    (streamTokens cap sched data).out = .err .full ∧
    (streamTokens cap sched data).toks <+: (sliceTokens data).toks := by
  obtain ⟨h1, _⟩ := C07_start_related cap sched data hcap hw
  have hfull : (streamTokens cap sched data).out = .err .full := by
    refine lexAll_full (fuelFor data) _ 0 .unknown data _ [] (Or.inl h1) (by simpa [fromReader] using hnf)
      (by simp [InBuffer, fromReader]) (by simp [fromReader]; omega) ?_ (by simp [fuelFor]; omega)
    unfold need at h
    simp only [fromReader]
    omega
  rcases C07_stream_eq_slice data cap sched hcap hw hnf with ⟨_, b, _⟩ | ⟨_, b, _⟩
  · exact ⟨hfull, b⟩
  · -- the slice reader never reports `BufferFull`
    exfalso
    have hs := C07_full_only_if_unfit data (need data) [] (by intro x hx; simp at hx) (Nat.le_refl _)
    have hn : 0 < need data := by unfold need; omega
    rcases C07_stream_eq_slice data (need data) [] hn (by intro x hx; simp at hx) (by intro x hx; simp at hx) with ⟨a, _, _⟩ | ⟨_, b', _⟩
    · exact hs a
    · rw [hfull] at b; rw [← b] at b'; exact hs b'

-- the hypothesis is satisfiable: `abc=` needs 4 bytes (`abc` and its look-ahead), every token is at most 3 bytes long
example : need [97, 98, 99, 61, 49, 32] = 4 := by decide +kernel
example : (streamTokens 3 [.repeat_ 1] [97, 98, 99, 61, 49, 32]).out = .err .full := by decide +kernel

/-- **`C07_buffer_full_iff`: the last clause of C07 as an equivalence.**  For every input, every fault-free read schedule
(read sizes ≥ 1) and every buffer capacity ≥ 1: the streamed run ends in `BufferFull` IF AND ONLY IF something the reader
must hold in one window does not fit the buffer, `cap < need data` (`need`: a decidable function of the input — longest
unquoted scalar + 1, quoted content + 1, comment + 1, `@[…]`, 2 for an operator, up to 3 for a leading `0xEF`).  When it
does, the tokens returned before the error are a prefix of the from-slice tokens; when it does not, the streamed tokens and
the terminal outcome are those of the from-slice reader.  So the outcome class (overflow or not) depends on the input and
the capacity only, never on the read schedule. -/
theorem C07_buffer_full_iff (data : Bytes) (cap : Nat) (sched : List Step) (hcap : 0 < cap) (hw : WfSched sched)
    (hnf : NoFaults sched) :
    ((streamTokens cap sched data).out = .err .full ↔ cap < need data) ∧
    (cap < need data → (streamTokens cap sched data).toks <+: (sliceTokens data).toks) ∧
    (need data ≤ cap → (streamTokens cap sched data).toks = (sliceTokens data).toks ∧
      (streamTokens cap sched data).out = (sliceTokens data).out) := by
  refine ⟨⟨fun h => ?_, fun h => (C07_unfit_is_full data cap sched hcap h hw hnf).1⟩,
    fun h => (C07_unfit_is_full data cap sched hcap h hw hnf).2,
    fun h => ⟨(C07_stream_eq_slice_fits data cap sched hw hnf h).1, (C07_stream_eq_slice_fits data cap sched hw hnf h).2.1⟩⟩
  apply Nat.lt_of_not_le
  intro hfit
  exact C07_full_only_if_unfit data cap sched hw hfit h

-- both sides occur: `abc=1 ` with 3 bytes overflows, with 4 bytes it does not
example : ((streamTokens 4 [.repeat_ 1] [97, 98, 99, 61, 49, 32]).out = .end_) := by decide +kernel

/-! ### recycled buffers -/

/-- **`C07_recycled_buffer`: the token stream does not depend on what a caller-provided buffer holds.**
`streamTokensBuf buf sched data` is the streaming reader built with `TokenReaderBuilder::buffer(buf)` over the CONCRETE
`BufferWindow` (`Model/TextReaderBuf.lean`: the allocation `buf` with arbitrary stale contents, `start`/`end` offsets,
`fill_buf` with its `copy_within` — which moves stale bytes too — and the write of the delivered bytes; the fast path's
8-byte loads and pointer loops read the allocation, bounded only by the pointer comparisons the code makes).  For every
buffer contents, every schedule (faults included) and every input, its tokens, its outcome and its final state (seen
through `window()`, position, source) are exactly those of the abstract reader with a buffer of the same length — in
particular the same for any two buffers of equal length, e.g. a recycled one and a zeroed one.  (A load beyond the
allocation would be the outcome `ub`; the abstract run never ends in `ub`, `C05_textreader_no_ub`, hence neither does this
one.) -/
theorem C07_recycled_buffer (buf : Bytes) (sched : List Step) (data : Bytes) :
    (streamTokensBuf buf sched data).toks = (streamTokens buf.length sched data).toks ∧
    (streamTokensBuf buf sched data).out = (streamTokens buf.length sched data).out ∧
    (streamTokensBuf buf sched data).final.view = (streamTokens buf.length sched data).final ∧
    (∀ buf' : Bytes, buf'.length = buf.length →
      (streamTokensBuf buf' sched data).toks = (streamTokensBuf buf sched data).toks ∧
      (streamTokensBuf buf' sched data).out = (streamTokensBuf buf sched data).out) := by
  have h := streamTokensBuf_view buf sched data
  refine ⟨congrArg Run.toks h, congrArg Run.out h, congrArg Run.final h, fun buf' hl => ?_⟩
  have h' := streamTokensBuf_view buf' sched data
  rw [hl] at h'
  exact ⟨(congrArg Run.toks h').trans (congrArg Run.toks h).symm, (congrArg Run.out h').trans (congrArg Run.out h).symm⟩

/-- one `next_opt` call on any well-formed concrete reader (`start ≤ end ≤ len`), whatever lies behind its window -/
theorem C07_recycled_buffer_call (fuel : Nat) (c : BReader) (h : c.WF) :
    (bnextOpt fuel c).view = nextOpt fuel c.view ∧ (bnextOpt fuel c).WF := bnextOpt_view fuel c h

/-- **`C07_recycled_buffer_api`: the same for the whole API.**  `read`, `read_bytes(n)`, `skip_container` (its 8-byte loads
and byte reads see the allocation, bounded by its pointer comparisons) and `skip_unquoted_value` (its 4-byte load) over the
concrete buffer: every SEQUENCE of calls in any order, continuing after errors, from a reader built on a caller-provided
buffer with arbitrary contents, observes exactly what the same calls observe on the abstract reader with a buffer of the
same length — tokens, byte slices, errors —; hence the same for any two buffers of equal length. -/
theorem C07_recycled_buffer_api (fuel : Nat) (ops : List ApiCall) (buf : Bytes) (sched : List Step) (data : Bytes) :
    bapiRun fuel ops (BReader.ofBuffer buf sched data) = apiRun fuel ops (fromReader buf.length sched data) ∧
    (∀ buf' : Bytes, buf'.length = buf.length →
      bapiRun fuel ops (BReader.ofBuffer buf' sched data) = bapiRun fuel ops (BReader.ofBuffer buf sched data)) := by
  have h : ∀ b : Bytes, bapiRun fuel ops (BReader.ofBuffer b sched data) = apiRun fuel ops (fromReader b.length sched data) :=
    fun b => bapiRun_view fuel ops (BReader.ofBuffer b sched data) ⟨Nat.le_refl _, Nat.zero_le _⟩
  refine ⟨h buf, fun buf' hl => ?_⟩
  rw [h buf', h buf, hl]

/-- each call on any well-formed concrete reader (`start ≤ end ≤ len`) -/
theorem C07_recycled_buffer_calls (fuel n : Nat) (c : BReader) (h : c.WF) :
    ((bread fuel c).view = read fuel c.view ∧ (bread fuel c).WF) ∧
    ((breadBytes fuel c n).view = readBytes fuel c.view n ∧ (breadBytes fuel c n).WF) ∧
    ((bskipContainer fuel c).view = skipContainer fuel c.view ∧ (bskipContainer fuel c).WF) ∧
    ((bskipUnquotedValue fuel c).view = skipUnquotedValue fuel c.view ∧ (bskipUnquotedValue fuel c).WF) :=
  ⟨bread_view fuel c h, breadBytes_view fuel c n h, bskipContainer_view fuel c h, bskipUnquotedValue_view fuel c h⟩

-- a buffer full of `}`: read two tokens, skip the container, read on — the stale braces are never counted
example : bapiRun 60 [.next, .next, .next, .skipContainer, .next, .next]
    (BReader.ofBuffer (List.replicate 12 125) [.give 5, .repeat_ 3] [97, 61, 123, 32, 123, 32, 120, 32, 125, 32, 125, 32, 98, 10]) =
    [.next (some (.unquoted [97])), .next (some (.op .eq)), .next (some .open_), .unit, .next (some (.unquoted [98])), .next none] := by
  decide +kernel

-- a buffer full of `"`: the bytes behind the window are never taken for the closing quote
example : (streamTokensBuf (List.replicate 16 34) [.give 3, .repeat_ 2] [97, 61, 34, 98, 99, 34, 32, 120, 10]).toks =
    [.unquoted [97], .op .eq, .quoted [98, 99], .unquoted [120]] := by decide +kernel

/-! ### `@variable`, `@[ … ]`, and scalars that begin with `?` -/

/-- **`C07_slice_faithful_x`: faithfulness with `@variable` and `@[ … ]` scalars.**  As `C07_slice_faithful`, over the
extended layout model `ValidMX` (`Proofs/TextReaderFaithfulX.lean`): every key and value may also be
* `@name` — `@` followed by at least one byte, no boundary byte, in front of a boundary byte or the end of the input: read
  back as ONE unquoted token `@name`; or
* `@[body]` — `body` any bytes without `]` (blanks, operators, braces, quotes, `#`, newlines): read back as ONE unquoted
  token from `@` up to and including the FIRST `]`; nothing is required of what follows the `]`.
(`ValidM ms gt → ValidMX ms gt`: `C07_valid_to_x`.) -/
theorem C07_slice_faithful_x (ms : DMembers) (gt : Bytes) (bom : Bool) (hv : ValidMX ms gt) (hgt : EndGap gt)
    (hclash : bom = false → ¬∃ r', renderM ms ++ gt = 0xef :: 0xbb :: 0xbf :: r') :
    (sliceTokens (bomBytes bom ++ (renderM ms ++ gt))).toks = (itemsM ms).map (fun x => x.2.tok) ∧
    (sliceTokens (bomBytes bom ++ (renderM ms ++ gt))).out = .end_ ∧
    (sliceTokens (bomBytes bom ++ (renderM ms ++ gt))).final.position = (bomBytes bom ++ (renderM ms ++ gt)).length :=
  slice_faithfulX ms gt bom hv hgt hclash

/-- the same at the level of lexeme lists -/
theorem C07_slice_faithful_lexemes_x (items : List (Bytes × Lexeme)) (gt : Bytes) (bom : Bool) (hv : ValidLexX items gt)
    (hclash : bom = false → ¬∃ r', renderLex items gt = 0xef :: 0xbb :: 0xbf :: r') :
    (sliceTokens (bomBytes bom ++ renderLex items gt)).toks = items.map (fun x => x.2.tok) ∧
    (sliceTokens (bomBytes bom ++ renderLex items gt)).out = .end_ ∧
    (sliceTokens (bomBytes bom ++ renderLex items gt)).final.position = (bomBytes bom ++ renderLex items gt).length :=
  slice_faithful_lexemesX items gt bom hv hclash

/-- the extended layout model contains the old one -/
theorem C07_valid_to_x (ms : DMembers) (gt : Bytes) (hv : ValidM ms gt) : ValidMX ms gt := ValidM.toX ms gt hv

/-- **`C07_stream_faithful_x`**: … and for every fault-free read schedule and every buffer capacity that fits
(`need (rendering) ≤ cap`; an `@[ … ]` expression must fit the buffer whole), the STREAMING reader returns exactly the
lexeme list of the document, ends cleanly, at the end of the input; with a smaller buffer it ends in `BufferFull`
(`C07_buffer_full_iff`). -/
theorem C07_stream_faithful_x (ms : DMembers) (gt : Bytes) (bom : Bool) (cap : Nat) (sched : List Step)
    (hv : ValidMX ms gt) (hgt : EndGap gt)
    (hclash : bom = false → ¬∃ r', renderM ms ++ gt = 0xef :: 0xbb :: 0xbf :: r')
    (hw : WfSched sched) (hnf : NoFaults sched) (hfit : need (bomBytes bom ++ (renderM ms ++ gt)) ≤ cap) :
    (streamTokens cap sched (bomBytes bom ++ (renderM ms ++ gt))).toks = (itemsM ms).map (fun x => x.2.tok) ∧
    (streamTokens cap sched (bomBytes bom ++ (renderM ms ++ gt))).out = .end_ ∧
    (streamTokens cap sched (bomBytes bom ++ (renderM ms ++ gt))).final.position =
      (bomBytes bom ++ (renderM ms ++ gt)).length := by
  obtain ⟨s1, s2, s3⟩ := C07_slice_faithful_x ms gt bom hv hgt hclash
  obtain ⟨e1, e2, e3⟩ := C07_stream_eq_slice_fits _ cap sched hw hnf hfit
  refine ⟨e1.trans s1, e2.trans s2, ?_⟩
  exact (e3 (e2.trans s2)).1

-- `@v = @[ 1 + { 2 } ] x = @w`: a variable key, an interpolated expression with blanks, an operator and braces, a variable value
example :
    let doc : DMembers :=
      .field [] false [64, 118] [32] .eq (.scal [32] false [64, 91, 32, 49, 32, 43, 32, 123, 32, 50, 32, 125, 32, 93])
        (.field [32] false [120] [32] .eq (.scal [32] false [64, 119]) .nil)
    (sliceTokens (renderM doc ++ [10])).toks = (itemsM doc).map (fun x => x.2.tok) ∧
    (itemsM doc).map (fun x => x.2.tok) =
      [.unquoted [64, 118], .op .eq, .unquoted [64, 91, 32, 49, 32, 43, 32, 123, 32, 50, 32, 125, 32, 93],
       .unquoted [120], .op .eq, .unquoted [64, 119]] := by
  decide +kernel

/-- **`C07_known_question_scalar`: an unquoted scalar that begins with `?` is NOT read back as one scalar.**  Wherever such
a scalar `?x…` (`x ≠ =`) stands in a rendering — after any valid lexemes `items1` and a gap `g` —, the reader returns the
tokens of `items1` and then the operator token `Exists` for the `?` alone (reader.rs: the `?` arm emits `Operator::Exists`
with or without a following `=`); the rest `x…` is lexed on its own.  So the token list differs from the document's lexeme
list at exactly that position: this shape — and no other — is what `SafeScal` excludes. -/
theorem C07_known_question_scalar (items1 rest : List (Bytes × Lexeme)) (g : Bytes) (c : UInt8) (r gt : Bytes) (bom : Bool)
    (h1 : ValidPreX items1 (g ++ 63 :: c :: (r ++ renderLex rest gt))) (hg : Gap g) (hc : (c == 61) = false)
    (hclash : bom = false → ¬∃ r', renderLex (items1 ++ (g, Lexeme.scalar false (63 :: c :: r)) :: rest) gt = 0xef :: 0xbb :: 0xbf :: r') :
    (∃ more, (sliceTokens (bomBytes bom ++ renderLex (items1 ++ (g, Lexeme.scalar false (63 :: c :: r)) :: rest) gt)).toks =
      items1.map (fun x => x.2.tok) ++ Token.op .exists_ :: more) ∧
    (sliceTokens (bomBytes bom ++ renderLex (items1 ++ (g, Lexeme.scalar false (63 :: c :: r)) :: rest) gt)).toks ≠
      (items1 ++ (g, Lexeme.scalar false (63 :: c :: r)) :: rest).map (fun x => x.2.tok) := by
  obtain ⟨more, h⟩ := question_splits items1 rest g c r gt bom h1 hg hc hclash
  refine ⟨⟨more, h⟩, ?_⟩
  rw [h]
  intro he
  simp only [List.map_append, List.map_cons, List.append_cancel_left_eq, List.cons.injEq, Lexeme.tok] at he
  exact absurd he.1 (by simp)

-- `a=?b c`: the reader returns `a`, `=`, `Exists`, `b`, `c`
example : (sliceTokens [97, 61, 63, 98, 32, 99, 10]).toks =
    [.unquoted [97], .op .eq, .op .exists_, .unquoted [98], .unquoted [99]] := by decide +kernel

/-- **other shapes the reader does not read back as written** (each decided on the model; the harness op `tlex` replays
them on the real code):
* a lone `@` at the very end of the input is an `Eof` error (the `@` arm asks for one more byte; `@x` at the end is fine);
* vertical tab and form feed are boundary bytes but not blanks: between two lexemes they START an unquoted token
  (`1\x0bb` reads as `1`, `\x0bb`);
* `!x` reads as the operator `NotEqual` followed by `x`, like `?x`. -/
theorem C07_known_reader_shapes :
    (sliceTokens [97, 61, 64]).out = .err .eof ∧
    (sliceTokens [97, 61, 64, 120]).toks = [.unquoted [97], .op .eq, .unquoted [64, 120]] ∧
    (sliceTokens [97, 61, 49, 11, 98, 61, 50, 10]).toks =
      [.unquoted [97], .op .eq, .unquoted [49], .unquoted [11, 98], .op .eq, .unquoted [50]] ∧
    (sliceTokens [97, 61, 33, 98, 10]).toks = [.unquoted [97], .op .eq, .op .ne, .unquoted [98]] := by
  decide +kernel

/-! ### "a buffer that can hold the longest token", without the scanner -/

/-- **`C07_fits_if_longest_token`: a sufficient condition for `need ≤ cap` in terms of byte lengths of the layout only.**
Let the input be the rendering of a document `ms` under a valid layout (`ValidMX`: optional BOM, gaps of blanks and complete
`#` comments, `@variable`s and `@[ … ]` included, trailing filler `gt`).  If, with `L + 1 ≤ cap` for each length `L` below
(the exact constant: one byte more than the longest piece, for the look-ahead byte that ends it), and `cap ≥ 3`:

* every lexeme's text in the file — an unquoted scalar's bytes, a quoted scalar with its two quotes, an `@[ … ]`
  expression whole, an operator —,
* every line of every gap and of the trailing filler (`maxLine`: the longest run of bytes without LF) — hence every comment
  `# …` without its LF and every run of blanks on a line —,

then `need data ≤ cap`, and therefore (`C07_buffer_full_iff`) for EVERY fault-free read schedule the streamed run never ends
in `BufferFull` and equals the from-slice run: exactly the document's lexemes, a clean end, at the end of the input.  The
hypotheses do not mention `fbLoop`, `specStep` or `need`. -/
theorem C07_fits_if_longest_token (ms : DMembers) (gt : Bytes) (bom : Bool) (cap : Nat) (sched : List Step)
    (hv : ValidMX ms gt) (hgt : EndGap gt)
    (hclash : bom = false → ¬∃ r', renderM ms ++ gt = 0xef :: 0xbb :: 0xbf :: r')
    (h3 : 3 ≤ cap)
    (hitems : ∀ it ∈ itemsM ms, maxLine it.1 + 1 ≤ cap ∧ it.2.text.length + 1 ≤ cap) (hgtl : maxLine gt + 1 ≤ cap)
    (hw : WfSched sched) (hnf : NoFaults sched) :
    need (bomBytes bom ++ (renderM ms ++ gt)) ≤ cap ∧
    (streamTokens cap sched (bomBytes bom ++ (renderM ms ++ gt))).toks = (itemsM ms).map (fun x => x.2.tok) ∧
    (streamTokens cap sched (bomBytes bom ++ (renderM ms ++ gt))).out = .end_ := by
  have hr : renderLex (itemsM ms) gt = renderM ms ++ gt := renderLex_itemsM ms gt
  have hvl : ValidLexX (itemsM ms) gt := by
    have := validLexX_itemsM ms [] gt (by simpa [renderLex] using hv) (by simpa [ValidLexX] using hgt)
    simpa using this
  have hneed : need (bomBytes bom ++ (renderM ms ++ gt)) ≤ cap := by
    have := fits_if_longest_token (itemsM ms) gt bom cap hvl (by rw [hr]; exact hclash) h3 hitems hgtl
    rwa [hr] at this
  obtain ⟨t1, t2, _⟩ := C07_stream_faithful_x ms gt bom cap sched hv hgt hclash hw hnf hneed
  exact ⟨hneed, t1, t2⟩

/-- the same at the level of lexeme lists (only `need ≤ cap`) -/
theorem C07_fits_if_longest_token_lexemes (items : List (Bytes × Lexeme)) (gt : Bytes) (bom : Bool) (cap : Nat)
    (hv : ValidLexX items gt) (hclash : bom = false → ¬∃ r', renderLex items gt = 0xef :: 0xbb :: 0xbf :: r')
    (h3 : 3 ≤ cap) (hitems : ∀ it ∈ items, maxLine it.1 + 1 ≤ cap ∧ it.2.text.length + 1 ≤ cap) (hgt : maxLine gt + 1 ≤ cap) :
    need (bomBytes bom ++ renderLex items gt) ≤ cap :=
  fits_if_longest_token items gt bom cap hv hclash h3 hitems hgt

-- `a = { "x y" 1 } # c\n b>=2`: the longest lexeme is `"x y"` (5 bytes), the longest gap line ` # c` (4 bytes): 6 bytes fit (the
-- condition is sufficient, not tight: `need` is 4 — the quoted scalar's content and the comment, plus one byte each)
example :
    let doc : DMembers :=
      .field [] false [97] [32] .eq (.cont [32] (.elem (.scal [32] true [120, 32, 121]) (.elem (.scal [32] false [49]) .nil)) [32])
        (.field [32, 35, 32, 99, 10, 32] false [98] [] .ge (.scal [] false [50]) .nil)
    (∀ it ∈ itemsM doc, maxLine it.1 + 1 ≤ 6 ∧ it.2.text.length + 1 ≤ 6) ∧ maxLine [10] + 1 ≤ 6 ∧
    need (renderM doc ++ [10]) = 4 := by
  decide +kernel

/-- **`C07_need_ge_token`: every token the reader returns forces `need ≥` its size** — `tokSize`: the bytes of an unquoted
scalar (for an `@[ … ]` expression this is exact), the content of a quoted scalar plus its closing quote (exact).  For every
input, no layout assumption. -/
theorem C07_need_ge_token (data : Bytes) (t : Token) (ht : t ∈ (sliceTokens data).toks) : tokSize t ≤ need data := by
  have hn : 0 < need data := by unfold need; omega
  have hw : WfSched ([] : List Step) := by intro x hx; simp at hx
  have hnf : NoFaults ([] : List Step) := by intro x hx; simp at hx
  obtain ⟨e1, _, _⟩ := C07_stream_eq_slice_fits data (need data) [] hw hnf (Nat.le_refl _)
  rw [← e1] at ht
  exact C07_returned_tokens_fit data (need data) [] hn t ht

/-- **`C07_need_ge_longest_token`: an unquoted scalar of `L` bytes forces `need ≥ L + 1`** — the scalar and the boundary
byte that ends it must be in the buffer together —, wherever it stands in a valid layout (`@name` variables included; not
`@[ … ]` expressions, which need exactly their length, `C07_need_ge_token`).  With `C07_fits_if_longest_token`: for a
document whose longest piece is an unquoted scalar of `L` bytes, `need = L + 1` exactly. -/
theorem C07_need_ge_longest_token (items1 rest : List (Bytes × Lexeme)) (g bs gt : Bytes) (bom : Bool)
    (hv : ValidLexX (items1 ++ (g, Lexeme.scalar false bs) :: rest) gt)
    (hni : ∀ body, bs ≠ 64 :: 91 :: (body ++ [93]))
    (hclash : bom = false → ¬∃ r', renderLex (items1 ++ (g, Lexeme.scalar false bs) :: rest) gt = 0xef :: 0xbb :: 0xbf :: r') :
    bs.length + 1 ≤ need (bomBytes bom ++ renderLex (items1 ++ (g, Lexeme.scalar false bs) :: rest) gt) :=
  need_ge_unquoted items1 rest g bs gt bom hv hni hclash

-- `abcdef=1 `: the scalar of 6 bytes needs 7; a quoted scalar with 3 bytes of content needs 4
example : need [97, 98, 99, 100, 101, 102, 61, 49, 32] = 7 ∧ need [97, 61, 34, 120, 121, 122, 34, 32] = 4 := by decide +kernel

end Jomini.Props.C07
