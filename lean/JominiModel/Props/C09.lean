import JominiModel.Proofs.BinSkip
import JominiModel.Proofs.SwarReader
import JominiModel.Proofs.TextSkip
import JominiModel.Proofs.TextSkipDoc
/-
C09 — Skipping a container or value lands exactly after its matching close.

Obligations: every `C09_…` theorem of the files listed in tools/meta/C09.json (`theorem_files`:
the binary skip proofs of the byte→token slice and, as they land, the text reader's skip proofs)
plus the restatements below.
-/
namespace Jomini.Props.C09
open Jomini

/-- `count_chunk w b` (the SWAR helper the text `skip_container` uses to count `{` and `}` eight
bytes at a time) is exactly the number of bytes of the word equal to `b`: the block path can
never miscount a brace. -/
theorem C09_countChunk_spec : type_of% @TextReader.Swar.countChunk_spec := @TextReader.Swar.countChunk_spec

/-- Binary `Lexer::skip_value(OPEN)` / `skip_container` land exactly where counting opens and
closes over the lexer's own tokens lands; bracket-looking bytes inside strings and numeric
payloads are inert and rgb blocks are balanced. -/
theorem C09_bin_lexer_skip_lands : type_of% @BinLexer.C09_bin_lexer_skip := @BinLexer.C09_bin_lexer_skip

end Jomini.Props.C09
