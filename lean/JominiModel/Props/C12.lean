import JominiModel.Model.Encoding
import JominiModel.Spec.Encoding
import JominiModel.Generated.Tables
import JominiModel.Proofs.Encoding
/-
C12 — String decoding always yields valid UTF-8 equal to the reference mapping.
Only property theorems live here; helper lemmas are in `Proofs/Encoding.lean` and
`Proofs/SwarEncoding.lean`, reference definitions in `Spec/Encoding.lean`.
-/
namespace Jomini.Props.C12
open Jomini Jomini.Encoding Jomini.Spec.Encoding

/-- the `WINDOWS_1252` table of the compiled code (measured through the public decoder on
every run) is the Windows-1252 code page. -/
theorem C12_tables_win1252 : Tables.win1252 = cp1252Table := win1252_eq

/-- **Windows-1252 decoding equals the reference mapping** (and never panics): the text is
the code-page image of the input after trimming trailing ASCII whitespace and deleting
backslashes; the bytes returned are the UTF-8 encoding (Lean's `String.utf8EncodeChar`)
of those characters. -/
theorem C12_win1252 (d : Bytes) :
    ∃ c, decodeWindows1252 d = .ok c ∧ c.bytes = utf8 ((unescape (trim d)).map cp1252) := by
  rw [decodeWindows1252_eq]
  split
  · exact ⟨_, rfl, rfl⟩
  · rename_i h
    refine ⟨_, rfl, ?_⟩
    simp only [Cow.bytes]
    rw [utf8_cp1252_plain]
    intro x hx
    simp only [Bool.not_eq_true, List.any_eq_false, Bool.or_eq_true, not_or] at h
    have := h x hx
    simpa using this

-- "a\\§ \n"  ↦  "a§"
example : decodeWindows1252 [0x61, 0x5c, 0xa7, 0x20, 0x0a] = .ok (.owned [0x61, 0xc2, 0xa7]) := by decide +kernel
example : utf8 ((unescape (trim [0x61, 0x5c, 0xa7, 0x20, 0x0a])).map cp1252) = [0x61, 0xc2, 0xa7] := by decide +kernel

/-- **zero-copy**: when the trimmed input is escape-free ASCII both decoders return it
borrowed (no allocation), which is what lets `&str` fields borrow from the input. -/
theorem C12_borrowed (d : Bytes) (h : ∀ b ∈ trim d, b < 0x80 ∧ b ≠ 0x5c) :
    decodeWindows1252 d = .ok (.borrowed (trim d)) ∧ decodeUtf8 d = .ok (.borrowed (trim d)) := by
  have h' : ∀ x ∈ trim d, isAscii x = true ∧ x ≠ 92 := by
    intro x hx; have := h x hx; simpa [isAscii] using this
  constructor
  · rw [decodeWindows1252_eq]
    have : (trim d).any (fun x => !isAscii x || x == 92) = false := by
      rw [List.any_eq_false]; intro x hx; have := h' x hx; simp [this.1, this.2]
    simp [this]
  · simp only [decodeUtf8, trimAsciiEnd_eq_trim, utf8Chunks_plain (trim d) h', if_true, trim_idem]

example : ∀ b ∈ trim [0x61, 0x62, 0x20], b < 0x80 ∧ b ≠ 0x5c := by decide +kernel
example : decodeUtf8 [0x61, 0x62, 0x20] = .ok (.borrowed [0x61, 0x62]) := by decide +kernel

/-- the Windows-1252 decoder borrows *exactly* when the trimmed input is escape-free ASCII. -/
theorem C12_win1252_borrowed_iff (d : Bytes) :
    (∃ b, decodeWindows1252 d = .ok (.borrowed b)) ↔ ∀ b ∈ trim d, b < 0x80 ∧ b ≠ 0x5c := by
  constructor
  · rintro ⟨b, hb⟩
    rw [decodeWindows1252_eq] at hb
    split at hb
    · simp at hb
    · rename_i h
      simp only [Bool.not_eq_true, List.any_eq_false, Bool.or_eq_true, not_or] at h
      intro x hx; have := h x hx; simpa [isAscii] using this
  · intro h; exact ⟨_, (C12_borrowed d h).1⟩

end Jomini.Props.C12
