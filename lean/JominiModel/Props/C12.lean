import JominiModel.Model.Encoding
import JominiModel.Spec.Encoding
import JominiModel.Generated.Tables
/-
C12 — String decoding always yields valid UTF-8 equal to the reference mapping.
Only property theorems live here; helper lemmas are in `Proofs/Encoding.lean` and
`Proofs/SwarEncoding.lean`, reference definitions in `Spec/Encoding.lean`.
-/
namespace Jomini.Props.C12
open Jomini Jomini.Encoding Jomini.Spec.Encoding

/-- the `WINDOWS_1252` table of the compiled code (measured through the public decoder on
every run) is the Windows-1252 code page. -/
theorem C12_tables_win1252 : Tables.win1252 = cp1252Table := by decide +kernel

end Jomini.Props.C12
