import JominiModel.Model.Encoding
import JominiModel.Spec.Encoding
import JominiModel.Generated.Tables
import JominiModel.Proofs.Encoding
import JominiModel.Proofs.EncodingBorrow
import JominiModel.Proofs.DecodeBridge
/-
C12 — String decoding always yields valid UTF-8 equal to the reference mapping.
Only property theorems live here; helper lemmas are in `Proofs/Encoding.lean` and
`Proofs/SwarEncoding.lean`, reference definitions in `Spec/Encoding.lean`.
-/
namespace Jomini.Props.C12
open Jomini Jomini.Encoding Jomini.Spec.Encoding Jomini.Spec.Encoding.Utf8

/-- the `WINDOWS_1252` table of the compiled code (measured through the public decoder on
every run) is the Windows-1252 code page. -/
theorem C12_tables_win1252 : Tables.win1252 = cp1252Table := win1252_eq

/-- **Windows-1252 decoding equals the reference mapping** (and never panics): the text is
the code-page image of the input after trimming trailing ASCII whitespace and deleting
backslashes; the bytes returned are the UTF-8 encoding (Lean's `String.utf8EncodeChar`)
of those characters. -/
theorem C12_win1252 (d : Bytes) :
    ∃ c, decodeWindows1252 d = .ok c ∧ c.bytes = utf8 ((unescape (trim d)).map cp1252) := by
  rw [decodeWindows1252_eq]
  split
  · exact ⟨_, rfl, rfl⟩
  · rename_i h
    refine ⟨_, rfl, ?_⟩
    simp only [Cow.bytes]
    rw [utf8_cp1252_plain]
    intro x hx
    simp only [Bool.not_eq_true, List.any_eq_false, Bool.or_eq_true, not_or] at h
    have := h x hx
    simpa using this

-- "a\\§ \n"  ↦  "a§"
example : decodeWindows1252 [0x61, 0x5c, 0xa7, 0x20, 0x0a] = .ok (.owned [0x61, 0xc2, 0xa7]) := by decide +kernel
example : utf8 ((unescape (trim [0x61, 0x5c, 0xa7, 0x20, 0x0a])).map cp1252) = [0x61, 0xc2, 0xa7] := by decide +kernel

/-- **zero-copy**: when the trimmed input is escape-free ASCII both decoders return it
borrowed (no allocation), which is what lets `&str` fields borrow from the input. -/
theorem C12_borrowed (d : Bytes) (h : ∀ b ∈ trim d, b < 0x80 ∧ b ≠ 0x5c) :
    decodeWindows1252 d = .ok (.borrowed (trim d)) ∧ decodeUtf8 d = .ok (.borrowed (trim d)) := by
  have h' : ∀ x ∈ trim d, isAscii x = true ∧ x ≠ 92 := by
    intro x hx; have := h x hx; simpa [isAscii] using this
  constructor
  · rw [decodeWindows1252_eq]
    have : (trim d).any (fun x => !isAscii x || x == 92) = false := by
      rw [List.any_eq_false]; intro x hx; have := h' x hx; simp [this.1, this.2]
    simp [this]
  · simp only [decodeUtf8, trimAsciiEnd_eq_trim, utf8Chunks_plain (trim d) h', if_true, trim_idem]

example : ∀ b ∈ trim [0x61, 0x62, 0x20], b < 0x80 ∧ b ≠ 0x5c := by decide +kernel
example : decodeUtf8 [0x61, 0x62, 0x20] = .ok (.borrowed [0x61, 0x62]) := by decide +kernel

/-- the Windows-1252 decoder borrows *exactly* when the trimmed input is escape-free ASCII. -/
theorem C12_win1252_borrowed_iff (d : Bytes) :
    (∃ b, decodeWindows1252 d = .ok (.borrowed b)) ↔ ∀ b ∈ trim d, b < 0x80 ∧ b ≠ 0x5c := by
  constructor
  · rintro ⟨b, hb⟩
    rw [decodeWindows1252_eq] at hb
    split at hb
    · simp at hb
    · rename_i h
      simp only [Bool.not_eq_true, List.any_eq_false, Bool.or_eq_true, not_or] at h
      intro x hx; have := h x hx; simpa [isAscii] using this
  · intro h; exact ⟨_, (C12_borrowed d h).1⟩

/-- **UTF-8 decoding equals the reference mapping** (and never panics): the bytes of the
returned text are the lossy decoding (maximal-subpart U+FFFD replacement) of the input after
trimming trailing ASCII whitespace and deleting backslashes — whichever of the three exits
of `decode_utf8` is taken (escape found by the SWAR scan, ASCII fast path, `from_utf8_lossy`). -/
theorem C12_utf8 (d : Bytes) :
    ∃ c, decodeUtf8 d = .ok c ∧ c.bytes = lossy (unescape (trim d)) := by
  obtain ⟨c, h1, h2, -⟩ := decodeUtf8_spec d
  exact ⟨c, h1, h2⟩

-- "J\xc3\xa5\\h\xff " ↦ "Jåh\u{FFFD}"
example : decodeUtf8 [0x4a, 0xc3, 0xa5, 0x5c, 0x68, 0xff, 0x20] = .ok (.owned [0x4a, 0xc3, 0xa5, 0x68, 0xef, 0xbf, 0xbd]) := by
  decide +kernel
example : lossy (unescape (trim [0x4a, 0xc3, 0xa5, 0x5c, 0x68, 0xff, 0x20])) = [0x4a, 0xc3, 0xa5, 0x68, 0xef, 0xbf, 0xbd] := by
  decide +kernel

/-- **the result is always valid UTF-8**, for both decoders and on every exit, in particular
on the borrowed ones where the Rust uses `from_utf8_unchecked`: there validity follows from
what the scans established (every byte ASCII; or `from_utf8_lossy` found no invalid part). -/
theorem C12_valid (d : Bytes) :
    (∃ c, decodeWindows1252 d = .ok c ∧ Valid c.bytes) ∧
    (∃ c, decodeUtf8 d = .ok c ∧ Valid c.bytes) := by
  constructor
  · exact decodeWindows1252_valid d
  · obtain ⟨c, h1, h2, -⟩ := decodeUtf8_spec d
    exact ⟨c, h1, by rw [Valid, h2]; exact lossy_valid _⟩

example : ∃ c, decodeUtf8 [0xc3, 0x28] = .ok c ∧ Valid c.bytes := (C12_valid _).2
example : ¬ Valid [0xc3, 0x28] := by decide

/-- when `decode_utf8` returns a borrowed string it is the trimmed input itself, the input
contains no escape, and it is well-formed UTF-8 (so borrowing it as `&str` is sound). -/
theorem C12_utf8_borrowed_sound (d b : Bytes) (h : decodeUtf8 d = .ok (.borrowed b)) :
    b = trim d ∧ Valid (trim d) := by
  obtain ⟨c, h1, -, h3⟩ := decodeUtf8_spec d
  rw [h] at h1
  cases h1
  exact h3 rfl

-- valid non-ASCII UTF-8 without escapes is borrowed too
example : decodeUtf8 [0xc3, 0xa5] = .ok (.borrowed [0xc3, 0xa5]) := by decide +kernel

/-- the UTF-8 decoder borrows *exactly* when the trimmed input has no escape and is
well-formed UTF-8 (converse of `C12_utf8_borrowed_sound`: on such input the `Utf8Chunks`
scanner of `from_utf8_lossy` reports no invalid part, so nothing is allocated).  Holds with
no exception for the empty / all-whitespace input (`trim d = []` is borrowed). -/
theorem C12_utf8_borrowed_iff (d : Bytes) :
    (∃ b, decodeUtf8 d = .ok (.borrowed b)) ↔ (92 ∉ trim d ∧ Valid (trim d)) := by
  constructor
  · rintro ⟨b, hb⟩
    refine ⟨fun h92 => ?_, (C12_utf8_borrowed_sound d b hb).2⟩
    obtain ⟨s, hs⟩ := decodeUtf8_escape_owned d h92
    rw [hb] at hs; cases hs
  · rintro ⟨h92, hv⟩
    exact ⟨_, decodeUtf8_valid_borrowed d h92 hv⟩

-- an instance with non-ASCII bytes ("å"), and a non-instance (C3 not followed by a continuation)
example : 92 ∉ trim [0xc3, 0xa5] ∧ Valid (trim [0xc3, 0xa5]) := by decide +kernel
example : ∃ b, decodeUtf8 [0xc3, 0xa5] = .ok (.borrowed b) := (C12_utf8_borrowed_iff _).2 (by decide +kernel)
example : ¬ ∃ b, decodeUtf8 [0xc3, 0x28] = .ok (.borrowed b) :=
  fun h => absurd ((C12_utf8_borrowed_iff _).1 h) (by decide +kernel)
example : decodeUtf8 [0xc3, 0x28] = .ok (.owned [0xef, 0xbf, 0xbd, 0x28]) := by decide +kernel
example : decodeUtf8 [0x20, 0x0a] = .ok (.borrowed []) := by decide +kernel

/-- complement: the UTF-8 decoder allocates (`Cow::Owned`) *exactly* when the trimmed input
contains an escape or is ill-formed; it never panics, so these are the only two outcomes. -/
theorem C12_utf8_owned_iff (d : Bytes) :
    (∃ s, decodeUtf8 d = .ok (.owned s)) ↔ (92 ∈ trim d ∨ ¬ Valid (trim d)) := by
  constructor
  · rintro ⟨s, hs⟩
    by_cases h92 : 92 ∈ trim d
    · exact .inl h92
    · refine .inr fun hv => ?_
      rw [decodeUtf8_valid_borrowed d h92 hv] at hs; cases hs
  · rintro (h92 | hv)
    · exact decodeUtf8_escape_owned d h92
    · exact decodeUtf8_invalid_owned d (by simpa [Valid] using hv)

/-- for escape-free input the decoded bytes are the trimmed input itself iff it is
well-formed UTF-8 (otherwise at least one U+FFFD was substituted). -/
theorem C12_utf8_identity_iff (d : Bytes) (h92 : 92 ∉ trim d) :
    (∃ c, decodeUtf8 d = .ok c ∧ c.bytes = trim d) ↔ Valid (trim d) := by
  constructor
  · rintro ⟨c, h1, h2⟩
    obtain ⟨c', h1', hv⟩ := (C12_valid d).2
    rw [h1] at h1'; cases h1'; rwa [h2] at hv
  · intro hv
    exact ⟨_, decodeUtf8_valid_borrowed d h92 hv, rfl⟩

example : ∃ s, decodeUtf8 [0x61, 0x5c, 0x62] = .ok (.owned s) := (C12_utf8_owned_iff _).2 (.inl (by decide +kernel))

/-! ### bridges: the string decoders other slices re-model locally are the C12 model

Each theorem says: the C12 decoder does not panic and the local decoder returns exactly the
bytes of its result — so every string value of the text deserializer, the JSON writer and
the binary deserializer models inherits `C12_win1252` / `C12_utf8` / `C12_valid`.
(Proved in `Proofs/DecodeBridge.lean`; restated here so that they are audited with C12.) -/

/-- the code-page tables used by the other slices (measured `binDeWin1252High`, the literal
tables of the text deserializer and JSON models) equal the measured `Tables.win1252`. -/
theorem C12_bridge_tables : type_of% @DecodeBridge.tables := @DecodeBridge.tables

/-- text deserializer model, Windows-1252: `TextDe.decode .w1252 d = (decodeWindows1252 d).bytes`. -/
theorem C12_bridge_textde_w1252 : type_of% @DecodeBridge.textde_w1252 := @DecodeBridge.textde_w1252
/-- text deserializer model, UTF-8: `TextDe.decode .utf8 d = (decodeUtf8 d).bytes`. -/
theorem C12_bridge_textde_utf8 : type_of% @DecodeBridge.textde_utf8 := @DecodeBridge.textde_utf8
/-- JSON model, Windows-1252. -/
theorem C12_bridge_json_w1252 : type_of% @DecodeBridge.json_w1252 := @DecodeBridge.json_w1252
/-- JSON model, UTF-8. -/
theorem C12_bridge_json_utf8 : type_of% @DecodeBridge.json_utf8 := @DecodeBridge.json_utf8
/-- binary deserializer model, Windows-1252 (through the measured `Tables.binDeWin1252High`). -/
theorem C12_bridge_binde_w1252 : type_of% @DecodeBridge.binde_w1252 := @DecodeBridge.binde_w1252

-- e.g. the text deserializer's value for "J\xe5 " under Windows-1252 is valid UTF-8
example (d : Bytes) : Valid (TextDe.decode .w1252 d) := by
  obtain ⟨c, h1, h2⟩ := C12_bridge_textde_w1252 d
  obtain ⟨c', h1', hv⟩ := (C12_valid d).1
  rw [h1] at h1'; cases h1'; rw [h2]; exact hv

end Jomini.Props.C12
