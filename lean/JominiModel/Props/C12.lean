import JominiModel.Model.Encoding
import JominiModel.Spec.Encoding
import JominiModel.Generated.Tables
import JominiModel.Proofs.Encoding
/-
C12 — String decoding always yields valid UTF-8 equal to the reference mapping.
Only property theorems live here; helper lemmas are in `Proofs/Encoding.lean` and
`Proofs/SwarEncoding.lean`, reference definitions in `Spec/Encoding.lean`.
-/
namespace Jomini.Props.C12
open Jomini Jomini.Encoding Jomini.Spec.Encoding Jomini.Spec.Encoding.Utf8

/-- the `WINDOWS_1252` table of the compiled code (measured through the public decoder on
every run) is the Windows-1252 code page. -/
theorem C12_tables_win1252 : Tables.win1252 = cp1252Table := win1252_eq

/-- **Windows-1252 decoding equals the reference mapping** (and never panics): the text is
the code-page image of the input after trimming trailing ASCII whitespace and deleting
backslashes; the bytes returned are the UTF-8 encoding (Lean's `String.utf8EncodeChar`)
of those characters. -/
theorem C12_win1252 (d : Bytes) :
    ∃ c, decodeWindows1252 d = .ok c ∧ c.bytes = utf8 ((unescape (trim d)).map cp1252) := by
  rw [decodeWindows1252_eq]
  split
  · exact ⟨_, rfl, rfl⟩
  · rename_i h
    refine ⟨_, rfl, ?_⟩
    simp only [Cow.bytes]
    rw [utf8_cp1252_plain]
    intro x hx
    simp only [Bool.not_eq_true, List.any_eq_false, Bool.or_eq_true, not_or] at h
    have := h x hx
    simpa using this

-- "a\\§ \n"  ↦  "a§"
example : decodeWindows1252 [0x61, 0x5c, 0xa7, 0x20, 0x0a] = .ok (.owned [0x61, 0xc2, 0xa7]) := by decide +kernel
example : utf8 ((unescape (trim [0x61, 0x5c, 0xa7, 0x20, 0x0a])).map cp1252) = [0x61, 0xc2, 0xa7] := by decide +kernel

/-- **zero-copy**: when the trimmed input is escape-free ASCII both decoders return it
borrowed (no allocation), which is what lets `&str` fields borrow from the input. -/
theorem C12_borrowed (d : Bytes) (h : ∀ b ∈ trim d, b < 0x80 ∧ b ≠ 0x5c) :
    decodeWindows1252 d = .ok (.borrowed (trim d)) ∧ decodeUtf8 d = .ok (.borrowed (trim d)) := by
  have h' : ∀ x ∈ trim d, isAscii x = true ∧ x ≠ 92 := by
    intro x hx; have := h x hx; simpa [isAscii] using this
  constructor
  · rw [decodeWindows1252_eq]
    have : (trim d).any (fun x => !isAscii x || x == 92) = false := by
      rw [List.any_eq_false]; intro x hx; have := h' x hx; simp [this.1, this.2]
    simp [this]
  · simp only [decodeUtf8, trimAsciiEnd_eq_trim, utf8Chunks_plain (trim d) h', if_true, trim_idem]

example : ∀ b ∈ trim [0x61, 0x62, 0x20], b < 0x80 ∧ b ≠ 0x5c := by decide +kernel
example : decodeUtf8 [0x61, 0x62, 0x20] = .ok (.borrowed [0x61, 0x62]) := by decide +kernel

/-- the Windows-1252 decoder borrows *exactly* when the trimmed input is escape-free ASCII. -/
theorem C12_win1252_borrowed_iff (d : Bytes) :
    (∃ b, decodeWindows1252 d = .ok (.borrowed b)) ↔ ∀ b ∈ trim d, b < 0x80 ∧ b ≠ 0x5c := by
  constructor
  · rintro ⟨b, hb⟩
    rw [decodeWindows1252_eq] at hb
    split at hb
    · simp at hb
    · rename_i h
      simp only [Bool.not_eq_true, List.any_eq_false, Bool.or_eq_true, not_or] at h
      intro x hx; have := h x hx; simpa [isAscii] using this
  · intro h; exact ⟨_, (C12_borrowed d h).1⟩

/-- **UTF-8 decoding equals the reference mapping** (and never panics): the bytes of the
returned text are the lossy decoding (maximal-subpart U+FFFD replacement) of the input after
trimming trailing ASCII whitespace and deleting backslashes — whichever of the three exits
of `decode_utf8` is taken (escape found by the SWAR scan, ASCII fast path, `from_utf8_lossy`). -/
theorem C12_utf8 (d : Bytes) :
    ∃ c, decodeUtf8 d = .ok c ∧ c.bytes = lossy (unescape (trim d)) := by
  obtain ⟨c, h1, h2, -⟩ := decodeUtf8_spec d
  exact ⟨c, h1, h2⟩

-- "J\xc3\xa5\\h\xff " ↦ "Jåh\u{FFFD}"
example : decodeUtf8 [0x4a, 0xc3, 0xa5, 0x5c, 0x68, 0xff, 0x20] = .ok (.owned [0x4a, 0xc3, 0xa5, 0x68, 0xef, 0xbf, 0xbd]) := by
  decide +kernel
example : lossy (unescape (trim [0x4a, 0xc3, 0xa5, 0x5c, 0x68, 0xff, 0x20])) = [0x4a, 0xc3, 0xa5, 0x68, 0xef, 0xbf, 0xbd] := by
  decide +kernel

/-- **the result is always valid UTF-8**, for both decoders and on every exit, in particular
on the borrowed ones where the Rust uses `from_utf8_unchecked`: there validity follows from
what the scans established (every byte ASCII; or `from_utf8_lossy` found no invalid part). -/
theorem C12_valid (d : Bytes) :
    (∃ c, decodeWindows1252 d = .ok c ∧ Valid c.bytes) ∧
    (∃ c, decodeUtf8 d = .ok c ∧ Valid c.bytes) := by
  constructor
  · exact decodeWindows1252_valid d
  · obtain ⟨c, h1, h2, -⟩ := decodeUtf8_spec d
    exact ⟨c, h1, by rw [Valid, h2]; exact lossy_valid _⟩

example : ∃ c, decodeUtf8 [0xc3, 0x28] = .ok c ∧ Valid c.bytes := (C12_valid _).2
example : ¬ Valid [0xc3, 0x28] := by decide

/-- when `decode_utf8` returns a borrowed string it is the trimmed input itself, the input
contains no escape, and it is well-formed UTF-8 (so borrowing it as `&str` is sound). -/
theorem C12_utf8_borrowed_sound (d b : Bytes) (h : decodeUtf8 d = .ok (.borrowed b)) :
    b = trim d ∧ Valid (trim d) := by
  obtain ⟨c, h1, -, h3⟩ := decodeUtf8_spec d
  rw [h] at h1
  cases h1
  exact h3 rfl

-- valid non-ASCII UTF-8 without escapes is borrowed too
example : decodeUtf8 [0xc3, 0xa5] = .ok (.borrowed [0xc3, 0xa5]) := by decide +kernel

end Jomini.Props.C12
