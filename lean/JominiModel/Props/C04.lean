import JominiModel.Model.BinDe
import JominiModel.Spec.BinDoc
/-
C04 — binary deserialization agrees across tape, on-demand and streaming paths.
(theorems are added below; helper lemmas live in Proofs/BinDe*.lean)
-/
namespace Jomini.Props.C04
open Jomini Jomini.BinDe

/-- the root deserializers only serve key/value requests: any other root request is the
"can only work with key value pairs" error on all three paths and in the reference. -/
theorem C04_root_only_maps (c : Cfg) (toks : List Tok) (tape : List TTok) (d : BDoc) :
    deOndemand c (.plain .bool) toks = .error .other ∧ deStream c (.plain .bool) toks = .error .other ∧
    deTape c (.plain .bool) tape = .error .other ∧ valueOfBin c (.plain .bool) d = .error .other := by
  simp [deOndemand, deStream, deSeqRoot, deTape, valueOfBin]

end Jomini.Props.C04
