import JominiModel.Model.BinDe
import JominiModel.Spec.BinDoc
import JominiModel.Proofs.BinDeSeq
import JominiModel.Proofs.BinDe
import JominiModel.Proofs.BinDeFlat
import JominiModel.Proofs.BinEndToEnd
import JominiModel.Proofs.BinDeNested
import JominiModel.Proofs.BinEndToEndLex
import JominiModel.Proofs.BinEndToEndAll
import JominiModel.Proofs.BinDeMixed
import JominiModel.Proofs.BinDeMisfit
import JominiModel.Proofs.BinDeMisfitTight
/-
C04 — binary deserialization agrees across tape, on-demand and streaming paths.
Helper lemmas: Proofs/BinDe.lean (dispatch), Proofs/BinDeSeq.lean (sequential readers).

WHAT THE THEOREMS ESTABLISH.  The reference `valueOfBin` (Spec/BinDoc.lean) is a structural traversal of the abstract
document; its LEAF clauses - integers and booleans verbatim, floats through the flavor, strings through the encoding,
token ids through the resolver or the configured fallback, then what the target type accepts - are assembled from the
same functions as the path models (`valLeaf` = `leafPrim` / `idPrim` / `visitF32` / `visitF64` / `decode1252` /
`visitPrim` of Model/BinDe.lean).  So on a leaf the agreement "model = reference" holds by shared definition (plus the
dispatch case analysis of `C04_token_dispatch`); what is PROVED here is (a) that the three paths - one index-linked tape,
two lexeme streams read with different primitives (token reader with rgb pre-parsing, on-demand lexer with id-only
peeking, skipping by balancedness, ghost objects, the optional `=`) - perform the SAME traversal and bookkeeping (maps,
structs with duplicate / missing / unknown fields, token-attribute structs, sequences, Options, colours), and (b) that this
traversal is the reference's.  The leaf functions themselves are tied to the Rust code by the correspondence check
(every model against its real path on generated inputs) and, for floats and the code page, by measured tables.
-/
namespace Jomini.Props.C04
open Jomini Jomini.BinDe

/-- Per token kind × leaf-like request type (typed scalars, `any`, unit enums) the three path
models produce the same Val, and it is the reference value: integers and booleans verbatim,
floats through the flavor, strings through the encoding, token ids through the resolver or the
configured fallback (`valLeaf` = `leafPrim` then what the type accepts).  The sequential paths
leave the rest of the input untouched. -/
theorem C04_token_dispatch (c : Cfg) (f : Nat) (ty : Ty) (h : LeafTy ty) (l : BLeaf)
    (hl : plainTok l.tok = true)   -- the leaf is not the reserved lexeme 0x0243 (the rgb marker is no token id)
    (rest : List Tok) (tape : List TTok) (idx : Nat) (ht : tape[idx]? = some l.ttok) :
    deTok .ondemand c (f + 1) ty l.tok rest = (valLeaf c ty l).map (fun v => (v, rest)) ∧
    deTok .stream c (f + 1) ty l.tok rest = (valLeaf c ty l).map (fun v => (v, rest)) ∧
    tVal c tape (f + 1) ty idx = valLeaf c ty l ∧
    valNode c (.leaf l) ty = valLeaf c ty l :=
  ⟨seq_leaf .ondemand c f ty h l rest hl, seq_leaf .stream c f ty h l rest hl, tape_leaf c tape f ty h l idx ht,
   spec_leaf c ty h l⟩

example : LeafTy .f64 ∧ plainTok (BLeaf.f32 [220, 5, 0, 0]).tok = true ∧ ([TTok.token 8192, TTok.f32 [220, 5, 0, 0]] : List TTok)[1]? = some (BLeaf.f32 [220, 5, 0, 0]).ttok := by
  simp [LeafTy, BLeaf.ttok, BLeaf.tok, plainTok]

/-- the `deserialize_u16` shortcut: a `u16` request on a token id is handed the raw id on all three
paths and in the reference, whatever the resolver and the strategy say (this is how
`#[jomini(token = …)]` keys are matched; the tape's ValueDeserializer has the shortcut since /repo
4ab9b0c, before that it asked the resolver: former finding u16-on-token-id). -/
theorem C04_u16_hint (p : Path) (c : Cfg) (f n : Nat) (rest : List Tok) (hn : plainTok (.id n) = true)
    (tape : List TTok) (idx : Nat) (ht : tape[idx]? = some (.token n)) :
    deTok p c (f + 1) .u16 (.id n) rest = (visitPrim .u16 (.u16 n)).map (fun v => (v, rest)) ∧
    tVal c tape (f + 1) .u16 idx = visitPrim .u16 (.u16 n) ∧
    valLeaf c .u16 (.id n) = visitPrim .u16 (.u16 n) := by
  refine ⟨?_, ?_, ?_⟩
  · simp [deTok, normTok_plain p .u16 (.id n) rest hn, hinted, leafOf]
  · simp [tVal, ht, u16Tok]
  · simp [valLeaf, u16Leaf]

/-- rgb as its components: a sequence request on an rgb value is `ColorSequence` on all three paths
and in the reference — the streaming reader hands over the parsed block, the on-demand path reads
the block after the marker itself, the tape holds one `Rgb` token. -/
theorem C04_rgb_dispatch (c : Cfg) (f : Nat) (et : Ty) (col : Rgb) (rest : List Tok)
    (tape : List TTok) (idx : Nat) (ht : tape[idx]? = some (.rgb col)) :
    fetch .stream (.id RGB_ID :: (rgbBody col ++ rest)) = .tok (.rgb col) rest ∧
    deTok .stream c (f + 1) (.seq et) (.rgb col) rest = (colorVisit (.seq et) col).map (fun v => (v, rest)) ∧
    deTok .ondemand c (f + 1) (.seq et) (.id RGB_ID) (rgbBody col ++ rest) =
      (colorVisit (.seq et) col).map (fun v => (v, rest)) ∧
    tVal c tape (f + 1) (.seq et) idx = colorVisit (.seq et) col ∧
    valNode c (.rgb col) (.seq et) = colorVisit (.seq et) col :=
  ⟨stream_fetch_rgb col rest, stream_rgb_seq c f et col rest, ondemand_rgb_seq c f et col rest,
   tape_rgb_seq c tape f et col idx ht, spec_rgb_seq c et col⟩

/-- … and a full capture of a colour is the name `rgb` followed by the list of its components. -/
theorem C04_rgb_components (col : Rgb) :
    colorVisit (.seq .any) col = seqFrom .any [outerElem1, outerElem2 col] [] ∧
    outerElem1 .any = .ok (renderPrim (.str [114, 103, 98])) ∧
    outerElem2 col .any = .ok ("[" ++ joinComma (col.comps.map (fun v => "u" ++ toString v)) ++ "]") :=
  colorVisit_seq_any col

/-- the root deserializers only serve key/value requests: any other root request is the
"can only work with key value pairs" error on all three paths and in the reference. -/
theorem C04_root_only_maps (c : Cfg) (toks : List Tok) (tape : List TTok) (d : BDoc) :
    deOndemand c (.plain .bool) toks = .error .other ∧ deStream c (.plain .bool) toks = .error .other ∧
    deTape c (.plain .bool) tape = .error .other ∧ valueOfBin c (.plain .bool) d = .error .other := by
  simp [deOndemand, deStream, deSeqRoot, deTape, valueOfBin, valueOfG]

/-- On every lexeme stream without truncation markers and without the rgb marker (`Plain`), for
every root request, resolver and strategy: the on-demand deserializer model either leaves the
token-level model (`beyond`: an `Open` in key position followed by a payload-carrying lexeme, where
the Rust drops only that lexeme's id and resynchronises on bytes) or returns exactly what the
streaming deserializer model returns.  Proof: both are sequential consumers of the same lexemes;
induction over the fuel of the four mutually recursive loops (`seq_paths_rel`), each step from the
agreement of the reader primitives (`C04_readers_agree`).
Not covered by this statement (correspondence + oracle only): streams containing rgb blocks
(locally: `C04_rgb_dispatch`; the on-demand path reads the block when the token is consumed, the
streaming reader when it is fetched) and the absence of `beyond` on well-formed documents (ghost
objects are `{}`, so the dropped lexeme is `Close`). -/
theorem C04_ondemand_eq_stream (c : Cfg) (ty : RootTy) (toks : List Tok) (h : Plain toks) :
    deOndemand c ty toks = .error .beyond ∨ deOndemand c ty toks = deStream c ty toks :=
  seqRoot_rel c ty toks h

/-- reader primitives: on `Plain` streams the on-demand lexer and the streaming reader deliver the
same tokens, read the same value token, skip the same input; `next_key` agrees unless the
on-demand path leaves the token-level model. -/
theorem C04_readers_agree (toks : List Tok) (h : Plain toks) (root : Bool) (f : Nat) :
    fetch .ondemand toks = fetch .stream toks ∧
    fetchRead .ondemand toks = fetchRead .stream toks ∧
    nextValue .ondemand toks = nextValue .stream toks ∧
    Rel (nextKey .ondemand root f toks) (nextKey .stream root f toks) ∧
    (∀ t rest, plainTok t = true → skipTok .ondemand t rest = skipTok .stream t rest) :=
  ⟨fetch_plain toks h, fetchRead_plain toks h, nextValue_plain toks h, nextKey_rel root f toks h,
   fun t rest ht => skipTok_plain t rest ht⟩

example : Plain [.id 8192, .equal, .open, .i32 1, .i32 2, .close, .open, .close, .id 8199, .equal, .quoted [97]] := by
  intro t ht; simp at ht; rcases ht with rfl | rfl | rfl | rfl | rfl | rfl | rfl | rfl | rfl | rfl | rfl <;> simp [plainTok, RGB_ID]

/-
The FLAT statements below (`…_partial`: every field `key = leaf`, map of a leaf-like value type) were the first step and are
kept as corollaries.  The full statements are proved: `C04_tape_eq_ondemand` / `C04_eq_spec_seq` / `C04_eq_spec_tape`
(nested documents to any depth, rgb values, ghost objects, empty containers, duplicate keys; map, struct and
token-attribute struct roots; every resolver and strategy) and, from the BYTES, `C04_paths_end_to_end`; they are restated
at the end of this file together with the tightness of their hypothesis `fitsRoot` (`C04_fits_or_misfit`).
-/
theorem C04_tape_eq_ondemand_partial (c : Cfg) (vt : Ty) (hvt : LeafTy vt) (d : BDoc) (h : Flat d) :
    tapeOf d = some (tapeFields d 0) ∧
    deTape c (.plain (.map vt)) (tapeFields d 0) = deOndemand c (.plain (.map vt)) (tokensOf d) ∧
    deTape c (.plain (.map vt)) (tapeFields d 0) = deStream c (.plain (.map vt)) (tokensOf d) := by
  obtain ⟨h1, h2, h3⟩ := flat_map_all c vt hvt d h
  exact ⟨Flat.tapeOf d h, by rw [h1, h2], by rw [h1, h3]⟩

theorem C04_eq_spec_partial (c : Cfg) (vt : Ty) (hvt : LeafTy vt) (d : BDoc) (h : Flat d) :
    deTape c (.plain (.map vt)) (tapeFields d 0) = valueOfBin c (.plain (.map vt)) d ∧
    deOndemand c (.plain (.map vt)) (tokensOf d) = valueOfBin c (.plain (.map vt)) d ∧
    deStream c (.plain (.map vt)) (tokensOf d) = valueOfBin c (.plain (.map vt)) d :=
  flat_map_all c vt hvt d h

example : Flat (.cons 0 (.id 8192) (.leaf (.i32 5)) (.cons 0 (.quoted [98]) (.leaf (.f32 [220, 5, 0, 0])) .nil)) := by
  simp [Flat, BLeaf.tok, plainTok, RGB_ID]

/-- object→array mixed containers, sequential paths: `k v` is read like `k = v` (trailing scalars are paired). -/
theorem C04_seq_equal_optional_map : type_of% @BinDe.C04_seq_equal_optional_map := @BinDe.C04_seq_equal_optional_map

/-- object→array mixed containers, tape path: the `MixedContainer` marker in key position is `invalid type` for a
map request … -/
theorem C04_mixed_tape_key_map : type_of% @BinDe.C04_mixed_tape_key_map := @BinDe.C04_mixed_tape_key_map

/-- … and for a struct request (plain or token-attribute). -/
theorem C04_mixed_tape_key_struct : type_of% @BinDe.C04_mixed_tape_key_struct := @BinDe.C04_mixed_tape_key_struct

/-- NEGATIVE: on `a = { b = 1  c 2 }` read as `map(map(i32))` the sequential path models answer `{a={b=1,c=2}}`, the
tape path model `invalid type` (the real code does the same: known finding mixed-container-paths-disagree). -/
theorem C04_mixed_paths_differ : type_of% @BinDe.C04_mixed_paths_differ := @BinDe.C04_mixed_paths_differ

/-- (C04, nested documents, all three paths = reference) restated from Proofs/BinDeNestedSeq.lean. -/
theorem C04_tape_eq_ondemand : type_of% @BinDe.C04_tape_eq_ondemand := @BinDe.C04_tape_eq_ondemand

/-- (C04 end to end from the BYTES) restated from Proofs/BinEndToEndAll.lean. -/
theorem C04_paths_end_to_end : type_of% @BinDe.C04_paths_end_to_end := @BinDe.C04_paths_end_to_end

/-- the hypotheses of `C04_paths_end_to_end` are satisfiable on a rich document:
`a = { n = -5  {} col = rgb { 1 2 3 }  list = { { x = yes } {} 7 } }  {} name = "eng"  0x2000 = { }` (nested objects, an
array of an object, an empty container and a scalar, an rgb value, ghost objects inside and at the root, a token id key),
read as `struct { a: struct { n: i64, col: Vec<any>, list: Vec<IgnoredAny> }, name: String, k: Vec<i32> }` with the resolver knowing
`0x2000` as `k`. -/
example :
    let D : BinTape.Fields :=
      .cons 0 (.unquoted [97])
        (.obj (.cons 0 (.unquoted [110]) (.sc (.i32 [251, 255, 255, 255]))
          (.cons 1 (.unquoted [99, 111, 108]) (.rgb [1, 0, 0, 0] [2, 0, 0, 0] [3, 0, 0, 0] none)
            (.cons 0 (.unquoted [108, 105, 115, 116])
              (.arr (.cons (.obj (.cons 0 (.unquoted [120]) (.sc (.bool 1)) .nil)) (.cons (.arr .nil) (.cons (.sc (.i32 [7, 0, 0, 0])) .nil)))) .nil))))
        (.cons 1 (.unquoted [110, 97, 109, 101]) (.sc (.quoted [101, 110, 103]))
          (.cons 0 (.id 8192) (.arr .nil) .nil))
    let ty : RootTy := .plain (.struct (.cons "a" 0 (.struct (.cons "n" 0 .i64 (.cons "col" 0 (.seq .any) (.cons "list" 0 (.seq .ign) .nil))))
      (.cons "name" 0 .str (.cons "k" 0 (.seq .i32) .nil))))
    let c : Cfg := ⟨.error, [(8192, [107])]⟩
    noMixedF D = true ∧ D.wfDoc = true ∧ canonF D = true ∧ fitsRoot c ty (toBDoc D) = true ∧
      (valueOfBin c ty (toBDoc D)).toOption =
        some "{a={n=i-5,col=[s726762,[u1,u2,u3]],list=[ign,ign,ign]},name=s656e67,k=[]}" := by
  decide +kernel

/-- TIGHTNESS of the hypothesis `fitsRoot`: for every document and every root request, the request fits or the traversal
meets one of five named shape / type combinations (`Misfit`); each has a witness on which a path differs from another path
or from the reference (below). -/
theorem C04_fits_or_misfit : type_of% @BinDe.C04_fits_or_misfit := @BinDe.C04_fits_or_misfit

theorem C04_misfit_rgbAsMap : type_of% @BinDe.C04_misfit_rgbAsMap := @BinDe.C04_misfit_rgbAsMap
theorem C04_misfit_arrayAsMap : type_of% @BinDe.C04_misfit_arrayAsMap := @BinDe.C04_misfit_arrayAsMap
theorem C04_misfit_objectAsAny : type_of% @BinDe.C04_misfit_objectAsAny := @BinDe.C04_misfit_objectAsAny
theorem C04_misfit_objectAsSeq : type_of% @BinDe.C04_misfit_objectAsSeq := @BinDe.C04_misfit_objectAsSeq
theorem C04_misfit_rgbInArray : type_of% @BinDe.C04_misfit_rgbInArray := @BinDe.C04_misfit_rgbInArray

/-- SOUNDNESS of the classification (the converse of `C04_fits_or_misfit`): a root request whose traversal meets one of the
five combinations does not fit - no constructor of the `Meets…` relations over-approximates. -/
theorem C04_meets_not_fits : type_of% @BinDe.meets_not_fits := @BinDe.meets_not_fits

/-- EXACTNESS of the classification: a root request fits iff the traversal meets none of the five combinations. -/
theorem C04_fits_iff_no_misfit : type_of% @BinDe.fitsRoot_iff_no_misfit := @BinDe.fitsRoot_iff_no_misfit

/-- the exactness instantiated, both ways.  `a = { b = 1 }  l = { { x = yes } {} 7 }` read as
`struct { a: Map<String, i64>, l: Vec<IgnoredAny> }` fits (computed), so NO derivation of any of the five combinations exists
on it; the same document read as `struct { a: any, … }` meets `objectAsAny` (derivation given), so it does not fit. -/
example :
    let d : BDoc := .cons 0 (.unquoted [97]) (.obj (.cons 0 (.unquoted [98]) (.leaf (.i32 1)) .nil))
      (.cons 0 (.unquoted [108])
        (.arr (.cons (.obj (.cons 0 (.unquoted [120]) (.leaf (.bool true)) .nil)) (.cons (.arr .nil) (.cons (.leaf (.i32 7)) .nil)))) .nil)
    let c : Cfg := ⟨.error, []⟩
    (¬ ∃ m, MeetsRoot c m (.plain (.struct (.cons "a" 0 (.map .i64) (.cons "l" 0 (.seq .ign) .nil)))) d) ∧
      fitsRoot c (.plain (.struct (.cons "a" 0 .any (.cons "l" 0 (.seq .ign) .nil)))) d = false := by
  intro d c
  refine ⟨(C04_fits_iff_no_misfit c _ d).mp (by decide +kernel), ?_⟩
  exact C04_meets_not_fits c .objectAsAny _ d
    (MeetsStructF.here (i := 0) (res_some_of_check (by decide +kernel)) rfl (MeetsN.objAny rfl rfl))

end Jomini.Props.C04
