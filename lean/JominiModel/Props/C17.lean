import JominiModel.Model.Dom
import JominiModel.Spec.Dom
import JominiModel.Proofs.Dom
import JominiModel.Proofs.DomGroups
import JominiModel.Proofs.DomBridge
import JominiModel.Proofs.TextTapeDomWf
import JominiModel.Proofs.JsonWfBridge
/-
C17 — DOM iterators, lengths and groupings agree with each other.

All theorems are about `Model/Dom.lean` (the index arithmetic of src/text/dom.rs), for ALL
token tapes satisfying the decidable hypotheses `WfObj t s e` (the range is a regular field
sequence) / `wfTape t` (structural soundness: C06's conclusion; evaluated by `jmdriver` on
every tape the real parser produced in the check).  `Out.ok` in a conclusion means: no checked
access failed and no loop ran out of fuel.
-/
namespace Jomini.Props.C17
open Jomini Jomini.Dom

/-- a sample tape: `x = { a=b a>c d e }`  (mixed object with a duplicate key) -/
def sample : Tape :=
  #[.unquoted [120], .object 10 true, .unquoted [97], .unquoted [98], .unquoted [97], .operator .gt,
    .unquoted [99], .mixedContainer, .unquoted [100], .unquoted [101], .end_ 1]

example : wfTape sample = true := by decide +kernel
example : WfObj sample 2 10 := by decide +kernel
example : WfObj sample 0 11 := by decide +kernel

/-- count(fields()) = fields_len() = size_hint().0, for every regular object range (and hence,
by `C17_fields_step`, at every position of the iterator). -/
theorem C17_fields_len (t : Tape) (s e : Nat) (h : WfObj t s e) :
    ∃ fs q, fields t s e = .ok (fs, q) ∧ fieldsLen t s e = .ok fs.length ∧
      fieldsSizeHint t s e = .ok fs.length := by
  unfold WfObj at h
  obtain ⟨q, hq⟩ := Option.isSome_iff_exists.mp h
  obtain ⟨fs, h1, h2, _⟩ := objWalkF_spec t e _ s q 0 hq
  exact ⟨fs, q, h1, by simpa [fieldsLen] using h2, by simpa [fieldsSizeHint, fieldsLen] using h2⟩

example : fields sample 2 10 = .ok ([⟨2, .unquoted [97], [97], none, 3⟩, ⟨4, .unquoted [97], [97], some .gt, 6⟩], 7) := by
  decide +kernel

/-- after `FieldsIter::next` yields an item the rest of the range is again a regular field
sequence: `C17_fields_len` (count = size hint) holds at every position of the iterator. -/
theorem C17_fields_step (t : Tape) (s e n : Nat) (fld : Field) (h : WfObj t s e)
    (hn : fieldsNext t s e = .ok (some (fld, n))) : WfObj t n e := by
  unfold WfObj at h ⊢
  obtain ⟨q, hq⟩ := Option.isSome_iff_exists.mp h
  have := objWalkF_step t e t.size s q n fld hq hn
  have := objWalkF_mono t e _ _ _ this
  simp [objWalk, fuelOf, this]

/-- count(values()) = len() = both size-hint bounds, for every range inside a tape whose
container links point forward (any `s`: the statement holds at every iterator position). -/
theorem C17_values_len (t : Tape) (s e : Nat) (hl : linksOk t = true) (he : e ≤ t.size) :
    ∃ vs, values t s e = .ok vs ∧ valuesLen t s e = .ok vs.length ∧
      valuesSizeHint t s e = .ok (vs.length, some vs.length) := by
  obtain ⟨vs, h1, h2⟩ := valuesF_spec t (fwdLinks_of_linksOk t hl) e he (fuelOf t) s 0 (by unfold fuelOf; omega)
  have h2' : valuesLen t s e = .ok vs.length := by simpa [valuesLen] using h2
  exact ⟨vs, h1, h2', by simp [valuesSizeHint, h2']⟩

example : values sample 8 10 = .ok [8, 9] ∧ valuesLen sample 8 10 = .ok 2 := by decide +kernel

/-- field_groups() is the stable group-by-key of fields(): each distinct key once, in order of
first appearance, with exactly its (operator, value) pairs in field order; its size hint is the
number of groups; the inner iterator ends where fields() ends (same remainder). -/
theorem C17_groups (t : Tape) (s e : Nat) (h : WfObj t s e) :
    ∃ fs q gs, fields t s e = .ok (fs, q) ∧ fieldGroups t s e = .ok (gs.length, gs, q) ∧
      gs.map groupOut = groupBy fs := by
  obtain ⟨fs, q, h1, _⟩ := C17_fields_len t s e h
  refine ⟨fs, q, groupsIter fs (buildMap fs []), h1, ?_, fieldGroups_eq_groupBy fs⟩
  have hlen : (buildMap fs []).len = (groupsIter fs (buildMap fs [])).length := by
    rw [fieldGroups_len, ← fieldGroups_eq_groupBy, List.length_map]
  simp [fieldGroups, h1, hlen]

/-- corollary: flattening the groups is a permutation of the fields' (operator, value) pairs
(no entry lost, none invented). -/
theorem C17_groups_perm (t : Tape) (s e : Nat) (h : WfObj t s e) :
    ∃ fs q gs, fields t s e = .ok (fs, q) ∧ fieldGroups t s e = .ok (gs.length, gs, q) ∧
      ((gs.map groupOut).flatMap (·.2)).Perm (fs.map Field.ov) := by
  obtain ⟨fs, q, gs, h1, h2, h3⟩ := C17_groups t s e h
  exact ⟨fs, q, gs, h1, h2, h3 ▸ groupBy_flatten_perm fs⟩

example : (fieldGroups sample 2 10) =
    .ok (1, [(⟨2, .unquoted [97], [97], none, 3⟩, .multiple [(none, 3), (some .gt, 6)])], 7) := by decide +kernel

/-- the fields of a regular object stop exactly at the end of the range or at a
`MixedContainer` token; in the latter case the remainder is exactly what follows it. -/
theorem C17_remainder_mixed (t : Tape) (s e : Nat) (h : WfObj t s e) :
    ∃ fs q, fields t s e = .ok (fs, q) ∧
      (q = e ∨ (q < e ∧ t[q]? = some .mixedContainer ∧ remainder t q e = (q + 1, e))) := by
  unfold WfObj at h
  obtain ⟨q, hq⟩ := Option.isSome_iff_exists.mp h
  obtain ⟨fs, h1, _, h3, _⟩ := objWalkF_spec t e _ s q 0 hq
  refine ⟨fs, q, h1, ?_⟩
  rcases h3 with h3 | ⟨h3, h4⟩
  · exact Or.inl h3
  · exact Or.inr ⟨h3, h4, remainder_mixed t e q h4⟩

/-- root reader with no `MixedContainer` at top level: the remainder is empty. -/
theorem C17_remainder_root (t : Tape) : remainder t t.size t.size = (t.size, t.size) :=
  remainder_root t

/-- object view of an `Object` token whose fields run to its end: the remainder is empty. -/
theorem C17_remainder_object (t : Tape) (hw : wfTape t = true) (vi e : Nat) (m : Bool)
    (hv : t[vi]? = some (.object e m)) : remainder t e e = (e, e) := by
  simp only [wfTape, Bool.and_eq_true] at hw
  exact remainder_object t vi e m hv (end_of_linksOk t hw.1.1.1 vi e _ hv rfl)

/-- object view of an `Array` token (`read_object` gives the empty range at its end): no
fields, and the remainder is the whole array, i.e. the array view. -/
theorem C17_remainder_array (t : Tape) (hw : wfTape t = true) (vi e : Nat) (m : Bool)
    (hv : t[vi]? = some (.array e m)) :
    readObject t vi = .ok (some (e, e)) ∧ fields t e e = .ok ([], e) ∧
      readArray t vi = .ok (some (remainder t e e)) := by
  simp only [wfTape, Bool.and_eq_true] at hw
  have := remainder_array t vi e m hv (end_of_linksOk t hw.1.1.1 vi e _ hv rfl)
  refine ⟨by simp [readObject, hv], by simp [fields, fuelOf, fieldsF, fieldsNext], ?_⟩
  simp [readArray, hv, this]

/-- array view of an `Object` flagged mixed = the remainder of its object view: the loop of
`read_array` finds the `MixedContainer` token at which `fields()` stops. -/
theorem C17_remainder_mixed_view (t : Tape) (hw : wfTape t = true) (vi e : Nat)
    (hv : t[vi]? = some (.object e true)) :
    ∃ fs q, fields t (vi + 1) e = .ok (fs, q) ∧ q < e ∧ remainder t q e = (q + 1, e) ∧
      readArray t vi = .ok (some (remainder t q e)) := by
  simp only [wfTape, Bool.and_eq_true] at hw
  obtain ⟨q, hq, hlt⟩ := objectsOkF_get t t.toList 0 vi e true hw.2 (by simpa using hv)
  simp only [Nat.zero_add] at hq
  have hlt := hlt rfl
  obtain ⟨fs, h1, _, h3, hpq, _⟩ := objWalkF_spec t e _ (vi + 1) q 0 hq
  have hm : t[q]? = some .mixedContainer := by
    rcases h3 with h3 | h3
    · omega
    · exact h3.2
  have hqs : q < t.size := getElem?_lt hm
  have := mixedStartF_spec t e _ (vi + 1) q hq hm (fuelOf t) (by unfold fuelOf; omega)
  exact ⟨fs, q, h1, hlt, remainder_mixed t e q hm, by simp [readArray, hv, this, remainder_mixed t e q hm]⟩

example : readArray sample 1 = .ok (some (8, 10)) ∧ remainder sample 7 10 = (8, 10) := by decide +kernel

/-- closure under navigation: on a structurally sound tape the root reader and every reader
that `read_object` returns is a regular object range inside the tape, and every reader that
`read_array` returns (plain, mixed and header views) is a range inside the tape — so the
theorems above hold "at every object and array reachable through the readers". -/
theorem C17_closure (t : Tape) (hw : wfTape t = true) :
    WfObj t (rootReader t).1 (rootReader t).2 ∧
    (∀ vi r, readObject t vi = .ok (some r) → WfObj t r.1 r.2 ∧ r.1 ≤ r.2 ∧ r.2 ≤ t.size) ∧
    (∀ vi r, readArray t vi = .ok (some r) → r.1 ≤ r.2 ∧ r.2 ≤ t.size) := by
  have hw' := hw
  simp only [wfTape, Bool.and_eq_true] at hw
  obtain ⟨⟨⟨hl, _⟩, hroot⟩, hobj⟩ := hw
  have hf := fwdLinks_of_linksOk t hl
  refine ⟨hroot, ?_, ?_⟩
  · intro vi r hr
    unfold readObject at hr
    cases hv : t[vi]? with
    | none => simp [hv] at hr
    | some tok =>
      cases tok <;> simp [hv] at hr
      · rename_i e m
        subst hr
        have := hf vi _ e hv rfl
        refine ⟨?_, Nat.le_refl _, by omega⟩
        simp [WfObj, objWalk, fuelOf, objWalkF]
      · rename_i e m
        subst hr
        have := hf vi _ e hv rfl
        obtain ⟨q, hq, _⟩ := objectsOkF_get t t.toList 0 vi e m hobj (by simpa using hv)
        simp only [Nat.zero_add] at hq
        exact ⟨by simp [WfObj, hq], by simp; omega, by simp; omega⟩
  · intro vi r hr
    cases hv : t[vi]? with
    | none => simp [readArray, hv] at hr
    | some tok =>
      cases tok with
      | array e m =>
        have := hf vi _ e hv rfl
        simp [readArray, hv] at hr; subst hr; simp; omega
      | object e m =>
        have hfe := hf vi _ e hv rfl
        cases m with
        | false => simp [readArray, hv] at hr; subst hr; simp; omega
        | true =>
          obtain ⟨fs, q, _, hlt, hrem, h3⟩ := C17_remainder_mixed_view t hw' vi e hv
          rw [h3, hrem] at hr
          simp at hr
          subst hr
          simp; omega
      | header b =>
        have hlk := linkOk_of_wf t hl vi _ hv
        simp only [linkOkAt] at hlk
        cases hv1 : t[vi + 1]? with
        | none => simp [hv1] at hlk
        | some tk =>
          cases tk <;> simp [hv1, TTok.isContainer] at hlk
          all_goals
            rename_i e' m'
            have := hf (vi + 1) _ e' hv1 rfl
            simp [readArray, hv, nextIdx, fuelOf, nextIdxF, hv1] at hr
            subst hr; simp; omega
      | _ => simp [readArray, hv] at hr

/-- no checked access fails: on a structurally sound tape every reader call on an in-range
value index succeeds (`read_object`, `read_array` incl. the mixed-container loop and the header
view, `tokens_len`), and on every regular object range `fields()`, `fields_len()`,
`field_groups()` and `tokens_len()` succeed and every yielded `ValueReader` points into the tape
(so `token()` and further navigation are in range). Values: `C17_values_len`. -/
theorem C17_no_panic (t : Tape) (hw : wfTape t = true) :
    (∀ vi, vi < t.size → (∃ r, readObject t vi = .ok r) ∧ (∃ r, readArray t vi = .ok r) ∧
      (∃ n, valueTokensLen t vi = .ok n)) ∧
    (∀ s e, WfObj t s e → s ≤ e →
      ∃ fs q n gs, fields t s e = .ok (fs, q) ∧ fieldsLen t s e = .ok n ∧
        fieldGroups t s e = .ok gs ∧ tokensLen s e = .ok (e - s) ∧
        ∀ fl ∈ fs, fl.valueIdx < t.size ∧ fl.key.keyScalar? = some fl.keyBytes) := by
  have hw' := hw
  simp only [wfTape, Bool.and_eq_true] at hw
  obtain ⟨⟨⟨hl, _⟩, hroot⟩, hobj⟩ := hw
  have hf := fwdLinks_of_linksOk t hl
  constructor
  · intro vi hvi
    have hv : t[vi]? = some t[vi] := by simp [hvi]
    generalize t[vi] = tok at hv
    refine ⟨?_, ?_, ?_⟩
    · cases tok <;> simp [readObject, hv]
    · cases tok with
      | object e m =>
        cases m with
        | false => simp [readArray, hv]
        | true =>
          obtain ⟨_, _, _, _, _, h3⟩ := C17_remainder_mixed_view t hw' vi e hv
          exact ⟨_, h3⟩
      | header b =>
        have hlk := linkOk_of_wf t hl vi _ hv
        simp only [linkOkAt] at hlk
        cases hv1 : t[vi + 1]? with
        | none => simp [hv1] at hlk
        | some tk =>
          cases tk <;> simp [hv1, TTok.isContainer] at hlk
          all_goals simp [readArray, hv, nextIdx, fuelOf, nextIdxF, hv1]
      | _ => simp [readArray, hv]
    · cases tok <;> simp [valueTokensLen, hv, TTok.containerEnd?]
      all_goals
        rename_i e m
        have := hf vi _ e hv rfl
        exact ⟨_, by rw [if_pos (by omega)]⟩
  · intro s e h hse
    obtain ⟨fs, q, gs, h1, h2, _⟩ := C17_groups t s e h
    obtain ⟨fs', q', h1', h2', _⟩ := C17_fields_len t s e h
    unfold WfObj at h
    obtain ⟨q0, hq0⟩ := Option.isSome_iff_exists.mp h
    obtain ⟨fs0, h10, _, _, _, h5⟩ := objWalkF_spec t e _ s q0 0 hq0
    have : fields t s e = .ok (fs0, q0) := h10
    rw [h1] at this
    have hfs : fs = fs0 := by injection this with this; exact (Prod.mk.inj this).1
    refine ⟨fs, q, _, _, h1, h2', h2, by simp [tokensLen, hse], ?_⟩
    intro fl hfl
    have := (h5 fl (hfs ▸ hfl)).1
    exact ⟨this.2.2.2.2, this.2.1⟩

example : readArray sample 1 = .ok (some (8, 10)) ∧ readObject sample 1 = .ok (some (2, 10)) := by decide +kernel


/-! ### bridges: the DOM walks duplicated in other slices' models agree with `Model/Dom.lean`

(`Proofs/DomBridge.lean`; restated here so that they are audited with C17.)  `jTape` / `jTok` /
`jField` / `jOut` translate the JSON model's tokens, items and outcomes (`panic ↦ panic`,
`hang ↦ fuel`). -/

open Jomini.DomBridge in
/-- JSON model: `next_idx` agrees for every tape and every index up to one past the end. -/
theorem C17_bridge_json_nextIdx : type_of% @json_nextIdx := @json_nextIdx
open Jomini.DomBridge in
theorem C17_bridge_json_nextIdxHeader : type_of% @json_nextIdxHeader := @json_nextIdxHeader
open Jomini.DomBridge in
theorem C17_bridge_json_nextIdxValues : type_of% @json_nextIdxValues := @json_nextIdxValues
open Jomini.DomBridge in
/-- JSON model: one step of `FieldsIter::next` agrees for every tape and state incl. the panic /
finished outcome, except on the `debug_assert!` arm (JSON model = debug build, Dom = release). -/
theorem C17_bridge_json_fieldsNext : type_of% @json_fieldsNext := @json_fieldsNext
open Jomini.DomBridge in
/-- JSON model: on every `WfObj` range `fieldsAll` = `Dom.fields` (items and final position) and
`fieldsLen` = their number — so C17_fields_len / C17_groups / C17_remainder apply to it. -/
theorem C17_bridge_json_fields : type_of% @json_fields := @json_fields
open Jomini.DomBridge in
/-- JSON model: whenever `Dom.values` succeeds (C17_values_len: always on a sound tape)
`valuesAll` yields the same indices. -/
theorem C17_bridge_json_values : type_of% @json_values := @json_values
open Jomini.DomBridge in
theorem C17_bridge_json_remainder : type_of% @json_remainder := @json_remainder
open Jomini.DomBridge in
/-- JSON model: `read_array` (plain, mixed loop, header view) gives the reader `Dom.readArray` gives. -/
theorem C17_bridge_json_readArray : type_of% @json_readArray := @json_readArray

open Jomini.DomBridge in
/-- JSON model: `groupEntries` serializes, in order, exactly the groups `jsonGroups` lists … -/
theorem C17_bridge_json_groupEntries : type_of% @json_groupEntries := @json_groupEntries
open Jomini.DomBridge in
/-- … and those are the Dom model's groups = the stable group-by-key of the fields. -/
theorem C17_bridge_json_groups : type_of% @json_groups := @json_groups

/-! text deserializer model (`Model/TextDe.lean`, tape path): `tTape` / `tTok` translate its
tokens; `dOut` maps the Dom outcomes onto its single failure outcome (`panic`). -/

open Jomini.DomBridge in
/-- TextDe model: `next_idx` is identical for every tape, index and fuel. -/
theorem C17_bridge_textde_nextIdx : type_of% @textde_nextIdx := @textde_nextIdx
open Jomini.DomBridge in
theorem C17_bridge_textde_nextIdxHeader : type_of% @textde_nextIdxHeader := @textde_nextIdxHeader
open Jomini.DomBridge in
theorem C17_bridge_textde_nextIdxValues : type_of% @textde_nextIdxValues := @textde_nextIdxValues
open Jomini.DomBridge in
/-- TextDe model: one step of `FieldsIter::next` agrees (item, finished, panic) for every tape
and state, except on the `debug_assert!` arm. -/
theorem C17_bridge_textde_fieldsNext : type_of% @textde_fieldsNext := @textde_fieldsNext
open Jomini.DomBridge in
theorem C17_bridge_textde_remainder : type_of% @textde_remainder := @textde_remainder
open Jomini.DomBridge in
/-- TextDe model: `read_array` (plain, mixed loop, header view) is identical for every tape. -/
theorem C17_bridge_textde_readArray : type_of% @textde_readArray := @textde_readArray

/-! writer model (`Model/Writer.lean`, the walk behind `writeTape`): `wTape` / `wTok`; `wOut` maps
the Dom outcomes onto `WErr.panic` / `WErr.fuel`.  The writer's `FieldsIter` / `ValuesIter` steps
are fused with the writing (`writeObjectCore`, `writeValues`) and use exactly these three
functions for their index arithmetic. -/

open Jomini.DomBridge in
/-- writer model: `next_idx` is identical for every token list and index. -/
theorem C17_bridge_writer_nextIdx : type_of% @writer_nextIdx := @writer_nextIdx
open Jomini.DomBridge in
theorem C17_bridge_writer_nextIdxHeader : type_of% @writer_nextIdxHeader := @writer_nextIdxHeader
open Jomini.DomBridge in
theorem C17_bridge_writer_nextIdxValues : type_of% @writer_nextIdxValues := @writer_nextIdxValues

/-- every tape that is the token list of a JSON-slice document tree satisfies the DOM hypothesis
(the converse fails: `json_wf_converse_fails`). -/
theorem C17_bridge_json_wf : type_of% @Jomini.JsonWfBridge.json_wf := @Jomini.JsonWfBridge.json_wf

/-- C17 at EVERY tape the text parser model accepts (no hypothesis left): the root reader and every
reader reachable from it are regular object / array ranges inside the tape, so `C17_fields_len`,
`C17_values_len`, `C17_groups`, `C17_remainder_*` and `C17_no_panic` apply at every reachable
object and array of every parsed document. -/
theorem C17_on_parsed_tapes (input : Bytes) (T : List TextTape.Tok) (b : Bool)
    (h : TextTape.parse input = .ok T b) :
    WfObj (TextTape.toDomTape T) (rootReader (TextTape.toDomTape T)).1 (rootReader (TextTape.toDomTape T)).2 ∧
    (∀ vi r, readObject (TextTape.toDomTape T) vi = .ok (some r) →
      WfObj (TextTape.toDomTape T) r.1 r.2 ∧ r.1 ≤ r.2 ∧ r.2 ≤ (TextTape.toDomTape T).size) ∧
    (∀ vi r, readArray (TextTape.toDomTape T) vi = .ok (some r) → r.1 ≤ r.2 ∧ r.2 ≤ (TextTape.toDomTape T).size) :=
  C17_closure _ (TextTape.C17_parsed_tape_wf input T b h)

end Jomini.Props.C17
