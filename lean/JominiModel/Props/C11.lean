import JominiModel.Model.Scalar
import JominiModel.Proofs.Scalar
import JominiModel.Generated.Tables
/-
C11 — Scalar numeric and boolean conversions are exact or refuse.
Only property theorems live here; helper lemmas are in `Proofs/Scalar.lean`.
-/
namespace Jomini.Props.C11
open Jomini Jomini.Scalar

/-- `to_bool` accepts exactly "yes" and "no". -/
theorem C11_bool (s : Bytes) (b : Bool) :
    Scalar.toBool s = .ok b ↔ (s = [121, 101, 115] ∧ b = true) ∨ (s = [110, 111] ∧ b = false) := by
  unfold Scalar.toBool
  split <;> simp_all

/-- every all-digit rendering of a value that fits converts to exactly that value, and a
rendering of a value that does not fit is refused (never wrapped). -/
theorem C11_u64_digits (c : UInt8) (body : Bytes) (hc : isDigit c = true) (hb : allDigits body = true) :
    toU64 (c :: body) =
      if decVal (c :: body) ≤ U64_MAX then .ok (decVal (c :: body)) else .error .overflow := by
  have hd : digitVal c ≤ U64_MAX := by
    have := c.toNat_lt
    simp only [digitVal, U64_MAX]; omega
  simp only [toU64, hc, if_true, toU64T2_allDigits body (digitVal c) hb hd, decVal, decFrom, Nat.zero_mul, Nat.zero_add]
  by_cases h : decFrom body (digitVal c) ≤ U64_MAX <;> simp [h]

example : toU64 [49, 50] = .ok 12 := by rfl

end Jomini.Props.C11
