import JominiModel.Model.Scalar
import JominiModel.Spec.Scalar
import JominiModel.Proofs.Scalar
import JominiModel.Proofs.ScalarCross
import JominiModel.Generated.Tables
/-
C11 — Scalar numeric and boolean conversions are exact or refuse.
Only property theorems live here; helper lemmas are in `Proofs/Scalar.lean`, reference
definitions in `Spec/Scalar.lean`.
-/
namespace Jomini.Props.C11
open Jomini Jomini.Scalar Jomini.Spec.Scalar

/-- `to_bool` accepts exactly "yes" and "no". -/
theorem C11_bool (s : Bytes) (b : Bool) :
    Scalar.toBool s = .ok b ↔ (s = [121, 101, 115] ∧ b = true) ∨ (s = [110, 111] ∧ b = false) := by
  unfold Scalar.toBool
  split <;> simp_all

example : Scalar.toBool [121, 101, 115] = .ok true := by rfl

/-- every all-digit rendering of a value that fits converts to exactly that value, and a
rendering of a value that does not fit is refused (never wrapped). -/
theorem C11_u64_digits (c : UInt8) (body : Bytes) (hc : isDigit c = true) (hb : allDigits body = true) :
    toU64 (c :: body) =
      if decVal (c :: body) ≤ U64_MAX then .ok (decVal (c :: body)) else .error .overflow := by
  have hd : digitVal c ≤ U64_MAX := by
    have := c.toNat_lt
    simp only [digitVal, U64_MAX]; omega
  simp only [toU64, hc, if_true, toU64T2_allDigits body (digitVal c) hb hd, decVal, decFrom, Nat.zero_mul, Nat.zero_add]
  by_cases h : decFrom body (digitVal c) ≤ U64_MAX <;> simp [h]

example : toU64 [49, 50] = .ok 12 := by rfl

/-- **to_u64 is exact, complete and refusing**: it returns `v` exactly for the decimal
renderings (optional `+`, digits, leading zeros allowed; bare `"+"` is 0) of the values
`0 ..= u64::MAX`; everything else is an error. -/
theorem C11_u64 (s : Bytes) (v : Nat) :
    toU64 s = .ok v ↔ IsU64Rendering s v ∧ v ≤ 2^64 - 1 := by
  rw [toU64_ok_iff]
  constructor
  · rintro ⟨c, data, rfl, h | h⟩
    · obtain ⟨hc, h⟩ := h
      rw [toU64T2_ok_nil _ _ _ (digitVal_le c)] at h
      obtain ⟨hd, hv, hle⟩ := h
      refine ⟨⟨c :: data, ?_, ?_, Or.inl ⟨rfl, by simp⟩⟩, hle⟩
      · simp [allDigits_cons, hc, hd]
      · rw [decVal_cons]; exact hv
    · obtain ⟨rfl, h⟩ := h
      rw [toU64T2_ok_nil _ _ _ (by simp [U64_MAX])] at h
      obtain ⟨hd, hv, hle⟩ := h
      exact ⟨⟨data, hd, hv, Or.inr rfl⟩, hle⟩
  · rintro ⟨⟨body, hd, hv, h | h⟩, hle⟩
    · obtain ⟨rfl, hne⟩ := h
      cases s with
      | nil => exact absurd rfl hne
      | cons c data =>
        rw [allDigits_cons] at hd
        refine ⟨c, data, rfl, Or.inl ⟨hd.1, ?_⟩⟩
        rw [toU64T2_ok_nil _ _ _ (digitVal_le c)]
        exact ⟨hd.2, by rw [hv, decVal_cons], hle⟩
    · subst h
      refine ⟨43, body, rfl, Or.inr ⟨rfl, ?_⟩⟩
      rw [toU64T2_ok_nil _ _ _ (by simp [U64_MAX])]
      exact ⟨hd, hv, hle⟩

example : IsU64Rendering [43, 48, 48, 55] 7 ∧ 7 ≤ 2^64 - 1 :=
  ⟨⟨[48, 48, 55], by decide, by decide, Or.inr rfl⟩, by decide⟩
example : toU64 [43] = .ok 0 := by rfl   -- the quirk: bare "+"

/-- a rendering of a value above `u64::MAX` is refused with `Overflow` (never wrapped). -/
theorem C11_u64_out_of_range (s : Bytes) (v : Nat) (h : IsU64Rendering s v) (hv : v > 2^64 - 1) :
    toU64 s = .error .overflow := by
  obtain ⟨body, hd, rfl, h | h⟩ := h
  · obtain ⟨rfl, hne⟩ := h
    cases s with
    | nil => exact absurd rfl hne
    | cons c data =>
      rw [allDigits_cons] at hd
      rw [C11_u64_digits c data hd.1 hd.2]
      have : ¬ decVal (c :: data) ≤ U64_MAX := by simp only [U64_MAX]; omega
      simp [this]
  · subst h
    have : ¬ decFrom body 0 ≤ U64_MAX := by simp only [U64_MAX, decVal] at *; omega
    simp [toU64, not_isDigit_43, toU64T2_allDigits body 0 hd (by simp [U64_MAX]), this]

-- 2^64 = 18446744073709551616
example : toU64 [49,56,52,52,54,55,52,52,48,55,51,55,48,57,53,53,49,54,49,54] = .error .overflow := by rfl

/-- a string with a byte that is neither a digit nor `+` is refused. -/
theorem C11_u64_foreign (s : Bytes) (h : ∃ b ∈ s, Foreign [43] b) : ∃ e, toU64 s = .error e := by
  cases hr : toU64 s with
  | error e => exact ⟨e, rfl⟩
  | ok v =>
    exfalso
    obtain ⟨⟨body, hd, -, hs⟩, -⟩ := (C11_u64 s v).1 hr
    obtain ⟨b, hb, hnd, hns⟩ := h
    have hbody : ∀ x ∈ body, isDigit x = true := by simpa [allDigits] using hd
    rcases hs with ⟨rfl, -⟩ | rfl
    · simp [hbody b hb] at hnd
    · rcases List.mem_cons.1 hb with rfl | hb
      · simp at hns
      · simp [hbody b hb] at hnd

example : ∃ b ∈ ([49, 44, 50] : Bytes), Foreign [43] b := ⟨44, by decide, by decide, by decide⟩

/-- **to_i64 is exact, complete and refusing**: it returns `v` exactly for the decimal
renderings (optional `+` or `-`, digits, leading zeros allowed; bare `"+"` / `"-"` are 0) of
the values `i64::MIN ..= i64::MAX` = `-2^63 ..= 2^63-1`; everything else is an error.  The
rendering ties the sign to the value, so `"-9223372036854775808"` is `-2^63` (converts) and
`"9223372036854775808"` is `2^63` (refused). -/
theorem C11_i64 (s : Bytes) (v : Int) :
    toI64 s = .ok v ↔ IsI64Rendering s v ∧ -2^63 ≤ v ∧ v ≤ 2^63 - 1 := by
  rw [toI64_ok_iff]
  have h0 : (0 : Nat) ≤ U64_MAX := by simp [U64_MAX]
  constructor
  · rintro ⟨c, data, n, rfl, h | h | h⟩
    · obtain ⟨hc, h, hn, rfl⟩ := h
      rw [toU64T2_ok_nil _ _ _ (digitVal_le c)] at h
      obtain ⟨hd, hv, -⟩ := h
      refine ⟨⟨c :: data, ?_, Or.inl ⟨rfl, by simp, ?_⟩⟩, ?_⟩
      · simp [allDigits_cons, hc, hd]
      · rw [decVal_cons, hv]
      · simp only [I64_MAX] at hn; omega
    · obtain ⟨rfl, h, hn, rfl⟩ := h
      rw [toU64T2_ok_nil _ _ _ h0] at h
      obtain ⟨hd, hv, -⟩ := h
      refine ⟨⟨data, hd, Or.inr (Or.inr ⟨rfl, ?_⟩)⟩, ?_⟩
      · rw [hv]; rfl
      · simp only [I64_MIN_ABS] at hn; omega
    · obtain ⟨rfl, h, hn, rfl⟩ := h
      rw [toU64T2_ok_nil _ _ _ h0] at h
      obtain ⟨hd, hv, -⟩ := h
      refine ⟨⟨data, hd, Or.inr (Or.inl ⟨rfl, ?_⟩)⟩, ?_⟩
      · rw [hv]; rfl
      · simp only [I64_MAX] at hn; omega
  · rintro ⟨⟨body, hd, h | h | h⟩, hlo, hhi⟩
    · obtain ⟨rfl, hne, rfl⟩ := h
      cases s with
      | nil => exact absurd rfl hne
      | cons c data =>
        rw [allDigits_cons] at hd
        have hle' : decVal (c :: data) ≤ I64_MAX := by simp only [I64_MAX]; omega
        refine ⟨c, data, decVal (c :: data), rfl, Or.inl ⟨hd.1, ?_, hle', rfl⟩⟩
        rw [toU64T2_ok_nil _ _ _ (digitVal_le c)]
        exact ⟨hd.2, decVal_cons c data, by simp only [I64_MAX, U64_MAX] at *; omega⟩
    · obtain ⟨rfl, rfl⟩ := h
      have hle' : decVal body ≤ I64_MAX := by simp only [I64_MAX]; omega
      refine ⟨43, body, decVal body, rfl, Or.inr (Or.inr ⟨rfl, ?_, hle', rfl⟩)⟩
      rw [toU64T2_ok_nil _ _ _ h0]
      exact ⟨hd, rfl, by simp only [I64_MAX, U64_MAX] at *; omega⟩
    · obtain ⟨rfl, rfl⟩ := h
      have hle' : decVal body ≤ I64_MIN_ABS := by simp only [I64_MIN_ABS]; omega
      refine ⟨45, body, decVal body, rfl, Or.inr (Or.inl ⟨rfl, ?_, hle', rfl⟩)⟩
      rw [toU64T2_ok_nil _ _ _ h0]
      exact ⟨hd, rfl, by simp only [I64_MIN_ABS, U64_MAX] at *; omega⟩

example : IsI64Rendering [45, 48, 52, 50] (-42) ∧ -2^63 ≤ (-42 : Int) ∧ (-42 : Int) ≤ 2^63 - 1 :=
  ⟨⟨[48, 52, 50], by decide, Or.inr (Or.inr ⟨rfl, by decide⟩)⟩, by decide, by decide⟩
example : toI64 [45] = .ok 0 := by rfl   -- the quirk: bare "-"
example : toI64 [45, 48, 48] = .ok 0 := by rfl   -- "-00" is 0
-- "-9223372036854775808" (i64::MIN) converts, "-09223372036854775808" too
example : toI64 [45,57,50,50,51,51,55,50,48,51,54,56,53,52,55,55,53,56,48,56] = .ok (-9223372036854775808) := by rfl
example : toI64 [45,48,57,50,50,51,51,55,50,48,51,54,56,53,52,55,55,53,56,48,56] = .ok (-9223372036854775808) := by rfl

/-- a rendering of a value outside `i64::MIN ..= i64::MAX` is refused with `Overflow`
(never wrapped, never saturated). -/
theorem C11_i64_out_of_range (s : Bytes) (v : Int) (h : IsI64Rendering s v)
    (hv : v < -2^63 ∨ v > 2^63 - 1) :
    toI64 s = .error .overflow := by
  have h0 : (0 : Nat) ≤ U64_MAX := by simp [U64_MAX]
  obtain ⟨body, hd, h | h | h⟩ := h
  · obtain ⟨rfl, hne, rfl⟩ := h
    cases s with
    | nil => exact absurd rfl hne
    | cons c data =>
      rw [allDigits_cons] at hd
      have : decFrom data (digitVal c) > signLimit 1 := by
        rw [← decVal_cons, signLimit_one]; omega
      simp only [toI64, toI64T, hd.1, if_true]
      exact toI64Go_overflow data 1 _ hd.2 (digitVal_le c) this
  · obtain ⟨rfl, rfl⟩ := h
    have : decFrom body 0 > signLimit 1 := by
      rw [signLimit_one]; simp only [decVal] at hv; omega
    simp only [toI64, toI64T, not_isDigit_43, show ((43 : UInt8) == 45) = false by decide,
      beq_self_eq_true, Bool.false_eq_true, if_false, if_true]
    exact toI64Go_overflow body 1 0 hd h0 this
  · obtain ⟨rfl, rfl⟩ := h
    have : decFrom body 0 > signLimit (-1) := by
      rw [signLimit_neg_one]; simp only [decVal] at hv; omega
    simp only [toI64, toI64T, not_isDigit_45, beq_self_eq_true, Bool.false_eq_true, if_false, if_true]
    exact toI64Go_overflow body (-1) 0 hd h0 this

-- "-9223372036854775809" and "9223372036854775808" are refused
example : toI64 [45,57,50,50,51,51,55,50,48,51,54,56,53,52,55,55,53,56,48,57] = .error .overflow := by rfl
example : toI64 [57,50,50,51,51,55,50,48,51,54,56,53,52,55,55,53,56,48,56] = .error .overflow := by rfl

/-- a string with a byte that is neither a digit nor a sign is refused. -/
theorem C11_i64_foreign (s : Bytes) (h : ∃ b ∈ s, Foreign [43, 45] b) : ∃ e, toI64 s = .error e := by
  cases hr : toI64 s with
  | error e => exact ⟨e, rfl⟩
  | ok v =>
    exfalso
    obtain ⟨⟨body, hd, hs⟩, -⟩ := (C11_i64 s v).1 hr
    obtain ⟨b, hb, hnd, hns⟩ := h
    have hbody : ∀ x ∈ body, isDigit x = true := by simpa [allDigits] using hd
    rcases hs with ⟨rfl, -, -⟩ | ⟨rfl, -⟩ | ⟨rfl, -⟩
    · simp [hbody b hb] at hnd
    · rcases List.mem_cons.1 hb with rfl | hb
      · simp at hns
      · simp [hbody b hb] at hnd
    · rcases List.mem_cons.1 hb with rfl | hb
      · simp at hns
      · simp [hbody b hb] at hnd

/-! ### `to_f64` -/

/-- **C11_f64_shape — the exact grammar of `to_f64`** (an iff, so nothing is hidden): a
string converts exactly when it is `["-"] head` with the integer digits at most `2^53-1`,
or `["-"] head "." f` with `1..=22` fraction digits and all digits fitting a `u64`; `head`
is digits, or `+` then digits (possibly none), or — only in front of the point — nothing.
See `F64Accepts` for the quirks (`"+"` → 0, `"-+5"` → -5, `".5"`, no `"1."`, …). -/
theorem C11_f64_shape (s : Bytes) :
    (∃ v, toF64 s = .ok v) ↔ ∃ neg ip fp, F64Accepts s neg ip fp := by
  constructor
  · rintro ⟨v, h⟩
    obtain ⟨neg, ip, fp, ha, -⟩ := (toF64_ok_iff s v).1 h
    exact ⟨neg, ip, fp, ha⟩
  · rintro ⟨neg, ip, fp, ha⟩
    exact ⟨_, (toF64_ok_iff s _).2 ⟨neg, ip, fp, ha, rfl⟩⟩

/-- the same with the value: `val as f64` for integers, `sign * ((digits as f64) / 10^k)`
(two roundings) for decimals. -/
theorem C11_f64_value (s : Bytes) (v : Nat) :
    toF64 s = .ok v ↔ ∃ neg ip fp, F64Accepts s neg ip fp ∧ v = f64Value neg ip fp :=
  toF64_ok_iff s v

-- "-+5" is accepted (sign quirk), "1." and "+-5" are not
example : F64Accepts [45, 43, 53] true [53] none := ⟨[43, 53], ⟨by decide, Or.inr rfl⟩, rfl, by decide, by decide⟩
example : toF64 [49, 46] = .error .overflow := by rfl
example : toF64 [43, 45, 53] = .error .allDigits := by rfl
-- ".5" = 0.5 = 0x3FE0000000000000
example : toF64 [46, 53] = .ok 0x3FE0000000000000 := by rfl

/-- **binary64 holds every integer below `2^53` exactly** (`n as f64` decodes back to `n`). -/
theorem C11_u64ToF64_exact (n : Nat) (h : n < 2 ^ 53) : decodeMag (u64ToF64 n) = n :=
  u64ToF64_exact n h

example : decodeMag (u64ToF64 9007199254740991) = 9007199254740991 := by decide +kernel

/-- **correctly rounded below `2^53`**: when the digits taken as one integer `N` are below
`2^53` (and there are `k = |f| ≤ 22` fraction digits, which `F64Accepts` requires), the
result is `sign · RNE(N / 10^k)` — one rounding of the exact quotient, since `N as f64`
is exact and `10^k` is exact for `k ≤ 22`. -/
theorem C11_f64_correctly_rounded (s : Bytes) (neg : Bool) (ip f : Bytes)
    (ha : F64Accepts s neg ip (some f)) (hN : decVal (ip ++ f) < 2 ^ 53) :
    toF64 s = .ok (signed neg (rneBits (decVal (ip ++ f)) (10 ^ f.length))) := by
  rw [toF64_ok_iff]
  refine ⟨neg, ip, some f, ha, ?_⟩
  simp only [f64Value, fracVal, signed, u64ToF64_exact _ hN]

example : F64Accepts [49, 46, 53] false [49] (some [53]) :=
  ⟨[49], ⟨by decide, Or.inl rfl⟩, rfl, by decide, by decide, by decide, by decide⟩

/-- **integers are exact or refused**: an accepted string without a decimal point is a plain
integer `N ≤ 2^53 - 1`; the result is `± (N as f64)`, which represents `N` exactly. -/
theorem C11_f64_integers_exact_or_refused (s : Bytes) (v : Nat) (hdot : 46 ∉ s) (h : toF64 s = .ok v) :
    ∃ neg ip, F64Accepts s neg ip none ∧ decVal ip ≤ 2 ^ 53 - 1 ∧
      v = (if neg then (if decVal ip = 0 then 0 else signBit + u64ToF64 (decVal ip)) else u64ToF64 (decVal ip)) ∧
      decodeMag (u64ToF64 (decVal ip)) = decVal ip := by
  obtain ⟨neg, ip, fp, ha, hv⟩ := (toF64_ok_iff s v).1 h
  cases fp with
  | some f => exact absurd (accepts_some_has_dot s neg ip f ha) hdot
  | none =>
    have hle : decVal ip ≤ 2 ^ 53 - 1 := by
      obtain ⟨hd, -, -, -, hle⟩ := ha; exact hle
    exact ⟨neg, ip, ha, hle, by simpa [f64Value, intVal] using hv, u64ToF64_exact _ (by omega)⟩

/-- a plain integer rendering above `2^53 - 1` is refused (`PrecisionLoss`, or `Overflow`
when it does not even fit the 64-bit accumulator / `i64`). -/
theorem C11_f64_big_integer_refused (neg : Bool) (hd ip : Bytes) (hh : IsF64Head hd ip) (hne : hd ≠ [])
    (hbig : decVal ip > 2 ^ 53 - 1) :
    toF64 ((if neg then [45] else []) ++ hd) = .error .precisionLoss ∨
    toF64 ((if neg then [45] else []) ++ hd) = .error .overflow :=
  toF64_big_integer_refused neg hd ip hh hne hbig

-- 2^53 = 9007199254740992 is refused although binary64 holds it: the guard is `> 2^53 - 1`
example : toF64 [57,48,48,55,49,57,57,50,53,52,55,52,48,57,57,50] = .error .precisionLoss := by rfl

/-- **never NaN or infinity**: the exponent field of every result of `to_f64` is at most
1088 (|value| < 2^66), so it is never 2047.  For decimals this is the bound on the exponent
of the two roundings `(i as f64) / 10^k` with `i` a `u64` and `k ≤ 22` (`rneBits_lt`). -/
theorem C11_f64_finite (s : Bytes) (v : Nat) (h : toF64 s = .ok v) : expField v ≠ 2047 := by
  obtain ⟨neg, ip, fp, ha, hv⟩ := (toF64_ok_iff s v).1 h
  subst hv
  cases fp with
  | none =>
    have hle : decVal ip ≤ 2 ^ 53 - 1 := by obtain ⟨hd, -, -, -, hle⟩ := ha; exact hle
    have := expField_u64ToF64_small (decVal ip) (by omega)
    simp only [f64Value, intVal]
    cases neg
    · simp only [Bool.false_eq_true, if_false]; omega
    · by_cases h0 : decVal ip = 0
      · simp only [h0, if_true]; decide
      · simp only [h0, if_false, if_true]; omega
  | some f =>
    obtain ⟨hd, -, -, -, -, hk, hle⟩ := ha
    have := expField_fracVal neg (decVal (ip ++ f)) f.length hle hk
    simp only [f64Value]; omega

example : ∃ v, toF64 [46, 53] = .ok v := ⟨_, rfl⟩

/-- **within two ulps at and above `2^53`**: for an accepted decimal whose digits taken as one
integer `N` are at least `2^53` (such inputs necessarily have a decimal point, see
`C11_f64_big_integer_refused`), the result is `± R` where `R = q·2^e` is encoded by
`packBits q e` with `2^52 ≤ q ≤ 2^53` — so `2^e` is at most one ulp of `R` — and
`|N / 10^k − R| ≤ 2·2^e` (written cross-multiplied over the naturals, `k = |f|`).  It composes
the half-ulp error of `N as f64` with the half-ulp error of the division (`rneBits_half_ulp`,
`frac_two_roundings`, `frac_two_ulp`). -/
theorem C11_f64_two_ulp (s : Bytes) (neg : Bool) (ip f : Bytes)
    (ha : F64Accepts s neg ip (some f)) (hN : 2 ^ 53 ≤ decVal (ip ++ f)) :
    ∃ (q : Nat) (e : Int),
      toF64 s = .ok (signed neg (packBits q e)) ∧ 2 ^ 52 ≤ q ∧ q ≤ 2 ^ 53 ∧
      (0 ≤ e → decVal (ip ++ f) ≤ q * (10 ^ f.length * 2 ^ e.toNat) + 2 * (10 ^ f.length * 2 ^ e.toNat) ∧
               q * (10 ^ f.length * 2 ^ e.toNat) ≤ decVal (ip ++ f) + 2 * (10 ^ f.length * 2 ^ e.toNat)) ∧
      (e < 0 → decVal (ip ++ f) * 2 ^ (-e).toNat ≤ q * 10 ^ f.length + 2 * 10 ^ f.length ∧
               q * 10 ^ f.length ≤ decVal (ip ++ f) * 2 ^ (-e).toNat + 2 * 10 ^ f.length) := by
  have hacc := ha
  obtain ⟨hd, -, -, -, -, hk, hle⟩ := ha
  obtain ⟨q, e, hb, hq1, hq2, hpos, hneg⟩ := frac_two_ulp (decVal (ip ++ f)) f.length hN hle hk
  refine ⟨q, e, ?_, hq1, hq2, hpos, hneg⟩
  rw [toF64_ok_iff]
  exact ⟨neg, ip, some f, hacc, by simp only [f64Value, fracVal, signed, hb]⟩

-- "9007199254740993.5": N = 90071992547409935 ≥ 2^53, one fraction digit
example : F64Accepts [57,48,48,55,49,57,57,50,53,52,55,52,48,57,57,51,46,53] false
    [57,48,48,55,49,57,57,50,53,52,55,52,48,57,57,51] (some [53]) :=
  ⟨_, ⟨by decide, Or.inl rfl⟩, rfl, by decide, by decide, by decide, by decide⟩
example : (2 : Nat) ^ 53 ≤ decVal ([57,48,48,55,49,57,57,50,53,52,55,52,48,57,57,51] ++ [53]) := by decide


example : toF64 [45, 49, 50] = .ok 0xC028000000000000 := by rfl   -- "-12" = -12.0

/-- **The independent meaning of "correctly rounded"** (audit follow-up): `C11_f64_correctly_rounded` concludes
`= rneBits N 10^k`, and `rneBits` is the model's own rounding function, used both for the two hardware operations and
for the specification, so that theorem alone shows that the two roundings collapse into one.  What `rneBits` MEANS is
this statement, independent of its definition: the result is the encoding of `q·2^e` with `2^52 ≤ q ≤ 2^53`, `e` the
first-guess exponent or one more, and `|num/den − q·2^e| ≤ 2^e / 2` (half an ulp, cross-multiplied so that no
subtraction or division occurs).  Ties-to-even among the two candidates at exactly half an ulp is not characterised
separately (it is the definition's choice and is tied to the hardware by the correspondence on boundary inputs). -/
theorem C11_rne_within_half_ulp : type_of% @rneBits_half_ulp := @rneBits_half_ulp

/-! ### consistency between the conversions of one scalar

What a caller sees when the target type of a field changes (read as `u64` today, as `i64`
or `f64` tomorrow): the conversions parse the same digits with the same loop, so they agree
wherever both succeed, and the boundaries at which one refuses are exactly the ones below. -/

/-- **to_u64 then to_i64** (the general form): on a string `to_u64` converts to `v`, `to_i64`
returns the same `v` when `v ≤ i64::MAX = 2^63-1` and `Overflow` otherwise — nothing else
(sign, `+`, leading zeros, the bare `"+"`) matters. -/
theorem C11_u64_then_i64_total (s : Bytes) (v : Nat) (h : toU64 s = .ok v) :
    toI64 s = if v ≤ 2 ^ 63 - 1 then .ok (v : Int) else .error .overflow :=
  toU64_then_toI64 s v h

/-- **to_u64 then to_i64**: a value below `2^63` read as `u64` reads as the same `i64`. -/
theorem C11_u64_then_i64 (s : Bytes) (v : Nat) (h : toU64 s = .ok v) (hv : v < 2 ^ 63) :
    toI64 s = .ok (v : Int) := by
  rw [toU64_then_toI64 s v h, if_pos (by omega)]

example : toU64 [43, 48, 48, 55] = .ok 7 ∧ toI64 [43, 48, 48, 55] = .ok 7 := ⟨rfl, rfl⟩
-- the bound is needed: "9223372036854775808" = 2^63 is a u64 and not an i64
example : toU64 [57,50,50,51,51,55,50,48,51,54,56,53,52,55,55,53,56,48,56] = .ok (2 ^ 63) ∧
    toI64 [57,50,50,51,51,55,50,48,51,54,56,53,52,55,55,53,56,48,56] = .error .overflow := ⟨rfl, rfl⟩

/-- **to_i64 then to_u64**: the exact boundary is the FIRST BYTE, not the sign of the value.
On a string `to_i64` converts to `v`: if it does not start with `-` then `v ≥ 0` and `to_u64`
returns the same value; if it starts with `-` then `to_u64` refuses with `AllDigits` — also
for `"-0"`, `"-00"` and the bare `"-"`, which `to_i64` converts to `0`.  So `0 ≤ v` alone is
NOT a sufficient hypothesis (see the refuting example below). -/
theorem C11_i64_then_u64_total (s : Bytes) (v : Int) (h : toI64 s = .ok v) :
    (s.head? ≠ some 45 → 0 ≤ v ∧ toU64 s = .ok v.toNat) ∧
    (s.head? = some 45 → v ≤ 0 ∧ toU64 s = .error .allDigits) :=
  toI64_then_toU64 s v h

/-- **to_i64 then to_u64**, in the form asked for (the hypothesis `0 ≤ v` is implied by the
other two and is kept only for readability). -/
theorem C11_i64_then_u64 (s : Bytes) (v : Int) (h : toI64 s = .ok v) (_ : 0 ≤ v)
    (hs : s.head? ≠ some 45) : toU64 s = .ok v.toNat :=
  ((toI64_then_toU64 s v h).1 hs).2

/-- the same as an iff: after `to_i64` succeeded, `to_u64` succeeds (with the same value)
exactly when the string does not start with `-`. -/
theorem C11_i64_then_u64_iff (s : Bytes) (v : Int) (h : toI64 s = .ok v) :
    toU64 s = .ok v.toNat ↔ s.head? ≠ some 45 := by
  constructor
  · exact toU64_ok_head s _
  · exact fun hs => ((toI64_then_toU64 s v h).1 hs).2

example : toI64 [43, 48, 48, 55] = .ok 7 ∧ toU64 [43, 48, 48, 55] = .ok 7 := ⟨rfl, rfl⟩
-- the first-byte hypothesis is needed: "-0" is the i64 0 (so `0 ≤ v`) and is not a u64
example : toI64 [45, 48] = .ok 0 ∧ toU64 [45, 48] = .error .allDigits := ⟨rfl, rfl⟩

/-- **to_u64 then to_f64** (the general form): on a string `to_u64` converts to `v`, `to_f64`
returns `v as f64` when `v ≤ 2^53-1` and `PrecisionLoss` otherwise.  A leading `+`, leading
zeros and the bare `"+"` are treated identically by both conversions (no side condition). -/
theorem C11_u64_then_f64_total (s : Bytes) (v : Nat) (h : toU64 s = .ok v) :
    toF64 s = if v ≤ 2 ^ 53 - 1 then .ok (u64ToF64 v) else .error .precisionLoss :=
  toU64_then_toF64 s v h

/-- **to_u64 then to_f64**: a value below `2^53` read as `u64` reads as the `f64` that holds
exactly that value (`decodeMag` is the exact integer value of the bit pattern). -/
theorem C11_u64_then_f64 (s : Bytes) (v : Nat) (h : toU64 s = .ok v) (hv : v < 2 ^ 53) :
    toF64 s = .ok (u64ToF64 v) ∧ decodeMag (u64ToF64 v) = v := by
  rw [toU64_then_toF64 s v h, if_pos (by omega)]
  exact ⟨rfl, u64ToF64_exact v hv⟩

-- "+007" is 7 = 7.0 = 0x401C000000000000
example : toU64 [43, 48, 48, 55] = .ok 7 ∧ toF64 [43, 48, 48, 55] = .ok 0x401C000000000000 ∧
    u64ToF64 7 = 0x401C000000000000 := ⟨rfl, rfl, rfl⟩
-- the bound is needed: "9007199254740992" = 2^53 is a u64 and is refused by to_f64
example : toU64 [57,48,48,55,49,57,57,50,53,52,55,52,48,57,57,50] = .ok (2 ^ 53) ∧
    toF64 [57,48,48,55,49,57,57,50,53,52,55,52,48,57,57,50] = .error .precisionLoss := ⟨rfl, rfl⟩

/-- **a boolean is not a number**: the two strings `to_bool` accepts (`"yes"`, `"no"`) are
refused — with `AllDigits` — by `to_u64`, `to_i64` and `to_f64`. -/
theorem C11_bool_not_number (s : Bytes) (h : ∃ b, toBool s = .ok b) :
    toU64 s = .error .allDigits ∧ toI64 s = .error .allDigits ∧ toF64 s = .error .allDigits :=
  toBool_ok_not_number s h

example : toBool [110, 111] = .ok false ∧ toU64 [110, 111] = .error .allDigits ∧
    toF64 [110, 111] = .error .allDigits := ⟨rfl, rfl, rfl⟩

end Jomini.Props.C11
