import JominiModel.Proofs.TextTapeDomWf
import JominiModel.Proofs.TextTapeWf
import JominiModel.Proofs.TextTapeScalars
import JominiModel.Proofs.BinTapeWf
import JominiModel.Proofs.TextDocFullContent
/-
C06 — Every successfully parsed tape is structurally sound.

The obligations of this property are the theorems named `C06_…` proved in the two parser
slices (see `tools/meta/C06.json`, key `theorem_files`; the runner audits them by their fully
qualified names):

* text   `C06_text_checker_sound` : wfTextTape input toks = true ↔ WfTextTape input toks
         `C06_text_inv`           : parse input = ok T b → WfTextTape input T      (every input)
* binary `C06_bin_checker_sound`  : wfBinTape input toks = true ↔ WfBinTape toks
         `C06_bin_links`          : the index form of the property text
         `C06_bin_inv`            : parse opt data = ok toks → WfBinTape toks     (every input, both parsers)
         `C06_bin_inv_parts`      : init / preserve / exit separately

This file only combines them into the statement of the property as one theorem.
-/
namespace Jomini.Props.C06
open Jomini

/-- C06 as one statement about the two parser models: whenever a parse succeeds — on any input
whatsoever, with the binary fast paths on or off — the resulting tape satisfies the declarative
structural-soundness predicate, and (equivalently) passes the executable checker that the
correspondence check also runs on the REAL parser's tapes. -/
theorem C06_parsed_tapes_are_sound :
    (∀ (input : Bytes) (T : List TextTape.Tok) (b : Bool),
        TextTape.parse input = .ok T b →
          TextTape.WfTextTape input T ∧ TextTape.wfTextTape input T = true) ∧
    (∀ (opt : Bool) (data : Bytes) (toks : BinTape.Tape),
        BinTape.parse opt data = .ok toks →
          BinTape.WfBinTape toks ∧ BinTape.wfBinTape data toks = true) := by
  refine ⟨fun input T b h => ?_, fun opt data toks h => ?_⟩
  · have hw := TextTape.C06_text_inv input T b h
    exact ⟨hw, (TextTape.C06_text_checker_sound input T).mpr hw⟩
  · have hw := BinTape.C06_bin_inv opt data toks h
    exact ⟨hw, (BinTape.C06_bin_checker_sound data toks).mpr hw⟩

end Jomini.Props.C06
