import JominiModel.Model.Derive
import JominiModel.Spec.Derive
import JominiModel.Proofs.Derive
/-
C18 — JominiDeserialize field semantics hold for every field order and multiplicity.

All theorems are about `Model/Derive.lean` (the `Deserialize` implementation the proc-macro
emits, jomini_derive/src/lib.rs:260-601), for ALL schemas, ALL value deserializers `de` and ALL
ordered lists of (key, value) pairs.  `occs schema pairs i` = the values offered to field `i`
(the pairs whose key selects field `i`), in document order.
-/
namespace Jomini.Props.C18
open Jomini Jomini.Derive

variable {ε V R : Type}

/- `sampleS`, `basicS`, `tokS`, `intDe`, `textKey`, `binI32Key` are defined in `Spec/Derive.lean`. -/

example : run sampleS intDe [(.str "core", 1), (.str "f", 2), (.str "zz", 9), (.str "a", 3), (.str "core", 4), (.str "f", 5)]
    = .ok [.val 3, .vec [1, 4], .val 5, .dflt] := by rfl
example : run sampleS intDe [(.str "a", 1), (.str "a", 2)] = .error (.duplicate "a") := by rfl
example : run sampleS intDe [(.str "e", 1)] = .error (.missing "a") := by rfl
-- a duplicate and a missing field compete: the duplicate wins
example : run sampleS intDe [(.str "c", 1), (.str "c", 2)] = .error (.duplicate "c") := by rfl

/-- what a successful run looks like: the loop ended in a state `st` that is, slot by slot, the
field's own arm folded over the field's values in document order. -/
theorem C18_run_ok (schema : Schema) (de : FieldSpec → V → Except ε R) (pairs : List (Key × V))
    (res : List (FieldVal R)) (h : run schema de pairs = .ok res) :
    ∃ st, loop schema de pairs (initState schema) = .ok st ∧ extract (ε := ε) schema st = .ok res ∧
      keysOk schema pairs ∧ SlotsRel de schema pairs (initState schema) st := by
  unfold run at h
  cases hl : loop schema de pairs (initState schema) with
  | error e => simp [hl] at h
  | ok st =>
    simp only [hl] at h
    have := (loop_ok_iff de schema pairs (initState schema) st (by simp [initState])).mp hl
    exact ⟨st, rfl, h, this.1, this.2⟩

/-- a `duplicated` field collects every occurrence, in document order. -/
theorem C18_duplicated (schema : Schema) (de : FieldSpec → V → Except ε R) (pairs : List (Key × V))
    (res : List (FieldVal R)) (h : run schema de pairs = .ok res)
    (i : Nat) (f : FieldSpec) (hf : schema[i]? = some f) (hk : f.kind = .duplicated) :
    ∃ rs, deAll de f (occs schema pairs i) = some rs ∧ res[i]? = some (.vec rs) := by
  obtain ⟨st, _, hex, _, hlen, hrel⟩ := C18_run_ok schema de pairs res h
  obtain ⟨s', hs', hfold⟩ := hrel i f _ hf (initState_get schema i f hf)
  have hinit : initSlot (R := R) f = .vec [] := by simp [initSlot, hk]
  rw [hinit] at hfold
  obtain ⟨rs, hrs, rfl⟩ := (foldSlot_duplicated de f hk _ _ _).mp hfold
  have := (extract_ok (ε := ε) schema st res (by simpa [initState] using hlen) hex).2 i f _ hf hs'
  exact ⟨rs, hrs, by simpa [fieldValOf] using this.1⟩

/-- a `take_last` field keeps the last occurrence. -/
theorem C18_take_last (schema : Schema) (de : FieldSpec → V → Except ε R) (pairs : List (Key × V))
    (res : List (FieldVal R)) (h : run schema de pairs = .ok res)
    (i : Nat) (f : FieldSpec) (hf : schema[i]? = some f) (hk : f.kind = .takeLast)
    (v : V) (hv : (occs schema pairs i).getLast? = some v) :
    ∃ r, de f v = .ok r ∧ res[i]? = some (.val r) := by
  obtain ⟨st, _, hex, _, hlen, hrel⟩ := C18_run_ok schema de pairs res h
  obtain ⟨s', hs', hfold⟩ := hrel i f _ hf (initState_get schema i f hf)
  have hinit : initSlot (R := R) f = .opt none := by simp [initSlot, hk]
  rw [hinit] at hfold
  obtain ⟨rs, hrs, rfl⟩ := (foldSlot_takeLast de f hk _ _ _).mp hfold
  have hlast := deAll_getLast de f _ rs hrs
  rw [hv] at hlast
  have := (extract_ok (ε := ε) schema st res (by simpa [initState] using hlen) hex).2 i f _ hf hs'
  cases hd : de f v with
  | error e =>
    -- impossible: every occurrence deserialized
    have hall := (deAll_perm_last de f _).mp ⟨rs, hrs⟩ v (List.mem_of_getLast? hv)
    obtain ⟨r, hr⟩ := hall
    rw [hd] at hr; cases hr
  | ok r =>
    simp only [hd] at hlast
    refine ⟨r, rfl, ?_⟩
    simpa [hlast, fieldValOf] using this.1

/-- the arm of a plain field whose slot is already filled raises `duplicate_field(<name>)`
(the field's own name, not the alias) without looking at the value. -/
theorem C18_dup_error_arm (de : FieldSpec → V → Except ε R) (f : FieldSpec) (hk : f.kind = .plain) (r : R) (v : V) :
    stepSlot de f (.opt (some r)) v = .error (.duplicate f.name) := by
  simp [stepSlot, hk]

/-- any other (plain) field given twice is rejected: the run does not succeed. -/
theorem C18_dup_error (schema : Schema) (de : FieldSpec → V → Except ε R) (pairs : List (Key × V))
    (i : Nat) (f : FieldSpec) (hf : schema[i]? = some f) (hk : f.kind = .plain)
    (h2 : 2 ≤ (occs schema pairs i).length) :
    ∃ e, run schema de pairs = .error e := by
  cases hr : run schema de pairs with
  | error e => exact ⟨e, rfl⟩
  | ok res =>
    obtain ⟨st, _, _, _, _, hrel⟩ := C18_run_ok schema de pairs res hr
    obtain ⟨s', _, hfold⟩ := hrel i f _ hf (initState_get schema i f hf)
    have hinit : initSlot (R := R) f = .opt none := by simp [initSlot, hk]
    rw [hinit] at hfold
    rcases (foldSlot_plain de f hk _ _).mp hfold with ⟨h0, _⟩ | ⟨v, r, h1, _⟩
    · simp [h0] at h2
    · simp [h1] at h2

/-- a plain field given once holds that occurrence. -/
theorem C18_plain_once (schema : Schema) (de : FieldSpec → V → Except ε R) (pairs : List (Key × V))
    (res : List (FieldVal R)) (h : run schema de pairs = .ok res)
    (i : Nat) (f : FieldSpec) (hf : schema[i]? = some f) (hk : f.kind = .plain)
    (v : V) (hv : occs schema pairs i = [v]) :
    ∃ r, de f v = .ok r ∧ res[i]? = some (.val r) := by
  obtain ⟨st, _, hex, _, hlen, hrel⟩ := C18_run_ok schema de pairs res h
  obtain ⟨s', hs', hfold⟩ := hrel i f _ hf (initState_get schema i f hf)
  have hinit : initSlot (R := R) f = .opt none := by simp [initSlot, hk]
  rw [hinit, hv] at hfold
  have := (extract_ok (ε := ε) schema st res (by simpa [initState] using hlen) hex).2 i f _ hf hs'
  rcases (foldSlot_plain de f hk _ _).mp hfold with ⟨h0, _⟩ | ⟨v', r, h1, hd, rfl⟩
  · simp at h0
  · have : v' = v := by simpa using h1.symm
    subst this
    exact ⟨r, hd, by simpa [fieldValOf] using this.1⟩

/-- a missing non-duplicated field takes its default (`Option` ⇒ `None`, `default` ⇒
`Default::default()`, `default = "path"` ⇒ `path()`; an `Option` type wins over the attribute) … -/
theorem C18_missing (schema : Schema) (de : FieldSpec → V → Except ε R) (pairs : List (Key × V))
    (res : List (FieldVal R)) (h : run schema de pairs = .ok res)
    (i : Nat) (f : FieldSpec) (hf : schema[i]? = some f) (hk : f.kind ≠ .duplicated)
    (hv : occs schema pairs i = []) :
    canDefault f ≠ .no ∧
      res[i]? = some (defaultVal f) := by
  obtain ⟨st, _, hex, _, hlen, hrel⟩ := C18_run_ok schema de pairs res h
  obtain ⟨s', hs', hfold⟩ := hrel i f _ hf (initState_get schema i f hf)
  have hinit : initSlot (R := R) f = .opt none := by
    cases hk' : f.kind <;> simp_all [initSlot]
  rw [hinit, hv] at hfold
  have hs : s' = .opt none := by simpa [foldSlot] using hfold.symm
  subst hs
  have := (extract_ok (ε := ε) schema st res (by simpa [initState] using hlen) hex).2 i f _ hf hs'
  exact ⟨this.2 rfl, by simpa [fieldValOf] using this.1⟩

/-- … or is reported missing: without a default the run does not succeed. -/
theorem C18_missing_error (schema : Schema) (de : FieldSpec → V → Except ε R) (pairs : List (Key × V))
    (i : Nat) (f : FieldSpec) (hf : schema[i]? = some f) (hk : f.kind ≠ .duplicated)
    (hv : occs schema pairs i = []) (hd : canDefault f = .no) :
    ∃ e, run schema de pairs = .error e := by
  cases hr : run schema de pairs with
  | error e => exact ⟨e, rfl⟩
  | ok res => exact absurd hd (C18_missing schema de pairs res hr i f hf hk hv).1

/-- which error wins: a `missing field` error is reported only when the whole loop succeeded —
so no plain field was given twice (a `duplicate_field`, raised inside the loop, always wins over
a missing field) and every key and value was accepted — and the field named is the FIRST one in
declaration order that did not occur and has no default. -/
theorem C18_dup_beats_missing (schema : Schema) (de : FieldSpec → V → Except ε R) (pairs : List (Key × V))
    (n : String) (h : run schema de pairs = .error (.missing n)) :
    (∀ i f, schema[i]? = some f → f.kind = .plain → (occs schema pairs i).length ≤ 1) ∧
    ∃ (i : Nat) (f : FieldSpec), schema[i]? = some f ∧ f.name = n ∧ occs schema pairs i = [] ∧ canDefault f = .no ∧
      ∀ (j : Nat) (g : FieldSpec), j < i → schema[j]? = some g →
        ¬ (occs schema pairs j = [] ∧ g.kind ≠ .duplicated ∧ canDefault g = .no) := by
  unfold run at h
  cases hl : loop schema de pairs (initState schema) with
  | error e =>
    simp only [hl] at h
    have := loop_not_missing schema de pairs _ e hl n
    exact absurd (by injection h) this
  | ok st =>
    simp only [hl] at h
    obtain ⟨_, hlen, hrel⟩ := (loop_ok_iff de schema pairs (initState schema) st (by simp [initState])).mp hl
    constructor
    · intro i f hf hk
      obtain ⟨s', _, hfold⟩ := hrel i f _ hf (initState_get schema i f hf)
      have hinit : initSlot (R := R) f = .opt none := by simp [initSlot, hk]
      rw [hinit] at hfold
      rcases (foldSlot_plain de f hk _ _).mp hfold with ⟨h0, _⟩ | ⟨v, r, h1, _⟩
      · simp [h0]
      · simp [h1]
    · obtain ⟨i, f, h1, h2, h3, h4, h5⟩ := extract_missing (ε := ε) schema st _ (by simpa [initState] using hlen) h
      have hn : f.name = n := by injection h2 with h2; exact h2.symm
      obtain ⟨s', hs', hfold⟩ := hrel i f _ h1 (initState_get schema i f h1)
      have hs0 : s' = .opt none := by rw [h3] at hs'; exact (Option.some.inj hs').symm
      subst hs0
      refine ⟨i, f, h1, hn, foldSlot_empty de f _ hfold, h4, ?_⟩
      intro j g hj hg ⟨hocc, hkd, hcd⟩
      obtain ⟨sj, hsj, hfoldj⟩ := hrel j g _ hg (initState_get schema j g hg)
      rw [hocc] at hfoldj
      have hinit : initSlot (R := R) g = .opt none := by
        cases hk' : g.kind <;> simp_all [initSlot]
      have hsj0 : sj = .opt none := by simpa [foldSlot, hinit] using hfoldj.symm
      exact h5 j g hj hg ⟨hsj0 ▸ hsj, hcd⟩

/-- the alias / binary token id selects the right field: a string key selects the first field
whose alias — or, without alias, name — equals it (so the un-aliased name of an aliased field
no longer matches); a `u16` key selects the first field with that `token`. -/
theorem C18_alias_token (schema : Schema) (i : Nat) :
    (∀ s, fieldIdx schema (.str s) = some (some i) ↔
      ∃ f, schema[i]? = some f ∧ f.alias.getD f.name = s ∧
        ∀ j g, j < i → schema[j]? = some g → g.alias.getD g.name ≠ s) ∧
    (∀ n, fieldIdx schema (.u16 n) = some (some i) ↔
      ∃ f, schema[i]? = some f ∧ f.token = some n ∧
        ∀ j g, j < i → schema[j]? = some g → g.token ≠ some n) := by
  constructor
  · intro s
    simp only [fieldIdx, Option.some.injEq, findIdx_some, matchName, beq_iff_eq]
    constructor
    · rintro ⟨f, h1, h2, h3⟩
      exact ⟨f, h1, h2, fun j g hj hg => by simpa using h3 j g hj hg⟩
    · rintro ⟨f, h1, h2, h3⟩
      exact ⟨f, h1, h2, fun j g hj hg => by simpa using h3 j g hj hg⟩
  · intro n
    simp only [fieldIdx, Option.some.injEq, findIdx_some, beq_iff_eq]
    constructor
    · rintro ⟨f, h1, h2, h3⟩
      exact ⟨f, h1, h2, fun j g hj hg => by simpa using h3 j g hj hg⟩
    · rintro ⟨f, h1, h2, h3⟩
      exact ⟨f, h1, h2, fun j g hj hg => by simpa using h3 j g hj hg⟩

example : fieldIdx sampleS (.str "core") = some (some 1) ∧ fieldIdx sampleS (.str "e") = some none := ⟨by rfl, by rfl⟩

/-- unknown fields are ignored: removing a pair whose key selects no field, anywhere in the
document, changes nothing (not even which error is reported). -/
theorem C18_unknown_ignored (schema : Schema) (de : FieldSpec → V → Except ε R)
    (pre post : List (Key × V)) (k : Key) (v : V) (hk : fieldIdx schema k = some none) :
    run schema de (pre ++ (k, v) :: post) = run schema de (pre ++ post) := by
  have hloop : ∀ (pre : List (Key × V)) (st : List (Slot R)),
      loop schema de (pre ++ (k, v) :: post) st = loop schema de (pre ++ post) st := by
    intro pre
    induction pre with
    | nil => intro st; simp [loop, fieldOf, hk]
    | cons p pre ih =>
      intro st
      obtain ⟨k', v'⟩ := p
      simp only [List.cons_append, loop]
      cases fieldOf (ε := ε) schema k' with
      | error e => rfl
      | ok t =>
        cases t with
        | none => exact ih st
        | some i =>
          simp only
          cases stepAt de schema st i v' with
          | error e => rfl
          | ok st' => exact ih st'
  simp [run, hloop]

/-- field order does not matter apart from the order inside `duplicated` vectors: if `pairs'`
is a permutation of `pairs` in which every `duplicated` field sees the same occurrences in the
same order and every `take_last` field the same last occurrence, then the loop reaches the same
builder state and the run gives the same struct. -/
theorem C18_perm (schema : Schema) (de : FieldSpec → V → Except ε R) (pairs pairs' : List (Key × V))
    (hperm : pairs'.Perm pairs)
    (hocc : ∀ i f, schema[i]? = some f →
      (occs schema pairs' i).Perm (occs schema pairs i) ∧
      (f.kind = .duplicated → occs schema pairs' i = occs schema pairs i) ∧
      (f.kind = .takeLast → (occs schema pairs' i).getLast? = (occs schema pairs i).getLast?))
    (res : List (FieldVal R)) :
    run schema de pairs = .ok res ↔ run schema de pairs' = .ok res := by
  have hstate : ∀ st', loop schema de pairs (initState schema) = .ok st' ↔
      loop schema de pairs' (initState schema) = .ok st' := by
    intro st'
    rw [loop_ok_iff de schema pairs _ st' (by simp [initState]),
      loop_ok_iff de schema pairs' _ st' (by simp [initState])]
    apply and_congr
    · constructor
      · intro h p hp; exact h p (hperm.mem_iff.mp hp)
      · intro h p hp; exact h p (hperm.mem_iff.mpr hp)
    · unfold SlotsRel
      apply and_congr_right
      intro _
      apply forall_congr'; intro i
      apply forall_congr'; intro f
      apply forall_congr'; intro s
      apply imp_congr_right; intro hf
      apply imp_congr_right; intro hs
      have hs' : s = initSlot f := by
        rw [initState_get schema i f hf] at hs; exact (Option.some.inj hs).symm
      subst hs'
      obtain ⟨hp, hdup, hlast⟩ := hocc i f hf
      apply exists_congr; intro s'
      apply and_congr_right; intro _
      cases hk : f.kind with
      | duplicated => rw [hdup hk]
      | plain =>
        have hinit : initSlot (R := R) f = .opt none := by simp [initSlot, hk]
        rw [hinit, foldSlot_plain de f hk, foldSlot_plain de f hk]
        apply or_congr
        · apply and_congr_left; intro _
          constructor
          · intro h; rw [h] at hp; exact List.Perm.eq_nil hp
          · intro h; rw [h] at hp; exact List.Perm.nil_eq hp |>.symm
        · apply exists_congr; intro v
          apply exists_congr; intro r
          apply and_congr_left; intro _
          constructor
          · intro h; rw [h] at hp; exact List.perm_singleton.mp hp
          · intro h; rw [h] at hp; exact List.singleton_perm.mp hp |>.symm
      | takeLast =>
        have hinit : initSlot (R := R) f = .opt none := by simp [initSlot, hk]
        rw [hinit, foldSlot_takeLast de f hk, foldSlot_takeLast de f hk]
        have hall : (∃ rs, deAll de f (occs schema pairs i) = some rs) ↔
            (∃ rs, deAll de f (occs schema pairs' i) = some rs) := by
          rw [deAll_perm_last, deAll_perm_last]
          constructor
          · intro h v hv; exact h v (hp.mem_iff.mp hv)
          · intro h v hv; exact h v (hp.mem_iff.mpr hv)
        constructor
        · rintro ⟨rs, hrs, rfl⟩
          obtain ⟨rs', hrs'⟩ := hall.mp ⟨rs, hrs⟩
          refine ⟨rs', hrs', ?_⟩
          rw [deAll_getLast de f _ rs hrs, deAll_getLast de f _ rs' hrs', hlast hk]
        · rintro ⟨rs', hrs', rfl⟩
          obtain ⟨rs, hrs⟩ := hall.mpr ⟨rs', hrs'⟩
          refine ⟨rs, hrs, ?_⟩
          rw [deAll_getLast de f _ rs hrs, deAll_getLast de f _ rs' hrs', hlast hk]
  unfold run
  cases h1 : loop schema de pairs (initState schema) with
  | ok st =>
    rw [(hstate st).mp h1]
  | error e =>
    cases h2 : loop schema de pairs' (initState schema) with
    | ok st => rw [(hstate st).mpr h2] at h1; cases h1
    | error e' => simp

example : run sampleS intDe [(.str "core", 1), (.str "f", 2), (.str "a", 3), (.str "core", 4), (.str "f", 5)]
    = run sampleS intDe [(.str "a", 3), (.str "core", 1), (.str "core", 4), (.str "f", 2), (.str "f", 5)] := by rfl

/-- the `visit_map` loop succeeds iff every key is deliverable and every field's own arm, folded
over that field's values in document order, succeeds (then the run is the extraction of that
state).  Generic in the value type `V`, the result type `R`, the value-error type `ε` and the value
deserializer `de`: it covers every field type of the struct family (i32, Option, String, Vec,
Vec<Vec>) — field types only enter through `de`. -/
theorem C18_run_eq_folds (schema : Schema) (de : FieldSpec → V → Except ε R) (pairs : List (Key × V))
    (res : List (FieldVal R)) :
    run schema de pairs = .ok res ↔
      ∃ st, keysOk schema pairs ∧ SlotsRel de schema pairs (initState schema) st ∧
        extract (ε := ε) schema st = .ok res := by
  unfold run
  constructor
  · intro h
    cases hl : loop schema de pairs (initState schema) with
    | error e => simp [hl] at h
    | ok st =>
      simp only [hl] at h
      have := (loop_ok_iff de schema pairs (initState schema) st (by simp [initState])).mp hl
      exact ⟨st, this.1, this.2, h⟩
  · rintro ⟨st, hk, hs, hx⟩
    have := (loop_ok_iff de schema pairs (initState schema) st (by simp [initState])).mpr ⟨hk, hs⟩
    simp [this, hx]

/-- the family's value types at once: values and results are a sum of integers, strings, lists and
lists of lists (what `i32` / `Option<i32>` / `String` / `Vec<i32>` / `Vec<Vec<i32>>` fields hold) —
`C18_perm` instantiated, to show that nothing in it depends on a scalar value type. -/
example (schema : Schema)
    (de : FieldSpec → (Int ⊕ String ⊕ List Int ⊕ List (List Int)) → Except String (Int ⊕ String ⊕ List Int ⊕ List (List Int)))
    (pairs pairs' : List (Key × (Int ⊕ String ⊕ List Int ⊕ List (List Int)))) (hperm : pairs'.Perm pairs)
    (hocc : ∀ i f, schema[i]? = some f →
      (occs schema pairs' i).Perm (occs schema pairs i) ∧
      (f.kind = .duplicated → occs schema pairs' i = occs schema pairs i) ∧
      (f.kind = .takeLast → (occs schema pairs' i).getLast? = (occs schema pairs i).getLast?)) (res) :
    run schema de pairs = .ok res ↔ run schema de pairs' = .ok res :=
  C18_perm schema de pairs pairs' hperm hocc res

/-! ### the two recorded findings, on the model (negative counterparts of `C18_unknown_ignored`)

`C18_unknown_ignored` needs the key to reach the visitor as a string / `u16` that selects no field
(`fieldIdx = some none`).  A key that reaches it through any other `visit_*` (`Key.other`) is never
ignored — whatever the schema — and two document shapes deliver unknown keys that way. -/

/-- a key delivered through a `visit_*` the generated visitor does not implement is rejected with
`invalid type` as soon as the pairs before it are accepted: it is NOT ignored. -/
theorem C18_undeliverable_key_rejected (schema : Schema) (de : FieldSpec → V → Except ε R)
    (pre post : List (Key × V)) (v : V) (st : List (Slot R))
    (h : loop schema de pre (initState schema) = .ok st) :
    run schema de (pre ++ (Key.other, v) :: post) = .error .invalidType := by
  simp [run, loop_append, h, loop, fieldOf, fieldIdx]

/-- Known finding `unknown-int-key-binary` (contradicts the clause "unknown fields are ignored"):
`derive basic a=1,f=2,%123=5` — in the BINARY rendering the unknown key `123` is an I32 token and
reaches the visitor through `visit_i32`: the run fails with `invalid type`, although without that
field, and in the TEXT rendering of the same document, the struct deserializes. -/
theorem C18_known_unknown_int_key_binary :
    run basicS intDe [(.str "a", 1), (.str "f", 2), (binI32Key, 5)] = .error .invalidType ∧
    run basicS intDe [(.str "a", 1), (.str "f", 2)] = .ok [.val 1, .dflt, .dflt, .dfltPath, .vec [], .val 2] ∧
    run basicS intDe [(textKey basicS "a", 1), (textKey basicS "f", 2), (textKey basicS "123", 5)] =
      .ok [.val 1, .dflt, .dflt, .dfltPath, .vec [], .val 2] := by
  refine ⟨by rfl, by rfl, by rfl⟩

/-- Known finding `unknown-digit-key-token-struct` (contradicts "unknown fields are ignored"):
`derive tok a=1,bee=2,123=5` read as TEXT — the struct has `token` attributes, so keys are requested
with `deserialize_u16`, the all-digit key reaches the visitor through `visit_u64`: `invalid type`.
The key is unknown (as a string it selects no field and would be ignored), and without it the
struct deserializes. -/
theorem C18_known_unknown_digit_key_token_struct :
    run tokS intDe [(textKey tokS "a", 1), (textKey tokS "bee", 2), (textKey tokS "123", 5)] = .error .invalidType ∧
    textKey tokS "123" = .other ∧ fieldIdx tokS (.str "123") = some none ∧
    run tokS intDe [(textKey tokS "a", 1), (textKey tokS "bee", 2)] = .ok [.val 1, .vec [], .dflt, .val 2, .dflt, .dflt] := by
  refine ⟨by rfl, by rfl, by rfl, by rfl⟩

end Jomini.Props.C18
