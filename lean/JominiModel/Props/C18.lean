import JominiModel.Model.Derive
/-
C18 — JominiDeserialize field semantics hold for every field order and multiplicity.
-/
namespace Jomini.Props.C18
open Jomini Jomini.Derive

/-- the alias REPLACES the name: a field with an alias different from its name does not answer
to its own name (unless another field does). -/
theorem C18_alias_replaces (f : FieldSpec) (a : String) (h : f.alias = some a) :
    matchName f = a := by
  simp [matchName, h]

end Jomini.Props.C18
