import JominiModel.Model.Json
/-
C16 — JSON conversion is valid JSON and carries the document's content.
Only property theorems live here; helper lemmas are in `Proofs/Json*.lean`.
-/
namespace Jomini.Props.C16
open Jomini Jomini.Json

end Jomini.Props.C16
