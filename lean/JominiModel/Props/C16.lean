import JominiModel.Model.Json
import JominiModel.Spec.Json
import JominiModel.Proofs.JsonRender
import JominiModel.Proofs.JsonNarrow
/-
C16 — JSON conversion is valid JSON and carries the document's content.
Only property theorems live here; helper lemmas are in `Proofs/Json*.lean`.

The theorems are about the model `Model/Json.lean` of /repo/src/json/mod.rs (tied to the
compiled code by the `json` op of the correspondence check).  The float printer (ryu) is
not modelled: the renderers take it as the parameter `ff`, and the renderer theorems assume
only that it prints an RFC 8259 number (`isNumber (ff b)`).
-/
namespace Jomini.Props.C16
open Jomini Jomini.Json Jomini.JsonSpec Jomini.Scalar

/-! ### rendering -/

/-- Pretty printing changes whitespace only: removing the insignificant whitespace (outside
strings) of the pretty rendering gives exactly the minified rendering, for every JSON tree. -/
theorem C16_pretty_ws (ff : Nat → Bytes) (hff : ∀ b, isNumber (ff b) = true) (v : JVal) :
    stripInsignificantWs (renderPretty ff v) = renderCompact ff v := by
  have h := strip_prettyAt ff hff v 0 []
  simpa [stripInsignificantWs, renderPretty, strip] using h

example : ∀ b : Nat, isNumber ((fun _ : Nat => ([48, 46, 53] : Bytes)) b) = true := by intro _; rfl
example : stripInsignificantWs (renderPretty (fun _ => [48, 46, 53])
      (.obj [([97, 32], .arr [.int (-12), .float 0, .str [34, 32, 10]]), ([98], .obj [])])) =
    renderCompact (fun _ => [48, 46, 53])
      (.obj [([97, 32], .arr [.int (-12), .float 0, .str [34, 32, 10]]), ([98], .obj [])]) := by
  decide

/-- The minified rendering of every JSON tree is a JSON text in the sense of the RFC 8259
grammar of `Spec/Json.lean` (strings properly escaped, number grammar, no trailing commas,
nothing after the value). -/
theorem C16_render_valid (ff : Nat → Bytes) (hff : ∀ b, isNumber (ff b) = true) (v : JVal) :
    JsonText (renderCompact ff v) :=
  jsonText_compact ff hff v

/-- The same for the pretty rendering. -/
theorem C16_render_valid_pretty (ff : Nat → Bytes) (hff : ∀ b, isNumber (ff b) = true) (v : JVal) :
    JsonText (renderPretty ff v) :=
  jsonText_pretty ff hff v

example : JsonText (renderCompact (fun _ => [48, 46, 53]) (.arr [.null, .str [92, 1]])) :=
  C16_render_valid _ (by intro _; rfl) _

/-! ### type narrowing -/

/-- The scalar → JSON rule as an exact case table.
* narrowing not applicable (None; Unquoted on a quoted scalar): the decoded string;
* otherwise `yes`/`no` (exactly these) are booleans;
* otherwise an integer that `to_i64` (else `to_u64`) accepts is emitted as that exact integer
  — but only if `to_f64` accepts it too;
* otherwise what only `to_f64` accepts is a float;
* whenever `to_f64` refuses (in particular: an integer f64 cannot hold exactly, C11's
  `PrecisionLoss` guard) the scalar stays the decoded string, whatever `to_i64`/`to_u64` say. -/
theorem C16_narrowing (o : Opts) (enc : Enc) (quoted : Bool) (s : Bytes) :
    (narrows o quoted = false → narrowScalar o enc quoted s = .str (decode enc s)) ∧
    (narrows o quoted = true →
      (s = [121, 101, 115] → narrowScalar o enc quoted s = .bool true) ∧
      (s = [110, 111] → narrowScalar o enc quoted s = .bool false) ∧
      (s ≠ [121, 101, 115] → s ≠ [110, 111] →
        (∀ e, toF64 s = .error e → narrowScalar o enc quoted s = .str (decode enc s)) ∧
        (∀ x f, toI64 s = .ok x → toF64 s = .ok f → narrowScalar o enc quoted s = .int x) ∧
        (∀ e x f, toI64 s = .error e → toU64 s = .ok x → toF64 s = .ok f →
          narrowScalar o enc quoted s = .int (x : Int)) ∧
        (∀ e1 e2 f, toI64 s = .error e1 → toU64 s = .error e2 → toF64 s = .ok f →
          narrowScalar o enc quoted s = (if f64Finite f then .float f else .null)))) := by
  have hns : narrows o quoted = true → narrowScalar o enc quoted s = serializeScalar enc s := by
    intro h
    cases quoted <;> cases hn : o.narrow <;> simp_all [narrows, narrowScalar]
  refine ⟨?_, ?_⟩
  · intro h
    cases quoted <;> cases hn : o.narrow <;> simp_all [narrows, narrowScalar]
  · intro h
    rw [hns h]
    refine ⟨?_, ?_, ?_⟩
    · intro hs; subst hs; rfl
    · intro hs; subst hs; rfl
    · intro h1 h2
      have hb : ∃ e, Scalar.toBool s = .error e := by
        unfold Scalar.toBool
        split
        · exact absurd rfl h1
        · exact absurd rfl h2
        · exact ⟨_, rfl⟩
      obtain ⟨eb, hb⟩ := hb
      refine ⟨?_, ?_, ?_, ?_⟩
      · intro e he; exact serializeScalar_f64_refused enc s eb e hb he
      · intro x f hi hf; exact serializeScalar_i64 enc s eb x f hb hi hf
      · intro e x f hi hu hf; exact serializeScalar_u64 enc s eb e x f hb hi hu hf
      · intro e1 e2 f hi hu hf; exact serializeScalar_f64 enc s eb e1 e2 f hb hi hu hf

/-- "Numbers f64 cannot hold exactly stay strings", closed form on digit strings: a plain
or negated digit string is emitted as that exact integer iff its magnitude is at most
2^53 - 1; beyond that it stays the (decoded) string — never a rounded number. -/
theorem C16_narrowing_integers (o : Opts) (enc : Enc) (quoted : Bool) (c : UInt8) (body : Bytes)
    (hn : narrows o quoted = true) (hc : isDigit c = true) (hb : allDigits body = true) :
    narrowScalar o enc quoted (c :: body) =
      (if decVal (c :: body) ≤ 2 ^ 53 - 1 then .int (decVal (c :: body) : Int)
       else .str (decode enc (c :: body))) ∧
    narrowScalar o enc quoted (45 :: c :: body) =
      (if decVal (c :: body) ≤ 2 ^ 53 - 1 then .int (-(decVal (c :: body) : Int))
       else .str (decode enc (45 :: c :: body))) := by
  have hns : ∀ s, narrowScalar o enc quoted s = serializeScalar enc s := by
    intro s
    cases quoted <;> cases hn' : o.narrow <;> simp_all [narrows, narrowScalar]
  rw [hns, hns]
  exact ⟨serializeScalar_digits enc c body hc hb, serializeScalar_neg_digits enc c body hc hb⟩

example : narrowScalar ⟨false, .preserve, .all⟩ .w1252 true [57, 48, 48, 55, 49, 57, 57, 50, 53, 52, 55, 52, 48, 57, 57, 50] =
    .str [57, 48, 48, 55, 49, 57, 57, 50, 53, 52, 55, 52, 48, 57, 57, 50] := by rfl   -- "9007199254740992" = 2^53
example : narrowScalar ⟨false, .preserve, .unquoted⟩ .utf8 false [45, 52, 50] = .int (-42) := by rfl
example : narrowScalar ⟨false, .preserve, .unquoted⟩ .utf8 true [45, 52, 50] = .str [45, 52, 50] := by rfl

end Jomini.Props.C16
