import JominiModel.Model.Json
import JominiModel.Spec.Json
import JominiModel.Proofs.JsonRender
import JominiModel.Proofs.JsonNarrow
import JominiModel.Proofs.JsonDom
import JominiModel.Proofs.JsonGroup
import JominiModel.Spec.JsonDoc
import JominiModel.Proofs.JsonDoc
import JominiModel.Proofs.JsonTape
import JominiModel.Proofs.JsonUtf8
import JominiModel.Proofs.JsonReach
import JominiModel.Proofs.JsonKnown
import JominiModel.Proofs.JsonLeaves
import JominiModel.Proofs.TextTapeJsonWf
import JominiModel.Proofs.JsonEndToEnd
/-
C16 — JSON conversion is valid JSON and carries the document's content.
Only property theorems live here; helper lemmas are in `Proofs/Json*.lean`.

The theorems are about the model `Model/Json.lean` of /repo/src/json/mod.rs (tied to the
compiled code by the `json` op of the correspondence check).  The float printer (ryu) is
not modelled: the renderers take it as the parameter `ff`, and the renderer theorems assume
only that it prints an RFC 8259 number (`isNumber (ff b)`).
-/
namespace Jomini.Props.C16
open Jomini Jomini.Json Jomini.JsonSpec Jomini.Scalar

/-! ### rendering -/

/-- Pretty printing changes whitespace only: removing the insignificant whitespace (outside
strings) of the pretty rendering gives exactly the minified rendering, for every JSON tree. -/
theorem C16_pretty_ws (ff : Nat → Bytes) (hff : ∀ b, isNumber (ff b) = true) (v : JVal) :
    stripInsignificantWs (renderPretty ff v) = renderCompact ff v := by
  have h := strip_prettyAt ff hff v 0 []
  simpa [stripInsignificantWs, renderPretty, strip] using h

example : ∀ b : Nat, isNumber ((fun _ : Nat => ([48, 46, 53] : Bytes)) b) = true := by intro _; rfl
example : stripInsignificantWs (renderPretty (fun _ => [48, 46, 53])
      (.obj [([97, 32], .arr [.int (-12), .float 0, .str [34, 32, 10]]), ([98], .obj [])])) =
    renderCompact (fun _ => [48, 46, 53])
      (.obj [([97, 32], .arr [.int (-12), .float 0, .str [34, 32, 10]]), ([98], .obj [])]) := by
  decide

/-- The minified rendering of every JSON tree is a JSON text in the sense of the RFC 8259
grammar of `Spec/Json.lean` (strings properly escaped, number grammar, no trailing commas,
nothing after the value). -/
theorem C16_render_valid (ff : Nat → Bytes) (hff : ∀ b, isNumber (ff b) = true) (v : JVal) :
    JsonText (renderCompact ff v) :=
  jsonText_compact ff hff v

/-- The same for the pretty rendering. -/
theorem C16_render_valid_pretty (ff : Nat → Bytes) (hff : ∀ b, isNumber (ff b) = true) (v : JVal) :
    JsonText (renderPretty ff v) :=
  jsonText_pretty ff hff v

example : JsonText (renderCompact (fun _ => [48, 46, 53]) (.arr [.null, .str [92, 1]])) :=
  C16_render_valid _ (by intro _; rfl) _

/-! ### type narrowing -/

/-- The scalar → JSON rule as an exact case table.
* narrowing not applicable (None; Unquoted on a quoted scalar): the decoded string;
* otherwise `yes`/`no` (exactly these) are booleans;
* otherwise an integer that `to_i64` (else `to_u64`) accepts is emitted as that exact integer
  — but only if `to_f64` accepts it too;
* otherwise what only `to_f64` accepts is a float;
* whenever `to_f64` refuses (in particular: an integer f64 cannot hold exactly, C11's
  `PrecisionLoss` guard) the scalar stays the decoded string, whatever `to_i64`/`to_u64` say. -/
theorem C16_narrowing (o : Opts) (enc : Enc) (quoted : Bool) (s : Bytes) :
    (narrows o quoted = false → narrowScalar o enc quoted s = .str (decode enc s)) ∧
    (narrows o quoted = true →
      (s = [121, 101, 115] → narrowScalar o enc quoted s = .bool true) ∧
      (s = [110, 111] → narrowScalar o enc quoted s = .bool false) ∧
      (s ≠ [121, 101, 115] → s ≠ [110, 111] →
        (∀ e, toF64 s = .error e → narrowScalar o enc quoted s = .str (decode enc s)) ∧
        (∀ x f, toI64 s = .ok x → toF64 s = .ok f → narrowScalar o enc quoted s = .int x) ∧
        (∀ e x f, toI64 s = .error e → toU64 s = .ok x → toF64 s = .ok f →
          narrowScalar o enc quoted s = .int (x : Int)) ∧
        (∀ e1 e2 f, toI64 s = .error e1 → toU64 s = .error e2 → toF64 s = .ok f →
          narrowScalar o enc quoted s = (if f64Finite f then .float f else .null)))) := by
  have hns : narrows o quoted = true → narrowScalar o enc quoted s = serializeScalar enc s := by
    intro h
    cases quoted <;> cases hn : o.narrow <;> simp_all [narrows, narrowScalar]
  refine ⟨?_, ?_⟩
  · intro h
    cases quoted <;> cases hn : o.narrow <;> simp_all [narrows, narrowScalar]
  · intro h
    rw [hns h]
    refine ⟨?_, ?_, ?_⟩
    · intro hs; subst hs; rfl
    · intro hs; subst hs; rfl
    · intro h1 h2
      have hb : ∃ e, Scalar.toBool s = .error e := by
        unfold Scalar.toBool
        split
        · exact absurd rfl h1
        · exact absurd rfl h2
        · exact ⟨_, rfl⟩
      obtain ⟨eb, hb⟩ := hb
      refine ⟨?_, ?_, ?_, ?_⟩
      · intro e he; exact serializeScalar_f64_refused enc s eb e hb he
      · intro x f hi hf; exact serializeScalar_i64 enc s eb x f hb hi hf
      · intro e x f hi hu hf; exact serializeScalar_u64 enc s eb e x f hb hi hu hf
      · intro e1 e2 f hi hu hf; exact serializeScalar_f64 enc s eb e1 e2 f hb hi hu hf

/-- The `(_, Ok(x), Ok(_)) => s.serialize_u64(x)` arm of `serialize_scalar` (json/mod.rs:490; the
third clause of the table above) is UNREACHABLE: whenever `to_u64` and `to_f64` both accept a
scalar, `to_i64` accepts it too, with the same value — `to_f64` takes a plain integer only up to
2^53 - 1 < i64::MAX, so an unsigned value in 2^63 ..= 2^64 - 1 (which `to_u64` alone accepts) is
refused by `to_f64` and stays a string (`C16_narrowing_integers`).  The quick tier sends
2^63 - 1, 2^63, 2^64 - 1, 2^64 (± 2) through the real code; coverage shows line 490 never runs. -/
theorem C16_narrowing_u64_arm_unreachable (s : Bytes) (x f : Nat)
    (hu : toU64 s = .ok x) (hf : toF64 s = .ok f) : toI64 s = .ok (x : Int) :=
  u64_f64_imp_i64 s x f hu hf

example : toU64 [57, 50, 50, 51, 51, 55, 50, 48, 51, 54, 56, 53, 52, 55, 55, 53, 56, 48, 56] = .ok (2 ^ 63) ∧
    (∃ e, toI64 [57, 50, 50, 51, 51, 55, 50, 48, 51, 54, 56, 53, 52, 55, 55, 53, 56, 48, 56] = .error e) ∧
    (∃ e, toF64 [57, 50, 50, 51, 51, 55, 50, 48, 51, 54, 56, 53, 52, 55, 55, 53, 56, 48, 56] = .error e) :=
  ⟨rfl, ⟨_, rfl⟩, ⟨_, rfl⟩⟩

/-- "Numbers f64 cannot hold exactly stay strings", closed form on digit strings: a plain
or negated digit string is emitted as that exact integer iff its magnitude is at most
2^53 - 1; beyond that it stays the (decoded) string — never a rounded number. -/
theorem C16_narrowing_integers (o : Opts) (enc : Enc) (quoted : Bool) (c : UInt8) (body : Bytes)
    (hn : narrows o quoted = true) (hc : isDigit c = true) (hb : allDigits body = true) :
    narrowScalar o enc quoted (c :: body) =
      (if decVal (c :: body) ≤ 2 ^ 53 - 1 then .int (decVal (c :: body) : Int)
       else .str (decode enc (c :: body))) ∧
    narrowScalar o enc quoted (45 :: c :: body) =
      (if decVal (c :: body) ≤ 2 ^ 53 - 1 then .int (-(decVal (c :: body) : Int))
       else .str (decode enc (45 :: c :: body))) := by
  have hns : ∀ s, narrowScalar o enc quoted s = serializeScalar enc s := by
    intro s
    cases quoted <;> cases hn' : o.narrow <;> simp_all [narrows, narrowScalar]
  rw [hns, hns]
  exact ⟨serializeScalar_digits enc c body hc hb, serializeScalar_neg_digits enc c body hc hb⟩

example : narrowScalar ⟨false, .preserve, .all⟩ .w1252 true [57, 48, 48, 55, 49, 57, 57, 50, 53, 52, 55, 52, 48, 57, 57, 50] =
    .str [57, 48, 48, 55, 49, 57, 57, 50, 53, 52, 55, 52, 48, 57, 57, 50] := by rfl   -- "9007199254740992" = 2^53
example : narrowScalar ⟨false, .preserve, .unquoted⟩ .utf8 false [45, 52, 50] = .int (-42) := by rfl
/-- `-9223372036854775808` (i64::MIN): `to_i64` accepts it, `to_f64` refuses (beyond 2^53), so it stays a string -/
example : narrowScalar ⟨false, .preserve, .all⟩ .utf8 false
    [45, 57, 50, 50, 51, 51, 55, 50, 48, 51, 54, 56, 53, 52, 55, 55, 53, 56, 48, 56] =
    .str [45, 57, 50, 50, 51, 51, 55, 50, 48, 51, 54, 56, 53, 52, 55, 55, 53, 56, 48, 56] := by rfl
example : narrowScalar ⟨false, .preserve, .unquoted⟩ .utf8 true [45, 52, 50] = .str [45, 52, 50] := by rfl

/-! ### duplicate keys: Group / Preserve / KeyValuePairs

`fs` is the list of `(key, op, value)` items that `reader.fields()` yields (`fieldsAll`), `sv`
the serializer of one value (`serValue … fuel`), `val fe` its result on the value of `fe`.
The theorems hold for EVERY token list and field list on which the values serialize — no
well-formedness hypothesis is needed. -/

/-- Group mode loses nothing and invents nothing.  The entries written are exactly the
stable grouping of the field list by the raw key bytes (`kb`): each distinct key once, in
order of first appearance, under the JSON text of its first occurrence's key; a key that
occurs once carries its value, a key that occurs several times the array of ALL its values
in document order (operators kept as single-entry objects by `wrapOp`).  The groups
partition the field list (`Perm`), each group is precisely the fields with that key in
their original order, and no key is written twice. -/
theorem C16_group_lossless (sv : Nat → R JVal) (enc : Enc) (fs : List FieldE) (val : FieldE → JVal)
    (hsv : ∀ fe ∈ fs, sv fe.valIdx = .ok (val fe)) :
    groupEntries sv enc fs (buildGroups fs) = .ok ((stableGroupBy kb fs).map (groupJson enc val)) ∧
    ((stableGroupBy kb fs).flatMap (fun g => g.1 :: g.2)).Perm fs ∧
    (∀ g ∈ stableGroupBy kb fs, g.1 :: g.2 = fs.filter (fun y => decide (kb y = kb g.1))) ∧
    (stableGroupBy kb fs).Pairwise (fun g h => kb g.1 ≠ kb h.1) := by
  refine ⟨?_, stableGroupBy_perm kb _ fs (Nat.le_refl _), stableGroupBy_filter kb _ fs (Nat.le_refl _),
    stableGroupBy_distinct kb _ fs (Nat.le_refl _)⟩
  rw [groupEntries_eq sv enc _ fs (Nat.le_refl _)]
  apply renderGroups_ok
  intro g hg fe hfe
  exact hsv fe (stableGroupBy_mem kb _ fs (Nat.le_refl _) g hg fe hfe)

/-- Without the hypothesis that the values serialize: the Group arm is, outcome for outcome
(including which failure is reported first), the in-order rendering of the stable grouping. -/
theorem C16_group_is_stable_grouping (sv : Nat → R JVal) (enc : Enc) (fs : List FieldE) :
    groupEntries sv enc fs (buildGroups fs) = renderGroups sv enc (stableGroupBy kb fs) :=
  groupEntries_eq sv enc _ fs (Nat.le_refl _)

/-- Preserve and KeyValuePairs write one entry per field, in document order, duplicate keys
kept: `(key text, value)` with the operator wrapped around the value. -/
theorem C16_preserve_fields (sv : Nat → R JVal) (enc : Enc) (fs : List FieldE) (val : FieldE → JVal)
    (hsv : ∀ fe ∈ fs, sv fe.valIdx = .ok (val fe)) :
    entriesOf sv enc fs = .ok (fs.map (fun fe => (keyJson enc fe.keyTok, wrapOp fe.op (val fe)))) :=
  entriesOf_ok sv enc val fs hsv

/-- The object serializer in terms of the field list: with `fields()` = `fs` (ending at
`last`), every value serializing to `val fe` and the trailing array part to `r`,
* Preserve writes the fields in order (+ the `"remainder"` entry),
* KeyValuePairs writes `{"type":"obj","val":[[key,value]…, remainder?]}` in order,
* Group writes the stable grouping (+ the `"remainder"` entry). -/
theorem C16_object_modes (sv : Nat → R JVal) (enc : Enc) (t : Tape) (o : Opts) (s e : Nat)
    (fs : List FieldE) (last : Nat) (val : FieldE → JVal) (r : Option JVal)
    (hf : fieldsAll t s e = .ok (fs, last))
    (hsv : ∀ fe ∈ fs, sv fe.valIdx = .ok (val fe))
    (hr : remainderJson sv enc t last e = .ok r) :
    objectJson sv enc t o s e = .ok (
      match o.dup with
      | .preserve =>
        .obj (fs.map (fun fe => (keyJson enc fe.keyTok, wrapOp fe.op (val fe))) ++
              (match r with | none => [] | some x => [(kRemainder, x)]))
      | .kvp =>
        .obj [(kType, .str kObj),
              (kVal, .arr (fs.map (fun fe => JVal.arr [.str (keyJson enc fe.keyTok), wrapOp fe.op (val fe)]) ++
                           (match r with | none => [] | some x => [x])))]
      | .group =>
        .obj ((stableGroupBy kb fs).map (groupJson enc val) ++
              (match r with | none => [] | some x => [(kRemainder, x)]))) := by
  have hg := (C16_group_lossless sv enc fs val hsv).1
  have hp := C16_preserve_fields sv enc fs val hsv
  have hl := fieldsLen_of_fieldsAll t s e fs last hf
  cases hd : o.dup <;> cases r <;>
    simp [objectJson, objectShape, hd, hf, hl, hg, hp, hr, List.map_map, Function.comp_def]

/-- hypotheses satisfiable: `a=1 b=2 a=3` in Group mode is `{"a":[1,3],"b":2}` -/
example :
    objectJson (serValue ⟨false, .group, .all⟩ .utf8
        #[.unquoted [97], .unquoted [49], .unquoted [98], .unquoted [50], .unquoted [97], .unquoted [51]] 1)
      .utf8 #[.unquoted [97], .unquoted [49], .unquoted [98], .unquoted [50], .unquoted [97], .unquoted [51]]
      ⟨false, .group, .all⟩ 0 6 =
    .ok (.obj [([97], .arr [.int 1, .int 3]), ([98], .int 2)]) := by rfl

example : stableGroupBy (fun n : Nat => n % 2) [1, 2, 3, 4, 5] = [(1, [3, 5]), (2, [4])] := by rfl

/-! ### content and totality

`docAt t d` (decidable) says that the token list `t` IS the document tree `d`: every
token and every end link in place (`Spec/JsonDoc.lean`).  `WfTape t := ∃ d, docAt t d`;
`wfTapeB` decides a sufficient condition (it searches the tree with `docOf` and checks the
answer with `docAt`).  The driver evaluates `wfTapeB` on every tape the real parser produced
in the check (op `wf`: 4 000+ tapes per quick run, all well-formed).  The hypothesis is also
PROVED for every tape the text tape parser model accepts: `C16_parsed_tape_wf`
(Proofs/TextTapeJsonWf.lean, `parse input = .ok T b → WfTape (toJsonTape T)`), so on parsed tapes
the theorems below hold without a runtime-checked hypothesis (used that way in Props/C05). -/

/-- Content (whole document): on a token list that is the tree `d`, the conversion succeeds
and yields `jsonOfDoc d` — every key and value in document order, scalars narrowed by
`narrowScalar` (C16_narrowing), operators and headers as single-entry objects, duplicate keys
kept / grouped / paired per the option (`entriesByMode`; Group = `stableGroupBy`), mixed
containers' trailing part under `"remainder"` — for all options and both encodings.
(`jsonOfDoc` is a tree-level transcription of the conversion; what it means for the content —
no scalar lost, invented or reordered, keys in order — is stated independently of it in
`C16_scalars_preserved` / `C16_keys_in_order` below, and for Group also in `C16_group_lossless`.) -/
theorem C16_content (o : Opts) (enc : Enc) (t : Tape) (d : Doc) (h : docAt t d = true) :
    toJson o enc .obj t = .ok (some (jsonOfDoc o enc d)) :=
  toJson_obj_doc o enc t d h

/-- Content (value entry point): `value.json()` of the first field's value is `jsonOf` of
that value (`none` when the document has no first field). -/
theorem C16_content_value (o : Opts) (enc : Enc) (t : Tape) (d : Doc) (h : docAt t d = true) :
    toJson o enc .val t = .ok (firstValueJson o enc d) :=
  toJson_val_doc o enc t d h

/-- Totality: on a well-formed tape no `unwrap`, index, `debug_assert!` or overflow check of
the object and value entry points fails and no loop runs away (neither `panic` nor `hang`),
for all options and both encodings. -/
theorem C16_total (t : Tape) (h : WfTape t) (o : Opts) (enc : Enc) :
    (∃ v, toJson o enc .obj t = .ok (some v)) ∧ (∃ r, toJson o enc .val t = .ok r) := by
  obtain ⟨d, hd⟩ := h
  exact ⟨⟨_, toJson_obj_doc o enc t d hd⟩, ⟨_, toJson_val_doc o enc t d hd⟩⟩

/-- the decidable form of the hypothesis -/
theorem C16_total_decidable (t : Tape) (h : wfTapeB t = true) (o : Opts) (enc : Enc) :
    (∃ v, toJson o enc .obj t = .ok (some v)) ∧ (∃ r, toJson o enc .val t = .ok r) :=
  C16_total t (wfTapeB_sound t h) o enc

/-- Content of the array entry point `value.read_array()?.json()` on the first field's value:
an array → its items; a header → the two-element view (header as single-entry object, then
the body again — known finding); an object → its trailing array part if the token is
flagged `mixed`, otherwise ALL its tokens stepped over as values; a scalar / no field → not
applicable. -/
theorem C16_content_array (o : Opts) (enc : Enc) (t : Tape) (d : Doc) (h : docAt t d = true) :
    toJson o enc .arr t = .ok (firstArrayJsonFull o enc d) :=
  toJson_arr_doc_full o enc t d h

/-- Totality for all three entry points. -/
theorem C16_total_all (t : Tape) (h : WfTape t) (o : Opts) (enc : Enc) (entry : Entry) :
    ∃ r, toJson o enc entry t = .ok r := by
  obtain ⟨d, hd⟩ := h
  cases entry with
  | obj => exact ⟨_, toJson_obj_doc o enc t d hd⟩
  | arr => exact ⟨_, toJson_arr_doc_full o enc t d hd⟩
  | val => exact ⟨_, toJson_val_doc o enc t d hd⟩

/-- hypotheses satisfiable: `a={1 b>2} a=x` is a tree, and its Group-mode JSON is
`{"a":[[1,{"b":{"GREATER_THAN":2}}],"x"]}` -/
example : wfTapeB #[.unquoted [97], .array 6 true, .unquoted [49], .unquoted [98], .op .gt, .unquoted [50],
    .end_ 1, .unquoted [97], .unquoted [120]] = true := by decide +kernel
example : toJson ⟨false, .group, .all⟩ .utf8 .obj
    #[.unquoted [97], .array 6 true, .unquoted [49], .unquoted [98], .op .gt, .unquoted [50],
      .end_ 1, .unquoted [97], .unquoted [120]] =
    .ok (some (.obj [([97], .arr [.arr [.int 1, .obj [([98], .obj [(Op.gt.name, .int 2)])]], .str [120]])])) := by rfl

/-- Content, functional form (DESIGN §8 growth theorem): for every document tree `d` whose
side conditions hold (`docOk`: keys are key tokens, header bodies are containers, no trailing
items without the `MixedContainer` token), converting ITS token list yields `jsonOfDoc d`. -/
theorem C16_content_tapeOf (o : Opts) (enc : Enc) (d : Doc) (h : docOk d = true) :
    toJson o enc .obj (tapeOf d) = .ok (some (jsonOfDoc o enc d)) :=
  toJson_obj_doc o enc (tapeOf d) d (docAt_tapeOf d h)

/-- hypotheses satisfiable: the tree of `c = rgb { 1 } c = { a > 2 }` -/
example : docOk ⟨[.mk (.unquoted [99]) none (.header [114, 103, 98] (.arr false [.val (.scalar false [49])])),
      .mk (.unquoted [99]) none (.obj false false [.mk (.unquoted [97]) (some .gt) (.scalar false [50])] [])],
    false, []⟩ = true := by decide +kernel

/-! ### the first sentence of the property, end to end on the model -/

/-- `String::from_utf8_lossy` (as modelled after std's `Utf8Chunks`) and the Windows-1252
table only ever produce well-formed UTF-8 (no overlong forms, no surrogates, nothing
truncated), whatever bytes the scalar holds. -/
theorem C16_decode_utf8 (enc : Enc) (raw : Bytes) : validUtf8 (decode enc raw) = true :=
  (V_iff _).mpr (V_decode enc raw)

/-- For every well-formed tape, all options, both encodings: the conversion succeeds and the
bytes written (minified or pretty) are a JSON text of the RFC 8259 grammar AND well-formed
UTF-8.  (`ff` = the float printer; assumed only to print RFC 8259 numbers.) -/
theorem C16_valid_output (ff : Nat → Bytes) (hff : ∀ b, isNumber (ff b) = true)
    (t : Tape) (h : WfTape t) (o : Opts) (enc : Enc) :
    ∃ v, toJson o enc .obj t = .ok (some v) ∧ JsonText (render ff o v) ∧ validUtf8 (render ff o v) = true := by
  obtain ⟨d, hd⟩ := h
  refine ⟨jsonOfDoc o enc d, toJson_obj_doc o enc t d hd, ?_, ?_⟩
  · unfold render
    split
    · exact jsonText_pretty ff hff _
    · exact jsonText_compact ff hff _
  · exact (V_iff _).mpr (V_render ff hff o _ (jsonOfDoc_ok o enc d))

example : validUtf8 (decode .utf8 [0x61, 0xC3, 0x28, 0xE2, 0x82, 0x5C, 0xF5, 0x20]) = true := by decide +kernel
example : decode .utf8 [0x61, 0xC3, 0x28, 0xF5, 0x20] = [0x61, 0xEF, 0xBF, 0xBD, 0x28, 0xEF, 0xBF, 0xBD] := by decide +kernel

/-- END TO END, bytes → JSON, at the model level: for every fragment-3 document under every valid layout
the text tape parser model accepts the rendered bytes and the JSON conversion of its tape is the
JSON of the document, for all options and both encodings; hence layout independent. -/
theorem C16_end_to_end : type_of% @Jomini.JsonEndToEnd.end_to_end := @Jomini.JsonEndToEnd.end_to_end

theorem C16_end_to_end_layout_independent : type_of% @Jomini.JsonEndToEnd.end_to_end_layout_independent :=
  @Jomini.JsonEndToEnd.end_to_end_layout_independent

/-! ### `json()` on every reader of the document (all options, both encodings)

The check drives the object entry point, and the array / value builders on the FIRST field's value
(`C16_content_value`, `C16_content_array`).  The builders are the same code at every position; the
following theorems cover every position: `Doc.values d` lists every value node of the document
with the index of its token — the places a `ValueReader` can stand on when the document is walked
with `fields()`, `values()`, `read_object()`, `read_array()` (header views included). -/

/-- `ValueReader::json()` (`JsonValueBuilder`) on ANY value of a well-formed document is `jsonOf` of
that value, for every `DuplicateKeyMode × TypeNarrowing × pretty` and both encodings — in
particular it neither panics nor hangs. -/
theorem C16_content_every_value (o : Opts) (enc : Enc) (t : Tape) (d : Doc) (h : docAt t d = true)
    (n : Node) (i : Nat) (hp : (n, i) ∈ d.values) :
    serValue o enc t (fuelOf t + 1) i = .ok (jsonOf o enc n) :=
  serValue_every t o enc d h n i hp

/-- `ArrayReader::json()` (`JsonArrayBuilder`) on the reader of ANY array of the document. -/
theorem C16_content_every_array (o : Opts) (enc : Enc) (t : Tape) (d : Doc) (h : docAt t d = true)
    (m : Bool) (items : List Item) (i : Nat) (hp : (Node.arr m items, i) ∈ d.values) :
    arrayJson (serValue o enc t (fuelOf t)) enc t o (i + 1) (i + 1 + itemsSize items) =
      .ok (jsonOf o enc (.arr m items)) :=
  arrayJson_every t o enc d h m items i hp

/-- `ObjectReader::json()` (`JsonObjectBuilder`) on the reader of ANY object of the document. -/
theorem C16_content_every_object (o : Opts) (enc : Enc) (t : Tape) (d : Doc) (h : docAt t d = true)
    (flag m : Bool) (fields : List Field) (rest : List Item) (i : Nat)
    (hp : (Node.obj flag m fields rest, i) ∈ d.values) :
    objectJson (serValue o enc t (fuelOf t)) enc t o (i + 1)
        (i + 1 + fieldsSize fields + (if m then 1 else 0) + itemsSize rest) =
      .ok (jsonOf o enc (.obj flag m fields rest)) :=
  objectJson_every t o enc d h flag m fields rest i hp

/-- and what is rendered there is a JSON text in well-formed UTF-8 -/
theorem C16_valid_output_every_value (ff : Nat → Bytes) (hff : ∀ b, isNumber (ff b) = true)
    (o : Opts) (enc : Enc) (n : Node) :
    JsonText (render ff o (jsonOf o enc n)) ∧ validUtf8 (render ff o (jsonOf o enc n)) = true := by
  refine ⟨?_, (V_iff _).mpr (V_render ff hff o _ (jsonOf_ok o enc n))⟩
  unfold render
  split
  · exact jsonText_pretty ff hff _
  · exact jsonText_compact ff hff _

/-- hypotheses satisfiable: `c = rgb { 1 } c = { a > 2 }` has five value nodes (the header, its
body, the scalar `1`, the object, the scalar `2`), at token indices 1, 2, 3, 6, 9 -/
example : (Doc.values ⟨[.mk (.unquoted [99]) none (.header [114, 103, 98] (.arr false [.val (.scalar false [49])])),
      .mk (.unquoted [99]) none (.obj false false [.mk (.unquoted [97]) (some .gt) (.scalar false [50])] [])],
    false, []⟩).map (·.2) = [1, 2, 3, 6, 9] := by rfl

/-! ### no scalar lost, invented or reordered — stated WITHOUT `jsonOf`

`jleaves v` / `jvals v` / `jkeys v` read the JSON VALUE (every key as a string leaf and every
scalar, in output order / the scalars only / the keys of an object); `dleaves` / `dvals` /
`fieldKeys` read the DOCUMENT TREE (keys, operator names, header names as string leaves and every
scalar through the narrowing table `narrowScalar`, in document order).  Neither side mentions
`jsonOf`, the array windowing or the grouping algorithm (Spec/JsonLeaves.lean).

Value lists (arrays, the trailing part of mixed containers) are read on the document side by the
RUN RULE (`runG`): a `MixedContainer` marker contributes nothing; a scalar followed by an operator
and a value is a KEY there — it contributes a STRING leaf (its decoded bytes, not narrowed), the
operator its name (`=` nothing), the value its own leaves; anything else its own leaves.  So arrays
that turn into key-value lists (`levels={ 10 0=2 1=2 }`) and mixed containers are INSIDE the scope.

Of the three recorded findings:
* `header-array-view-duplicates-body` REMAINS an exclusion: `runNode` allows no header token among
  the VALUES of an array or of a mixed container's trailing part (headers as field values are
  inside the scope).  `runNode` also excludes shapes no parsed tape has shown: a parameter token
  or a lone operator token among the values (each is written as `null`), a container in key
  position of a run (written as `__invalid_key`, its content dropped);
* `group-keyed-by-raw-bytes` remains an exclusion of the Group clause of `C16_keys_in_order` only
  (`KeysAgree`: within the object, equal raw key bytes ⇔ equal JSON key); the leaf equations do
  not need it;
* `plus-sign-narrowed-to-zero` is not an exclusion of these statements: the document's scalar
  leaves are read back through the narrowing table (`narrowScalar`, characterised by
  `C16_narrowing`), where `+` reads as 0 on both sides; that `+` SHOULD not read as a number is
  the finding. -/

/-- **C16_scalars_preserved.**  For every well-formed tape, every value of the document (the
whole-document object, and any value a reader can stand on — hence all three entry points), every
option set and both encodings: the conversion succeeds and
* Preserve: the sequence of leaves of the JSON (keys as strings, then values) IS the sequence of
  leaves of the document in document order — plus the documented `"remainder"` key in front of a
  mixed container's trailing part;
* KeyValuePairs: the same sequence, the four words of the typed encoding (`type`, `obj`, `val`,
  `array`) left out on both sides;
* Group: the scalar values of the JSON are a permutation of the scalar values of the document
  (nothing lost, nothing invented; keys: `C16_keys_in_order`). -/
theorem C16_scalars_preserved (o : Opts) (enc : Enc) (t : Tape) (d : Doc) (h : docAt t d = true)
    (n : Node) (i : Nat) (hp : (n, i) ∈ d.values) (hpl : runNode n = true) :
    ∃ v, serValue o enc t (fuelOf t + 1) i = .ok v ∧
      (o.dup = .preserve → jleaves v = dleaves true o enc n) ∧
      (o.dup = .kvp → ft (jleaves v) = ft (dleaves false o enc n)) ∧
      (o.dup = .group → (jvals v).Perm (dvals o enc n)) :=
  ⟨_, serValue_every t o enc d h n i hp,
    fun hd => leaves_preserve o enc hd n hpl, fun hd => leaves_kvp o enc hd n hpl,
    fun hd => vals_group o enc hd n hpl⟩

/-- the same for the whole document (`tape.reader().json()`), read as the object of its fields -/
theorem C16_scalars_preserved_doc (o : Opts) (enc : Enc) (t : Tape) (d : Doc) (h : docAt t d = true)
    (hpl : runNode (.obj false d.mixed d.fields d.rest) = true) :
    ∃ v, toJson o enc .obj t = .ok (some v) ∧
      (o.dup = .preserve → jleaves v = dleaves true o enc (.obj false d.mixed d.fields d.rest)) ∧
      (o.dup = .kvp → ft (jleaves v) = ft (dleaves false o enc (.obj false d.mixed d.fields d.rest))) ∧
      (o.dup = .group → (jvals v).Perm (dvals o enc (.obj false d.mixed d.fields d.rest))) :=
  ⟨_, toJson_obj_doc o enc t d h,
    fun hd => leaves_preserve o enc hd _ hpl, fun hd => leaves_kvp o enc hd _ hpl,
    fun hd => vals_group o enc hd _ hpl⟩

/-- INSTANCE.  `richDoc` = `name = "Jåhk" core = a core = b color = rgb { 1 2 }
levels = { 10 0 = 2 x > y } nested = { k = { yes } k = v }` (non-ASCII string, duplicate keys at
two levels, a header as a field value, an array that turns into a key-value list, nested objects
and arrays) satisfies every hypothesis; the theorem applied to its token list gives the leaves of
the Preserve output explicitly: note `"0"` and `"x"` (keys of runs: strings) next to `10`, `2`
(narrowed), the operator name, and every duplicate key. -/
example : ∃ v, toJson ⟨false, .preserve, .all⟩ .utf8 .obj (tapeOf richDoc) = .ok (some v) ∧
    jleaves v =
      [.str [110, 97, 109, 101], .str [74, 195, 165, 104, 107],
       .str [99, 111, 114, 101], .str [97], .str [99, 111, 114, 101], .str [98],
       .str [99, 111, 108, 111, 114], .str [114, 103, 98], .int 1, .int 2,
       .str [108, 101, 118, 101, 108, 115], .int 10, .str [48], .int 2, .str [120], .str Op.gt.name, .str [121],
       .str [110, 101, 115, 116, 101, 100], .str [107], .bool true, .str [107], .str [118]] := by
  obtain ⟨v, hv, hpre, _, _⟩ := C16_scalars_preserved_doc ⟨false, .preserve, .all⟩ .utf8 (tapeOf richDoc) richDoc
    (docAt_tapeOf richDoc (by decide +kernel)) (by decide +kernel)
  exact ⟨v, hv, (hpre rfl).trans (by rfl)⟩

/-- the same document in Group mode: the values are a permutation of the document's values -/
example : ∃ v, toJson ⟨true, .group, .unquoted⟩ .w1252 .obj (tapeOf richDoc) = .ok (some v) ∧
    (jvals v).Perm (dvals ⟨true, .group, .unquoted⟩ .w1252 richNode) := by
  obtain ⟨v, hv, _, _, hgrp⟩ := C16_scalars_preserved_doc ⟨true, .group, .unquoted⟩ .w1252 (tapeOf richDoc) richDoc
    (docAt_tapeOf richDoc (by decide +kernel)) (by decide +kernel)
  exact ⟨v, hv, hgrp rfl⟩

/-- NON-INSTANCES: the statement is not satisfied by an unrelated JSON value — one that drops a
value, one that swaps two values, one that narrows the key of a run. -/
example : jleaves (.obj [([97], .int 1)]) ≠
    dleaves true ⟨false, .preserve, .all⟩ .utf8
      (.obj false false [.mk (.unquoted [97]) none (.scalar false [49]), .mk (.unquoted [98]) none (.scalar false [50])] []) := by
  intro h; exact absurd (congrArg List.length h) (by decide +kernel)
example : jleaves (.obj [([97], .int 2), ([98], .int 1)]) ≠
    dleaves true ⟨false, .preserve, .all⟩ .utf8
      (.obj false false [.mk (.unquoted [97]) none (.scalar false [49]), .mk (.unquoted [98]) none (.scalar false [50])] []) := by
  intro h
  have h2 : dleaves true ⟨false, .preserve, .all⟩ .utf8
      (.obj false false [.mk (.unquoted [97]) none (.scalar false [49]), .mk (.unquoted [98]) none (.scalar false [50])] []) =
      [.str [97], .int 1, .str [98], .int 2] := by rfl
  rw [h2] at h
  simp [jleaves, jleavesO] at h
example : dleaves true ⟨false, .preserve, .all⟩ .utf8
      (.arr false [.val (.scalar false [48]), .opTok .eq, .val (.scalar false [50])]) = [.str [48], .int 2] := by rfl
example : jleaves (.arr [.int 0, .int 2]) ≠
    dleaves true ⟨false, .preserve, .all⟩ .utf8
      (.arr false [.val (.scalar false [48]), .opTok .eq, .val (.scalar false [50])]) := by
  intro h
  have h2 : dleaves true ⟨false, .preserve, .all⟩ .utf8
      (.arr false [.val (.scalar false [48]), .opTok .eq, .val (.scalar false [50])]) = [.str [48], .int 2] := by rfl
  rw [h2] at h
  simp [jleaves, jleavesL] at h

/-- **C16_keys_in_order.**  For ANY object of a well-formed document (no `runNode` restriction:
operators, headers, mixed containers, parameter blocks included), the keys of the JSON object its
reader converts to are: Preserve — the fields' keys in document order, duplicates kept; Group —
each key once, in order of first occurrence (outside the recorded finding: `KeysAgree`); in both,
followed by `"remainder"` exactly when the object has a trailing array part.  (KeyValuePairs
writes no JSON object with document keys; its key sequence is part of `C16_scalars_preserved`.) -/
theorem C16_keys_in_order (o : Opts) (enc : Enc) (t : Tape) (d : Doc) (h : docAt t d = true)
    (flag m : Bool) (fields : List Field) (rest : List Item) (i : Nat)
    (hp : (Node.obj flag m fields rest, i) ∈ d.values) :
    ∃ v, objectJson (serValue o enc t (fuelOf t)) enc t o (i + 1)
        (i + 1 + fieldsSize fields + (if m then 1 else 0) + itemsSize rest) = .ok v ∧
      (o.dup = .preserve → jkeys v = fieldKeys enc fields ++ remKey rest) ∧
      (o.dup = .group → KeysAgree enc fields → jkeys v = firstOcc (fieldKeys enc fields) ++ remKey rest) :=
  ⟨_, objectJson_every t o enc d h flag m fields rest i hp,
    fun hd => keys_preserve o enc hd flag m fields rest,
    fun hd hk => keys_group o enc hd flag m fields rest hk⟩

/-- the same for the whole document -/
theorem C16_keys_in_order_doc (o : Opts) (enc : Enc) (t : Tape) (d : Doc) (h : docAt t d = true) :
    ∃ v, toJson o enc .obj t = .ok (some v) ∧
      (o.dup = .preserve → jkeys v = fieldKeys enc d.fields ++ remKey d.rest) ∧
      (o.dup = .group → KeysAgree enc d.fields → jkeys v = firstOcc (fieldKeys enc d.fields) ++ remKey d.rest) :=
  ⟨_, toJson_obj_doc o enc t d h,
    fun hd => keys_preserve o enc hd false d.mixed d.fields d.rest,
    fun hd hk => keys_group o enc hd false d.mixed d.fields d.rest hk⟩

/-- hypotheses satisfiable, and what the leaf functions give: `a = { 1 yes } a > 2 x = rgb { 3 }` -/
example :
    let n : Node := .obj false false
      [.mk (.unquoted [97]) none (.arr false [.val (.scalar false [49]), .val (.scalar false [121, 101, 115])]),
       .mk (.unquoted [97]) (some .gt) (.scalar false [50]),
       .mk (.unquoted [120]) none (.header [114, 103, 98] (.arr false [.val (.scalar false [51])]))] []
    runNode n = true ∧
    dleaves true ⟨false, .preserve, .all⟩ .utf8 n =
      [.str [97], .int 1, .bool true, .str [97], .str Op.gt.name, .int 2, .str [120], .str [114, 103, 98], .int 3] ∧
    jleaves (jsonOf ⟨false, .preserve, .all⟩ .utf8 n) = dleaves true ⟨false, .preserve, .all⟩ .utf8 n ∧
    jkeys (jsonOf ⟨false, .group, .all⟩ .utf8 n) = [[97], [120]] := by
  refine ⟨rfl, rfl, rfl, rfl⟩

/-! ### the three recorded findings, on the models (negative theorems)

`JsonKnown.jsonBytes o enc entry input` = text tape parser model → token translation → JSON model →
rendering: the bytes `TextTape::from_slice(input)?.…json().with_options(o).to_vec()` gives.  Each
theorem exhibits, on the witness of known_findings.txt / corpus/C16.txt, exactly the output of the
real code, and its docstring names the clause of C16 it contradicts. -/

open Jomini.JsonKnown in
/-- known finding `group-keyed-by-raw-bytes`: Group mode groups by the RAW key bytes.  Contradicts
"duplicate keys … grouped … with no entry lost" / "contains every key": the `[!scaled_skill]`
branch is filed under the key `[scaled_skill]` (its negation is lost), and `"a "` / `a`, which are
the same JSON key, are NOT grouped (Group mode still writes a duplicate key). -/
theorem C16_known_group_keyed_by_raw_bytes : type_of% @known_group_keyed_by_raw_bytes :=
  @known_group_keyed_by_raw_bytes

open Jomini.JsonKnown in
/-- known finding `plus-sign-narrowed-to-zero`: the scalar `+` becomes the number 0.  Contradicts
"scalars narrowed to booleans and numbers exactly as the type-narrowing option says" / "carries
every value" (`+` is not a number and cannot be recovered from `0`). -/
theorem C16_known_plus_sign_narrowed_to_zero : type_of% @known_plus_sign_narrowed_to_zero :=
  @known_plus_sign_narrowed_to_zero

open Jomini.JsonKnown in
/-- known finding `header-array-view-duplicates-body`: the array view of a header value, and a
header token among the values of a mixed container, write the header's body twice.  Contradicts
"carries the document's content" (an entry is invented: `[100,200,150]` resp. `[1]` appears twice). -/
theorem C16_known_header_array_view_duplicates_body : type_of% @known_header_array_view_duplicates_body :=
  @known_header_array_view_duplicates_body

end Jomini.Props.C16
