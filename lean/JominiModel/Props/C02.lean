import JominiModel.Model.TextDe
import JominiModel.Spec.TextDoc
import JominiModel.Proofs.TextDe
import JominiModel.Proofs.TextDeStream
import JominiModel.Proofs.TextDeTape
import JominiModel.Proofs.TextDeTapeNested
import JominiModel.Proofs.TextEndToEnd
import JominiModel.Proofs.TextEndToEndFull
import JominiModel.Proofs.TextDeKnown
import JominiModel.Proofs.TextDeAgree
import JominiModel.Proofs.TextDeSyntax
/-
C02 — Text deserialization returns the document's values on both parse paths.
Only property theorems live here; helper lemmas are in `Proofs/TextDe*.lean`.

THE LEAF CLAUSES of the property (numbers by their decimal meaning, `yes` / `no`, strings decoded with the chosen
encoding) hold by SHARED DEFINITION with the deserializer models, and rest on C11 / C12 by composition:
* `valueOfScalar` (Spec/TextDoc.lean) and both path models (`tLeaf`, `sLeaf`) call the same `leafConv`
  (Model/TextDe.lean), which calls the scalar-conversion model of C11 itself -- `Scalar.toBool`, `Scalar.toI64`,
  `Scalar.toU64`, `Scalar.toF64` (Model/Scalar.lean) -- followed by serde's range check for the narrower integer
  types.  What those functions compute is C11's subject: `C11_bool`, `C11_i64` / `C11_i64_out_of_range` /
  `C11_i64_foreign`, `C11_u64` / `C11_u64_out_of_range` / `C11_u64_foreign`, `C11_f64_shape` / `C11_f64_value` /
  `C11_f64_correctly_rounded` / `C11_f64_two_ulp` (Props/C11.lean).
* strings, keys and enum variants go through `TextDe.decode` on both paths and in the spec; the bridge theorems
  `C12_bridge_textde_w1252 : TextDe.decode .w1252 d = (decodeWindows1252 d).bytes` and `C12_bridge_textde_utf8`
  (Props/C12.lean) identify it with C12's decoders, whose meaning is `C12_win1252` / `C12_utf8` / `C12_valid`.
So "the i64 field holds the number the digits denote" = `C02_stream_eq_spec` / `C02_tape_eq_spec` (the field's value
is `valueOf`, i.e. `leafConv .i64` of the scalar's bytes) composed with `C11_i64`; likewise for the other leaves.
The theorems below are about everything AROUND the leaves: which scalar reaches which conversion, in which order,
with which operator, and what happens on a mismatch.
-/
namespace Jomini.Props.C02
open Jomini Jomini.TextDe Jomini.TextDoc

/-- For every scalar token (quoted or not), every scalar target type (typed leaves, strings,
`any`, `ign`, unit enums, under `Option` / `Property`), every operator and both encodings, the
tape-path and the stream-path deserializer yield the spec's value of that scalar: both call the
same leaf conversion (`leafConv`: C11's conversions plus serde's range checks; `decode`: C12). -/
theorem C02_scalar_dispatch (enc : Enc) (ty : Ty) (hty : Ty.isFieldScalarTy ty = true)
    (s : Bytes) (o : Op) (f : Nat) (hf : Ty.wrapDepth ty < f)
    (toks : List TTok) (i : Nat) (hq : toks[i]? = some (.unq s) ∨ toks[i]? = some (.quo s))
    (tok : RTok) (ht : tok = .unq s ∨ tok = .quo s) (rest : List RTok) :
    tde enc toks f ty (.opval o i) = valueOfField enc ty o s ∧
    sde enc f ty tok o rest = (valueOfField enc ty o s).map (fun v => (v, rest)) :=
  ⟨tde_field enc toks i s hq o ty hty f hf, sde_field enc ty hty f hf tok s ht o rest⟩

example : tde .w1252 [.unq [97], .op .gt, .unq [49, 50]] 2 (.prop .i64) (.opval .gt 2) = .ok (.prop .gt (.int 12)) ∧
    sde .w1252 2 (.prop .i64) (.unq [49, 50]) .gt [] = .ok (.prop .gt (.int 12), []) := by
  constructor <;> rfl

/-- `Option`: a present value is `some` of the inner value on both paths; a declared `Option`
field that never occurred is `none`, any other missing field is the error `missing`, a field that
occurred carries its value (`structFinish`, shared by both paths); an unknown field leaves the
collected fields unchanged on both paths and the stream path consumes exactly its value. -/
theorem C02_option_unknown (enc : Enc) :
    (∀ (toks : List TTok) (f : Nat) (t : Ty) (vk : VK),
        tde enc toks (f + 1) (.opt t) vk = (tde enc toks f t vk).map Val.some) ∧
    (∀ (f : Nat) (t : Ty) (tok : RTok) (o : Op) (r : List RTok),
        sde enc (f + 1) (.opt t) tok o r = (sde enc f t tok o r).map (fun (v, r') => (Val.some v, r'))) ∧
    (∀ (fs : List (Bytes × Ty)) (seen : List (Nat × Val)) (out : List (Bytes × Val)),
        structFinish fs 0 seen = .ok out →
        out.length = fs.length ∧
        ∀ (k : Nat) (hk : k < fs.length), out[k]? = finishEntry fs[k].1 fs[k].2 (seenGet k seen)) ∧
    (∀ (fs : List (Bytes × Ty)) (name : Bytes) (deVal : Ty → R Val) (seen : List (Nat × Val)),
        lookupIdx name fs 0 = none → structEntry fs name deVal seen = .ok seen) ∧
    (∀ (fs : List (Bytes × Ty)) (seen : List (Nat × Val)) (k : RTok) (name : Bytes),
        sKeyName enc k = .ok name → lookupIdx name fs 0 = none → sStructKey enc fs seen k = .ok none) ∧
    (∀ (de : SDe) (seen : List (Nat × Val)) (t' : RTok) (o : Op) (r : List RTok),
        sStructVal de seen none t' o r = (de .ign t' o r).map (fun (_, r') => (seen, r'))) := by
  refine ⟨?_, ?_, ?_, ?_, ?_, ?_⟩
  · intro toks f t vk; simp [tde]
  · intro f t tok o r; simp [sde]
  · intro fs seen out h
    have := structFinish_ok fs 0 seen out h
    simpa using this
  · intro fs name deVal seen h; simp [structEntry, h]
  · intro fs seen k name hk h; simp [sStructKey, hk, h]
  · intro de seen t' o r; simp [sStructVal]

example : structFinish [([97], .opt .i64), ([98], .str)] 0 [(1, .str [120])] = .ok [([97], .none), ([98], .str [120])] := by rfl

/-- The streaming deserializer, run on the reader tokens of a document (scalars -- variables `@x`
included, they are unquoted scalars --, objects, arrays, header values such as `rgb { 1 2 3 }`; keys
quoted or not, with any operator, with the `=` left out before a `{`, with empty `{}` in front of the key
or behind the value: `Key`), returns the document's value, for every encoding and
every root target type that requests the document's shape: typed scalars, strings, enums, `Option`,
`Property` with every operator, sequences, maps, structs with missing / duplicated / unknown fields
(the unknown field's value is skipped at arbitrary nesting); error results included (the two sides
agree on which error comes first).  A header value read with a scalar target yields the header's name,
its body is skipped in key position (that is what the code does; reading it as a sequence is the
recorded finding `text-reader-header` and outside `Fits`); inside an array a header value counts as
two values (`expandNodes`). -/
theorem C02_stream_eq_spec (enc : Enc) (ty : Ty) (d : Doc)
    (hroot : Ty.isRoot ty = true) (hwf : wfFields d = true) (hfit : Fits enc ty (.obj d)) :
    deStream enc ty (lexemes d) = valueOf enc ty d :=
  deStream_eq_valueOf enc ty d hroot hwf hfit

/-- the hypotheses are satisfiable by a document with a nested unknown field whose value holds a header
value, a Property with an operator, a missing Option and a sequence:
`a > 12  zz = { q = rgb { r } }  l = { x "y" }` -/
example :
    let d : Doc := [(.plain [97], .gt, .leaf ⟨[49, 50], false⟩),
                    (.plain [122, 122], .eq, .obj [(.plain [113], .eq, .hdr [114, 103, 98] (.arr [.leaf ⟨[114], false⟩]))]),
                    (.plain [108], .eq, .arr [.leaf ⟨[120], false⟩, .leaf ⟨[121], true⟩])]
    let ty : Ty := .st [([97], .prop .i64), ([108], .seq .str), ([111], .opt .bool)]
    Ty.isRoot ty = true ∧ wfFields d = true ∧ Fits .w1252 ty (.obj d) ∧
    deStream .w1252 ty (lexemes d) =
      .ok (.st [([97], .prop .gt (.int 12)), ([108], .seq [.str [120], .str [121]]), ([111], .none)]) := by
  refine ⟨rfl, rfl, ?_, by rfl⟩
  apply Fits.st
  intro k o v hm i t hl
  simp only [List.mem_cons, Prod.mk.injEq, List.not_mem_nil, or_false] at hm
  rcases hm with ⟨rfl, rfl, rfl⟩ | ⟨rfl, rfl, rfl⟩ | ⟨rfl, rfl, rfl⟩
  · have : t = .prop .i64 := by
      have : lookupIdx (decode .w1252 [97]) [([97], Ty.prop .i64), ([108], .seq .str), ([111], .opt .bool)] 0 = some (0, .prop .i64) := by rfl
      rw [this] at hl; simp at hl; exact hl.2.symm
    subst this
    exact Fits.prop (Fits.scalar rfl)
  · have : lookupIdx (decode .w1252 [122, 122]) [([97], Ty.prop .i64), ([108], .seq .str), ([111], .opt .bool)] 0 = none := by rfl
    rw [this] at hl; simp at hl
  · have : t = .seq .str := by
      have : lookupIdx (decode .w1252 [108]) [([97], Ty.prop .i64), ([108], .seq .str), ([111], .opt .bool)] 0 = some (1, .seq .str) := by rfl
      rw [this] at hl; simp at hl; exact hl.2.symm
    subst this
    apply Fits.seq
    intro v hv
    simp only [expandNodes, List.mem_cons, List.not_mem_nil, or_false] at hv
    rcases hv with rfl | rfl <;> exact Fits.scalar rfl

/-- The tape deserializer, run on the tape of a save-style document (nested objects, arrays, header
values), returns the document's value, for every encoding and every root target type that requests
the document's shape in the sense of `FitsT`: as `Fits`, with the two combinations taken out on which
the tape path really behaves differently (they are recorded findings, not modelling gaps):
`Property` outside field position, and `any` on a header value in field position. -/
theorem C02_tape_eq_spec (enc : Enc) (ty : Ty) (d : Doc)
    (hroot : Ty.isRoot ty = true) (hwf : wfFields d = true) (hfit : FitsT enc false ty (.obj d)) :
    deTape enc ty (tapeOf d) = valueOf enc ty d :=
  deTape_eq_valueOf enc ty d hroot hwf hfit

/-- Both parse paths yield the same value (or the same error) on every save-style document. -/
theorem C02_paths_agree (enc : Enc) (ty : Ty) (d : Doc)
    (hroot : Ty.isRoot ty = true) (hwf : wfFields d = true) (hfit : FitsT enc false ty (.obj d)) :
    deTape enc ty (tapeOf d) = deStream enc ty (lexemes d) :=
  deTape_eq_deStream enc ty d hroot hwf hfit

/-- the hypotheses are satisfiable by a nested document: `a > 12  c = rgb { 1 }  u = { x = { y } }  l = { { p = q } }`
into `st(a:prop(i64); c:str; l:seq(map(str)); o:opt(bool))` (`u` unknown, `o` missing) -/
example :
    let d : Doc := [(.plain [97], .gt, .leaf ⟨[49, 50], false⟩),
                    (.plain [99], .eq, .hdr [114, 103, 98] (.arr [.leaf ⟨[49], false⟩])),
                    (.plain [117], .eq, .obj [(.plain [120], .eq, .arr [.leaf ⟨[121], false⟩])]),
                    (.plain [108], .eq, .arr [.obj [(.plain [112], .eq, .leaf ⟨[113], true⟩)]])]
    let ty : Ty := .st [([97], .prop .i64), ([99], .str), ([108], .seq (.map .str)), ([111], .opt .bool)]
    Ty.isRoot ty = true ∧ wfFields d = true ∧ FitsT .utf8 false ty (.obj d) ∧
    deTape .utf8 ty (tapeOf d) =
      .ok (.st [([97], .prop .gt (.int 12)), ([99], .str [114, 103, 98]),
                ([108], .seq [.map [(.str [112], .str [113])]]), ([111], .none)]) ∧
    deStream .utf8 ty (lexemes d) = deTape .utf8 ty (tapeOf d) := by
  refine ⟨rfl, rfl, ?_, by rfl, by rfl⟩
  apply FitsT.st
  intro k o v hm i t hl
  simp only [List.mem_cons, Prod.mk.injEq, List.not_mem_nil, or_false] at hm
  rcases hm with ⟨rfl, rfl, rfl⟩ | ⟨rfl, rfl, rfl⟩ | ⟨rfl, rfl, rfl⟩ | ⟨rfl, rfl, rfl⟩
  · have h : lookupIdx (decode .utf8 [97]) [([97], Ty.prop .i64), ([99], .str), ([108], .seq (.map .str)), ([111], .opt .bool)] 0 = some (0, .prop .i64) := by rfl
    rw [h] at hl; simp at hl; obtain ⟨_, rfl⟩ := hl
    exact FitsT.prop (FitsT.scalar rfl)
  · have h : lookupIdx (decode .utf8 [99]) [([97], Ty.prop .i64), ([99], .str), ([108], .seq (.map .str)), ([111], .opt .bool)] 0 = some (1, .str) := by rfl
    rw [h] at hl; simp at hl; obtain ⟨_, rfl⟩ := hl
    exact FitsT.hdrScalar rfl (by simp)
  · have h : lookupIdx (decode .utf8 [117]) [([97], Ty.prop .i64), ([99], .str), ([108], .seq (.map .str)), ([111], .opt .bool)] 0 = none := by rfl
    rw [h] at hl; simp at hl
  · have h : lookupIdx (decode .utf8 [108]) [([97], Ty.prop .i64), ([99], .str), ([108], .seq (.map .str)), ([111], .opt .bool)] 0 = some (2, .seq (.map .str)) := by rfl
    rw [h] at hl; simp at hl; obtain ⟨_, rfl⟩ := hl
    apply FitsT.seq
    intro v hv
    simp only [expandNodes, List.mem_cons, List.not_mem_nil, or_false] at hv
    subst hv
    apply FitsT.map
    intro k o v hm
    simp only [List.mem_cons, Prod.mk.injEq, List.not_mem_nil, or_false] at hm
    obtain ⟨_, _, rfl⟩ := hm
    exact FitsT.scalar rfl

/-! ### what the full text syntax adds -/

/-- Operators other than `=` are dropped by every target that is not a `Property`: under a target type
without `Property` the value of a document is the value of the document with every operator (at any
depth) replaced by `=`.  Both paths compute `valueOf` (`C02_stream_eq_spec`, `C02_tape_eq_spec`), so
both drop them. -/
theorem C02_operator_dropped (enc : Enc) (ty : Ty) (d : Doc) (hp : propFree ty = true) :
    valueOf enc ty d = valueOf enc ty (eqOpsF d) :=
  valueOf_eqOps enc ty d hp

/-- `a >= 5  b < x` into `st(a:i64; b:str)` on both paths: the operators leave no trace -/
example :
    let d : Doc := [(.plain [97], .ge, .leaf ⟨[53], false⟩), (.plain [98], .lt, .leaf ⟨[120], false⟩)]
    let ty : Ty := .st [([97], .i64), ([98], .str)]
    deTape .utf8 ty (tapeOf d) = .ok (.st [([97], .int 5), ([98], .str [120])]) ∧
    deStream .utf8 ty (lexemes d) = .ok (.st [([97], .int 5), ([98], .str [120])]) := by
  constructor <;> rfl

/-- quoted key, ghost `{}` in front of a key and behind a value, the `=` left out before `{`, a variable
as a scalar -- `"a"=@x  {} {} b{ c=1 {} }  d={ {} e=2 }`: both paths, the same value as the plain writing -/
example :
    let d : Doc := [(⟨[97], true, 0, false, 0⟩, .eq, .leaf ⟨[64, 120], false⟩),
                    (⟨[98], false, 2, true, 0⟩, .eq, .obj [(⟨[99], false, 0, false, 1⟩, .eq, .leaf ⟨[49], false⟩)]),
                    (.plain [100], .eq, .obj [(⟨[101], false, 1, false, 0⟩, .eq, .leaf ⟨[50], false⟩)])]
    let ty : Ty := .st [([97], .str), ([98], .map .i64), ([100], .st [([101], .u8)])]
    lexemes d = [.quo [97], .op .eq, .unq [64, 120], .open_, .close, .open_, .close, .unq [98], .open_, .unq [99],
                 .op .eq, .unq [49], .open_, .close, .close, .unq [100], .op .eq, .open_, .open_, .close, .unq [101],
                 .op .eq, .unq [50], .close] ∧
    deTape .utf8 ty (tapeOf d) = .ok (.st [([97], .str [64, 120]), ([98], .map [(.str [99], .int 1)]), ([100], .st [([101], .uint 2)])]) ∧
    deStream .utf8 ty (lexemes d) = deTape .utf8 ty (tapeOf d) := by
  refine ⟨by rfl, by rfl, by rfl⟩

/-- A variable `@name` (or an interpolated expression `@[ … ]`) is one unquoted scalar for both parsers (C01: `Scal.ValidX`,
C07: `C07_slice_faithful_x`), and both deserializer paths read it as an ordinary string: a `String` / `any` target gets the
decoded bytes, `@` included; nothing is evaluated or substituted. -/
theorem C02_variable_is_string (enc : Enc) (r : Bytes) (o : Op) (toks : List TTok) (i : Nat)
    (hq : toks[i]? = some (.unq (64 :: r))) (rest : List RTok) :
    tde enc toks 1 .str (.opval o i) = .ok (.str (decode enc (64 :: r))) ∧
    sde enc 1 .str (.unq (64 :: r)) o rest = .ok (.str (decode enc (64 :: r)), rest) ∧
    tde enc toks 1 .any (.opval o i) = .ok (.str (decode enc (64 :: r))) ∧
    sde enc 1 .any (.unq (64 :: r)) o rest = .ok (.str (decode enc (64 :: r)), rest) := by
  have h1 := C02_scalar_dispatch enc .str rfl (64 :: r) o 1 (by simp [Ty.wrapDepth]) toks i (Or.inl hq) (.unq (64 :: r)) (Or.inl rfl) rest
  have h2 := C02_scalar_dispatch enc .any rfl (64 :: r) o 1 (by simp [Ty.wrapDepth]) toks i (Or.inl hq) (.unq (64 :: r)) (Or.inl rfl) rest
  exact ⟨h1.1, h1.2, h2.1, h2.2⟩

/-- The one scalar shape the full-syntax end-to-end theorems exclude (`SafeScalX`): an UNQUOTED scalar that begins with
`?`.  The tape parser reads `?b` as one scalar; the reader takes the `?` for the operator `Exists` wherever such a scalar
stands (`C07_known_question_scalar`, instantiated here: its token list is not the document's lexeme list).  From the
BYTES `a=?b` + newline into `st(a:str)`: the tape path returns `a = "?b"`, the reader path refuses (the value token is
followed by a key without a value). -/
theorem C02_question_scalar_paths_differ :
    (∃ (T : List TextTape.Tok) (b : Bool),
      TextTape.parse Jomini.TextE2E.bytesQuestion = .ok T b ∧
      (TextReader.sliceTokens Jomini.TextE2E.bytesQuestion).out = .end_ ∧
      deTape .utf8 Jomini.TextE2E.tyQuestion (Jomini.TextE2E.toTextDeTape T) = .ok (.st [([97], .str [63, 98])]) ∧
      deStream .utf8 Jomini.TextE2E.tyQuestion
          ((TextReader.sliceTokens Jomini.TextE2E.bytesQuestion).toks.map Jomini.TextE2E.toRTok) = .error .other) ∧
    -- C07_known_question_scalar on this document: `a`, `=`, then the scalar `?b`
    (TextReader.sliceTokens Jomini.TextE2E.bytesQuestion).toks ≠
      ([(([] : Bytes), TextReader.Lexeme.scalar false [97]), ([], .op .eq), ([], .scalar false [63, 98])]).map (fun x => x.2.tok) := by
  have h2 : deStream .utf8 Jomini.TextE2E.tyQuestion
      ((TextReader.sliceTokens Jomini.TextE2E.bytesQuestion).toks.map Jomini.TextE2E.toRTok) = .error .other := by
    rw [Jomini.TextE2E.question_lex.1]; rfl
  refine ⟨⟨_, _, Jomini.TextE2E.question_parse, Jomini.TextE2E.question_lex.2, by rfl, h2⟩, ?_⟩
  have hk := (Jomini.Props.C07.C07_known_question_scalar
    [([], TextReader.Lexeme.scalar false [97]), ([], .op .eq)] [] [] 98 [] [10] false
    (by
      refine ⟨.nil, Or.inl ⟨by decide +kernel, ⟨97, [], rfl, by decide, by decide, by decide, by decide⟩,
        Or.inr ⟨61, _, rfl, by decide +kernel⟩⟩, .nil, ?_, trivial⟩
      intro _; exact ⟨63, _, rfl, by decide⟩)
    .nil (by decide) (by intro _ ⟨r', h⟩; simp [TextReader.renderLex, TextReader.Lexeme.text, TextReader.opText] at h)).2
  simpa [Jomini.TextE2E.bytesQuestion, TextReader.renderLex, TextReader.Lexeme.text, TextReader.opText, TextReader.bomBytes] using hk

/-- a nested object whose FIRST field is a header field (`x={ a=rgb { 1 } b=2 }`, a shape of texttape's full document
type only): not a semantic obstacle -- from the bytes both models return the same value -- but outside the end-to-end
theorems, whose carrier `JFields` cannot express it -/
example : Jomini.TextE2E.bytesAgree (.st [([120], .st [([97], .str), ([98], .u8)])]) Jomini.TextE2E.bytesHdrFirst = true := by
  decide +kernel

/-- Mixed containers stay outside the document type, the paths differ there: from the BYTES
`a={ b=1 c d }` into `st(a:map(str))` both parsers succeed, the tape path (synthetic `remainder` key
with the rest as an array) refuses, the reader path reads `c = d` as a field. -/
theorem C02_mixed_container_paths_differ :
    ∃ T b, TextTape.parse Jomini.TextE2E.bytesMixed = .ok T b ∧
      (TextReader.sliceTokens Jomini.TextE2E.bytesMixed).out = .end_ ∧
      deTape .utf8 Jomini.TextE2E.tyMixed (Jomini.TextE2E.toTextDeTape T) ≠
        deStream .utf8 Jomini.TextE2E.tyMixed ((TextReader.sliceTokens Jomini.TextE2E.bytesMixed).toks.map Jomini.TextE2E.toRTok) :=
  Jomini.TextE2E.bytesDiffer_sound Jomini.TextE2E.mixed_differ

/-- The `=` may not be left out on the FIRST field of a nested container, the paths differ there:
from the BYTES `a={ b{ c=1 } d=2 }` the tape parser reads an array that starts with `b` (and turns
mixed), the reader path still sees the field `b`. -/
theorem C02_implicit_eq_first_field_paths_differ :
    ∃ T b, TextTape.parse Jomini.TextE2E.bytesFirstImplicit = .ok T b ∧
      (TextReader.sliceTokens Jomini.TextE2E.bytesFirstImplicit).out = .end_ ∧
      deTape .utf8 Jomini.TextE2E.tyFirstImplicit (Jomini.TextE2E.toTextDeTape T) ≠
        deStream .utf8 Jomini.TextE2E.tyFirstImplicit
          ((TextReader.sliceTokens Jomini.TextE2E.bytesFirstImplicit).toks.map Jomini.TextE2E.toRTok) :=
  Jomini.TextE2E.bytesDiffer_sound Jomini.TextE2E.firstImplicit_differ

/-- Parameter blocks stay outside the document type, the paths differ there: from the BYTES
`a=1 [[x] b=2 ] c=3` the tape parser writes a `Parameter` token with an object, the reader's lexer has
no parameter syntax (the brackets are scalars) and the key / value phase slips: `c` is read by the tape
path only. -/
theorem C02_parameter_block_paths_differ :
    ∃ T b, TextTape.parse Jomini.TextE2E.bytesParam = .ok T b ∧
      (TextReader.sliceTokens Jomini.TextE2E.bytesParam).out = .end_ ∧
      deTape .utf8 Jomini.TextE2E.tyParam (Jomini.TextE2E.toTextDeTape T) ≠
        deStream .utf8 Jomini.TextE2E.tyParam ((TextReader.sliceTokens Jomini.TextE2E.bytesParam).toks.map Jomini.TextE2E.toRTok) :=
  Jomini.TextE2E.bytesDiffer_sound Jomini.TextE2E.param_differ

/-! ### fixed-length targets (tuples, `[T; n]`) -/

/-- A fixed-length target on an array that is LONGER than the target, the exact behaviour of both paths
(elements that fit): the tape path reads the tuple's elements from the front and never looks at the rest
-- its result is `valueOfN`, whose `tupVals` takes the prefix; the reader path demands the closing brace
after the last element it was asked for -- its result is the first element error if there is one, and
the class `other` ("Expected sequence to be terminated with an end token") otherwise.  (On an array that
is not longer both paths return `valueOfN`, an `invalid length` error for a shorter one included:
`Fits.tup` in `C02_stream_eq_spec` / `C02_tape_eq_spec` / `C02_paths_agree`.) -/
theorem C02_tuple_longer (enc : Enc) (f : Nat) (ts : List Ty) (vs : List Node) (o : Op)
    (hall : ∀ t x, (t, x) ∈ List.zip ts (expandNodes vs) → FitsT enc false t x)
    (hwf : (Node.arr vs).wf = true) (hlen : ts.length < (expandNodes vs).length) (hh : Ty.heightTs ts < f) :
    (∀ (toks : List TTok) (i : Nat) (b : Bool), SitsAt toks i (tapeNode i (.arr vs)) →
      tde enc toks (f + 1) (.tup ts) (vkOf b o i) = valueOfN enc (f + 1) (.tup ts) o (.arr vs)) ∧
    (∀ (rest : List RTok),
      sde enc (f + 1) (.tup ts) (nodeHead (.arr vs)) o (nodeTail (.arr vs) ++ rest) =
        (match tupVals (fun t x => valueOfN enc f t .eq x) ts (expandNodes vs) with
         | .error e => .error e
         | .ok _ => .error .other)) :=
  ⟨fun toks i b hsit => tde_tup_any_length enc toks f ts vs i b o hall hwf hsit hh,
   fun rest => sde_tup_longer enc f ts vs o rest (fun t x hm => fitsT_fits enc (hall t x hm)) hwf hlen hh⟩

/-- The recorded finding `tuple-longer-than-target` on the models, from the same BYTES
`id=1 arr={ 1 2 3 }` into `st(id:u8; arr:(i32, i32))`: the tape path accepts and returns the prefix
`(1, 2)`, the reader path refuses. -/
theorem C02_tuple_longer_paths_differ :
    ∃ (T : List TextTape.Tok) (b : Bool),
      TextTape.parse Jomini.TextE2E.bytesTupleLong = .ok T b ∧
      (TextReader.sliceTokens Jomini.TextE2E.bytesTupleLong).out = .end_ ∧
      deTape .utf8 Jomini.TextE2E.tyTupleLong (Jomini.TextE2E.toTextDeTape T)
        = .ok (.st [(Jomini.TextE2E.keyId, .uint 1), (Jomini.TextE2E.keyArr, .tup [.int 1, .int 2])]) ∧
      deStream .utf8 Jomini.TextE2E.tyTupleLong
          ((TextReader.sliceTokens Jomini.TextE2E.bytesTupleLong).toks.map Jomini.TextE2E.toRTok)
        = .error .other := by
  have h2 : deStream .utf8 Jomini.TextE2E.tyTupleLong
      ((TextReader.sliceTokens Jomini.TextE2E.bytesTupleLong).toks.map Jomini.TextE2E.toRTok) = .error .other := by
    rw [Jomini.TextE2E.tupleLong_lex.1]; rfl
  exact ⟨_, _, Jomini.TextE2E.tupleLong_parse, Jomini.TextE2E.tupleLong_lex.2, by rfl, h2⟩

/-- fitting length: equal values on both paths; a shorter array: both refuse (`invalid length`) -/
example :
    let ty : Ty := .st [([97], .tup [.i32, .str])]
    let d2 : Doc := [(.plain [97], .eq, .arr [.leaf ⟨[53], false⟩, .leaf ⟨[120], true⟩])]
    let d1 : Doc := [(.plain [97], .eq, .arr [.leaf ⟨[53], false⟩])]
    deTape .utf8 ty (tapeOf d2) = .ok (.st [([97], .tup [.int 5, .str [120]])]) ∧
    deStream .utf8 ty (lexemes d2) = .ok (.st [([97], .tup [.int 5, .str [120]])]) ∧
    deTape .utf8 ty (tapeOf d1) = .error .other ∧ deStream .utf8 ty (lexemes d1) = .error .other := by
  refine ⟨by rfl, by rfl, by rfl, by rfl⟩

/-! ### every target type: error agreement and where it ends -/

/-- Error agreement for EVERY root target type (not only fitting ones): for every well-formed
save-style document, the tape path and the stream path return the same result -- `ok` with the same
value, or `error` with the same error class (`DErr`, the classes of tyseed.rs `err_class`: `missing` and `duplicate`
with the field name, `type` = serde's invalid type / invalid value, and the COARSE class `other`, which lumps
everything else together: unknown enum variant, invalid length of a fixed-length target, an unterminated sequence,
a root that is not a map, lexer / end-of-input errors of the reader.  So "same error class" identifies the
field and the kind for the first three, and only "some other refusal" for the last; the error MESSAGES of the two
paths are not compared) -- and that result is the spec's `valueOf`; unless the
(type, document) pair contains one of the combinations of `Bad` (`any` on an object or a header
value; an enum on a container; a sequence on a non-array; a map / struct on a non-empty array or a
header value; `Property` outside field position).  `Bad` is necessary for a disagreement, and every
atomic combination of it does disagree on some document: `C02_divergent_witnesses`. -/
theorem C02_error_agreement (enc : Enc) (ty : Ty) (d : Doc) (hroot : Ty.isRoot ty = true)
    (hwf : wfFields d = true) :
    (deTape enc ty (tapeOf d) = deStream enc ty (lexemes d) ∧ deTape enc ty (tapeOf d) = valueOf enc ty d) ∨
    Bad enc false ty (.obj d) :=
  error_agreement enc ty d hroot hwf

/-- the agreeing side of `C02_error_agreement` contains errors: an integer requested for an object,
a struct requested for a scalar, an unparsable number -- both paths answer with the same error class -/
example : deTape .utf8 (.st [([120], .i64), ([121], .st []), ([122], .u32)])
      (tapeOf [(.plain [120], .eq, .obj []), (.plain [121], .eq, .leaf ⟨[49], false⟩)]) = .error .type ∧
    deStream .utf8 (.st [([120], .i64), ([121], .st []), ([122], .u32)])
      (lexemes [(.plain [120], .eq, .obj []), (.plain [121], .eq, .leaf ⟨[49], false⟩)]) = .error .type := by
  constructor <;> rfl

/-- the classification is exhaustive -/
theorem C02_fits_or_bad (enc : Enc) (ty : Ty) (b : Bool) (v : Node) : FitsT enc b ty v ∨ Bad enc b ty v :=
  fitsT_or_bad enc (ty.height + 1) ty b v (Nat.lt_succ_self _)

/-- Every atomic combination of `Bad` is a real divergence: for each (type, value) pair of
`divergentWitnesses` (`any` on an object / on an array holding an object / on a header value, an
enum on an object / array, a sequence on a scalar / object / header value, a map or struct on a
non-empty array / header value, `Property` as an array element / nested), the document
`x=<value> w=z` deserialized into `st(x:<type>, w:opt(str))` gives DIFFERENT results on the two
paths (different values, or different error classes, or one succeeds).  The same witnesses run
against the real code in the harness (fixed cases `divergent:*`), where each path is compared with
its model. -/
theorem C02_divergent_witnesses :
    ∀ p ∈ Jomini.TextE2E.divergentWitnesses,
      deTape .utf8 (Jomini.TextE2E.witnessTy p.1) (tapeOf (Jomini.TextE2E.witnessDoc p.2)) ≠
      deStream .utf8 (Jomini.TextE2E.witnessTy p.1) (lexemes (Jomini.TextE2E.witnessDoc p.2)) := by
  intro p hp heq
  have h := List.all_eq_true.mp Jomini.TextE2E.divergent_all p hp
  rw [Jomini.TextE2E.resBeq_of_eq heq] at h
  exact absurd h (by decide)

/-- `any` on an object: the tape path presents a map, the stream path the bare token sequence
(`deserialize_any` on `Token::Open` is `deserialize_seq`, and the stream `SeqAccess` yields one element
per token, operators included) -- so no shared `valueOf` exists there, while `any` on arrays of
scalars / arrays / header values (any depth) is inside `Fits` and covered by every C02 theorem. -/
theorem C02_any_on_object_paths_differ :
    deTape .utf8 (.st [([120], .any)]) (tapeOf [(.plain [120], .eq, .obj [(.plain [97], .eq, .leaf ⟨[49], false⟩)])])
      = .ok (.st [([120], .map [(.str [97], .str [49])])]) ∧
    deStream .utf8 (.st [([120], .any)]) (lexemes [(.plain [120], .eq, .obj [(.plain [97], .eq, .leaf ⟨[49], false⟩)])])
      = .ok (.st [([120], .seq [.str [97], .str [61], .str [49]])]) := by
  constructor <;> rfl

/-- `any` on nested arrays (with a header value inside): both paths, the spec's tree -/
example : deTape .utf8 (.st [([120], .any)])
      (tapeOf [(.plain [120], .eq, .arr [.leaf ⟨[49], false⟩, .arr [.leaf ⟨[50], true⟩], .hdr [114] (.arr [])])])
      = .ok (.st [([120], .seq [.str [49], .seq [.str [50]], .str [114], .seq []])]) ∧
    deStream .utf8 (.st [([120], .any)])
      (lexemes [(.plain [120], .eq, .arr [.leaf ⟨[49], false⟩, .arr [.leaf ⟨[50], true⟩], .hdr [114] (.arr [])])])
      = .ok (.st [([120], .seq [.str [49], .seq [.str [50]], .str [114], .seq []])]) := by
  constructor <;> rfl

/-! ### the known findings, on the models (the fragment boundaries of the theorems above are tight) -/

/-- Known finding `array-leading-empty`, reproduced on the models from the same BYTES `a={ {} x y }`
into `st(a:seq(ign))`: the tape parser drops the empty `{}` that stands first in the array, the slice
reader keeps it; the tape path yields 2 elements, the streaming path 3.  (Outside `SPlainF`: a ghost
`{}` at the start of a container.) -/
theorem C02_known_array_leading_empty_breaks :
    ∃ (T : List TextTape.Tok) (b : Bool),
      TextTape.parse Jomini.TextE2E.bytesLeadingEmpty = .ok T b ∧
      (TextReader.sliceTokens Jomini.TextE2E.bytesLeadingEmpty).out = .end_ ∧
      deTape .utf8 (.st [([97], .seq .ign)]) (Jomini.TextE2E.toTextDeTape T)
        = .ok (.st [([97], .seq [.ign, .ign])]) ∧
      deStream .utf8 (.st [([97], .seq .ign)])
          ((TextReader.sliceTokens Jomini.TextE2E.bytesLeadingEmpty).toks.map Jomini.TextE2E.toRTok)
        = .ok (.st [([97], .seq [.ign, .ign, .ign])]) ∧
      deTape .utf8 (.st [([97], .seq .ign)]) (Jomini.TextE2E.toTextDeTape T) ≠
        deStream .utf8 (.st [([97], .seq .ign)])
          ((TextReader.sliceTokens Jomini.TextE2E.bytesLeadingEmpty).toks.map Jomini.TextE2E.toRTok) := by
  have h1 : deTape .utf8 (.st [([97], .seq .ign)]) (Jomini.TextE2E.toTextDeTape
      [.unquoted ⟨12, [97]⟩, .array 4 false, .unquoted ⟨5, [120]⟩, .unquoted ⟨3, [121]⟩, .endTok 1])
      = .ok (.st [([97], .seq [.ign, .ign])]) := by rfl
  have h2 : deStream .utf8 (.st [([97], .seq .ign)])
      ((TextReader.sliceTokens Jomini.TextE2E.bytesLeadingEmpty).toks.map Jomini.TextE2E.toRTok)
      = .ok (.st [([97], .seq [.ign, .ign, .ign])]) := by
    rw [Jomini.TextE2E.leadingEmpty_lex.1]; rfl
  refine ⟨_, _, Jomini.TextE2E.leadingEmpty_parse, Jomini.TextE2E.leadingEmpty_lex.2, h1, h2, ?_⟩
  rw [h1, h2]; simp

/-- Known finding `text-reader-header`, reproduced on the models from the same BYTES
`color = rgb { 1 2 3 }` into `st(color:seq(any))`: the tape path reads the header value as a
two-element sequence (header, body -- each presented by `deserialize_any` as the body), the streaming
path ignores the current token in `deserialize_seq` and runs into the end of the input.  (Outside
`Fits`: a sequence target on a header value.) -/
theorem C02_known_text_reader_header_breaks :
    ∃ (T : List TextTape.Tok) (b : Bool),
      TextTape.parse Jomini.TextE2E.bytesHeaderSeq = .ok T b ∧
      (TextReader.sliceTokens Jomini.TextE2E.bytesHeaderSeq).out = .end_ ∧
      deTape .utf8 (.st [(Jomini.TextE2E.keyColor, .seq .any)]) (Jomini.TextE2E.toTextDeTape T)
        = .ok (.st [(Jomini.TextE2E.keyColor,
            .seq [.seq [.str [49], .str [50], .str [51]], .seq [.str [49], .str [50], .str [51]]])]) ∧
      deStream .utf8 (.st [(Jomini.TextE2E.keyColor, .seq .any)])
          ((TextReader.sliceTokens Jomini.TextE2E.bytesHeaderSeq).toks.map Jomini.TextE2E.toRTok)
        = .error .other := by
  have h2 : deStream .utf8 (.st [(Jomini.TextE2E.keyColor, .seq .any)])
      ((TextReader.sliceTokens Jomini.TextE2E.bytesHeaderSeq).toks.map Jomini.TextE2E.toRTok) = .error .other := by
    rw [Jomini.TextE2E.headerSeq_lex.1]; rfl
  exact ⟨_, _, Jomini.TextE2E.headerSeq_parse, Jomini.TextE2E.headerSeq_lex.2, by rfl, h2⟩

end Jomini.Props.C02
