import JominiModel.Model.TextDe
import JominiModel.Spec.TextDoc
import JominiModel.Proofs.TextDe
/-
C02 — Text deserialization returns the document's values on both parse paths.
Only property theorems live here; helper lemmas are in `Proofs/TextDe*.lean`.
-/
namespace Jomini.Props.C02
open Jomini Jomini.TextDe Jomini.TextDoc

/-- For every scalar token (quoted or not), every scalar target type (typed leaves, strings,
`any`, `ign`, unit enums, under `Option` / `Property`), every operator and both encodings, the
tape-path and the stream-path deserializer yield the spec's value of that scalar: both call the
same leaf conversion (`leafConv`: C11's conversions plus serde's range checks; `decode`: C12). -/
theorem C02_scalar_dispatch (enc : Enc) (ty : Ty) (hty : Ty.isFieldScalarTy ty = true)
    (s : Bytes) (o : Op) (f : Nat) (hf : Ty.wrapDepth ty < f)
    (toks : List TTok) (i : Nat) (hq : toks[i]? = some (.unq s) ∨ toks[i]? = some (.quo s))
    (tok : RTok) (ht : tok = .unq s ∨ tok = .quo s) (rest : List RTok) :
    tde enc toks f ty (.opval o i) = valueOfField enc ty o s ∧
    sde enc f ty tok o rest = (valueOfField enc ty o s).map (fun v => (v, rest)) :=
  ⟨tde_field enc toks i s hq o ty hty f hf, sde_field enc ty hty f hf tok s ht o rest⟩

example : tde .w1252 [.unq [97], .op .gt, .unq [49, 50]] 2 (.prop .i64) (.opval .gt 2) = .ok (.prop .gt (.int 12)) ∧
    sde .w1252 2 (.prop .i64) (.unq [49, 50]) .gt [] = .ok (.prop .gt (.int 12), []) := by
  constructor <;> rfl

/-- `Option`: a present value is `some` of the inner value on both paths; a declared `Option`
field that never occurred is `none`, any other missing field is the error `missing`, a field that
occurred carries its value (`structFinish`, shared by both paths); an unknown field leaves the
collected fields unchanged on both paths and the stream path consumes exactly its value. -/
theorem C02_option_unknown (enc : Enc) :
    (∀ (toks : List TTok) (f : Nat) (t : Ty) (vk : VK),
        tde enc toks (f + 1) (.opt t) vk = (tde enc toks f t vk).map Val.some) ∧
    (∀ (f : Nat) (t : Ty) (tok : RTok) (o : Op) (r : List RTok),
        sde enc (f + 1) (.opt t) tok o r = (sde enc f t tok o r).map (fun (v, r') => (Val.some v, r'))) ∧
    (∀ (fs : List (Bytes × Ty)) (seen : List (Nat × Val)) (out : List (Bytes × Val)),
        structFinish fs 0 seen = .ok out →
        out.length = fs.length ∧
        ∀ (k : Nat) (hk : k < fs.length), out[k]? = finishEntry fs[k].1 fs[k].2 (seenGet k seen)) ∧
    (∀ (fs : List (Bytes × Ty)) (name : Bytes) (deVal : Ty → R Val) (seen : List (Nat × Val)),
        lookupIdx name fs 0 = none → structEntry fs name deVal seen = .ok seen) ∧
    (∀ (fs : List (Bytes × Ty)) (seen : List (Nat × Val)) (k : RTok) (name : Bytes),
        sKeyName enc k = .ok name → lookupIdx name fs 0 = none → sStructKey enc fs seen k = .ok none) ∧
    (∀ (de : SDe) (seen : List (Nat × Val)) (t' : RTok) (o : Op) (r : List RTok),
        sStructVal de seen none t' o r = (de .ign t' o r).map (fun (_, r') => (seen, r'))) := by
  refine ⟨?_, ?_, ?_, ?_, ?_, ?_⟩
  · intro toks f t vk; simp [tde]
  · intro f t tok o r; simp [sde]
  · intro fs seen out h
    have := structFinish_ok fs 0 seen out h
    simpa using this
  · intro fs name deVal seen h; simp [structEntry, h]
  · intro fs seen k name hk h; simp [sStructKey, hk, h]
  · intro de seen t' o r; simp [sStructVal]

example : structFinish [([97], .opt .i64), ([98], .str)] 0 [(1, .str [120])] = .ok [([97], .none), ([98], .str [120])] := by rfl

end Jomini.Props.C02
