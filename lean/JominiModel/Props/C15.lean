import JominiModel.Model.Writer
import JominiModel.Spec.Writer
import JominiModel.Proofs.Writer
/-
C15 — Well-formed sequences of writer calls parse back to exactly what was written.
Only property theorems live here; helper lemmas are in `Proofs/Writer.lean`, reference
definitions in `Spec/Writer.lean`.

Clauses and where they are decided
  * quoted payloads survive escaping ............ C15_escape_opaque, C15_unescape (all byte strings)
  * depth()/expecting_key() reflect the calls ... C15_state_reflects_calls (all call lists)
  * misordered calls: error or output, no panic . C15_total (all states, all calls)
  * integers read back exactly .................. C15_ints
  * the output parses to the described structure  growth theorem C15_lexemes, NOT proved (the tape
    parser is another slice's model); decided on the implementation by the L3 oracle of
    harness/src/props/c15.rs (re-parse with the real `TextTape::from_slice`)
  * floats within 2 ulp ......................... float `Display` is not modelled; L3 oracle only
-/
namespace Jomini.Props.C15
open Jomini Jomini.Writer Jomini.Writer.Spec

/-- No payload can end the quoted scalar early or swallow the closing quote: for ALL byte
strings `x` and every continuation `r`, the reference scanner applied to
`'"' ++ escape x ++ '"' ++ r` returns exactly `(escape x, r)`.  (`escape` is the model of
writer.rs:942 with its first-special-byte split and separate last-byte handling.) -/
theorem C15_escape_opaque (x r : Bytes) :
    scanQuotedScalar (34 :: (escape x ++ 34 :: r)) = some (escape x, r) := by
  simp only [scanQuotedScalar]
  rw [escape_eq_spec, escapeSpec]
  exact scanQuoted_escapeEach _ r

example : scanQuotedScalar (34 :: (escape [97, 92] ++ 34 :: [61, 34])) = some ([97, 92, 92], [61, 34]) := by
  rfl

/-- Deleting the backslash escapes of `escape x` gives `x` minus one trailing newline (the
documented quirk), for ALL byte strings. -/
theorem C15_unescape (x : Bytes) : unescape (escape x) = dropOneTrailingNewline x := by
  rw [escape_eq_spec, escapeSpec]
  exact unescape_escapeEach _

example : unescape (escape [34, 92, 10, 10]) = [34, 92, 10] := by rfl

/-- `write_quoted` puts exactly `"` ++ escape payload ++ `"` after whatever separator the
state machine asks for (so the two theorems above speak about the bytes really written). -/
theorem C15_quoted_output (s s' : State) (x : Bytes) (h : writeQuoted s x = .ok s') :
    s'.out = (writePreamble s).out ++ ([34] ++ escape x ++ [34]) := by
  unfold writeQuoted writeEpilogue at h
  split at h
  · cases h
  · cases h; rfl

/-- For EVERY call list, indent configuration and payloads: what a caller observes after each
call (`depth()`, `expecting_key()`, `at_array_value()`, `at_unknown_start()`, or the error) is
what the payload-free reference automaton `Spec.refRun` computes from the *kinds* of the calls
made so far, and the final depth is the number of unmatched starts of the history. -/
theorem C15_state_reflects_calls (cs : List Call) (indentChar : UInt8) (indentFactor : Nat) :
    (run cs (State.init indentChar indentFactor)).2 = refRun (cs.map kind) Core.init ∧
    (run cs (State.init indentChar indentFactor)).1.depthLen = unmatchedStarts (cs.map kind) 0 := by
  refine ⟨run_obs cs _, ?_⟩
  have h := run_core cs (State.init indentChar indentFactor)
  have hd := foldl_depth (cs.map kind) (core (State.init indentChar indentFactor))
  rw [← h] at hd
  exact hd

example : (run [.unquoted [97], .start, .quoted [98], .operator .lt, .i64 5, .end, .end]
    (State.init 32 2)).2.map (fun o => o.toOption.map (·.depth)) =
    [some 0, some 1, some 1, some 1, some 1, some 0, none] := by decide +kernel

/-- the payloads and the indent configuration are invisible to the observers -/
theorem C15_state_payload_independent (cs cs' : List Call) (c c' : UInt8) (f f' : Nat)
    (h : cs.map kind = cs'.map kind) :
    (run cs (State.init c f)).2 = (run cs' (State.init c' f')).2 := by
  rw [(C15_state_reflects_calls cs c f).1, (C15_state_reflects_calls cs' c' f').1, h]

/-- what the three start calls and a successful end leave observable -/
theorem C15_state_after_calls (s : State) :
    (writeObjectStart s).expectingKey = true ∧ (writeObjectStart s).depthLen = s.depthLen + 1 ∧
    (writeStart s).atUnknownStart = true ∧ (writeStart s).depthLen = s.depthLen + 1 ∧
    (writeArrayStart s).expectingKey = false ∧ (writeArrayStart s).atArrayValue = false ∧
    (writeArrayStart s).depthLen = s.depthLen + 1 ∧
    (∀ m rest s', s.depth = m :: rest → writeEnd s = .ok s' →
      s'.depth = rest ∧ s'.expectingKey = decide (m = .object) ∧ s'.atArrayValue = decide (m = .array)) := by
  refine ⟨rfl, by simp [writeObjectStart, writeStart, State.depthLen, put, writePreamble_depth], rfl,
    by simp [writeStart, State.depthLen, put, writePreamble_depth], rfl, rfl,
    by simp [writeArrayStart, writeStart, State.depthLen, put, writePreamble_depth], ?_⟩
  intro m rest s' hd he
  unfold writeEnd at he
  rw [hd] at he
  simp only [Except.ok.injEq] at he
  subst he
  by_cases hn : s.state.noDataYet = true <;> cases m <;>
    simp [hn, State.expectingKey, State.atArrayValue, put, writeIndent_eq]

/-- Every call on every state (including states no call sequence reaches) returns a new state
or the error `StackEmpty`; the model's `panic` outcome (index out of the transition table,
`unwrap` on `None`, `unreachable!`) never occurs.  The only failing call is an end (directly or
through `write_binary`) on an empty stack, and that one always fails. -/
theorem C15_total (s : State) (c : Call) :
    (∃ s', step s c = .ok s') ∨
    (step s c = .error .stackEmpty ∧ kind c = .end ∧ s.depth = []) := by
  cases h : step s c with
  | ok s' => exact Or.inl ⟨s', rfl⟩
  | error e =>
    obtain ⟨he, hk, hd⟩ := step_error s c e h
    subst he
    exact Or.inr ⟨rfl, hk, hd⟩

/-- `write_end` with nothing open is `StackEmpty`, with something open it succeeds -/
theorem C15_end_on_empty_stack (s : State) :
    (s.depth = [] → step s .end = .error .stackEmpty) ∧
    (s.depth ≠ [] → ∃ s', step s .end = .ok s') := by
  constructor
  · intro h; simp [step, writeEnd, h]
  · intro h
    cases hd : s.depth with
    | nil => exact absurd hd h
    | cons m rest => simp [step, writeEnd, hd]

example : step (State.init 32 2) .end = .error .stackEmpty := by rfl

/-- whole call lists: `run` never records a `panic`; an entry is an error exactly for an end
on an empty stack -/
theorem C15_total_run (cs : List Call) (s : State) :
    ∀ r ∈ (run cs s).2, r ≠ .error .panic ∧ r ≠ .error .fuel := by
  induction cs generalizing s with
  | nil => simp [run]
  | cons c cs ih =>
    intro r hr
    simp only [run] at hr
    cases hs : step s c with
    | ok s' =>
      rw [hs] at hr
      simp only [List.mem_cons] at hr
      rcases hr with rfl | hr
      · simp
      · exact ih s' r hr
    | error e =>
      rw [hs] at hr
      simp only [List.mem_cons] at hr
      obtain ⟨he, _, _⟩ := step_error s c e hs
      subst he
      rcases hr with rfl | hr
      · simp
      · exact ih s r hr

/-- the state `Error` of the Rust enum is never entered: from any non-`Error` state no call
leads to it (its table entry is the one that cannot be measured) -/
theorem C15_error_state_unreachable (s s' : State) (c : Call) (hs : s.state ≠ .error)
    (h : step s c = .ok s') : s'.state ≠ .error := by
  have hc := core_step s c
  rw [h] at hc
  simp only [Except.map] at hc
  have key : ∀ (k k' : Core) (kd : Kind), k.state ≠ .error → coreStep k kd = .ok k' → k'.state ≠ .error := by
    intro k k' kd hk hstep
    obtain ⟨mode, depth, state, nlt, mixed⟩ := k
    cases kd <;> simp only [coreStep, Core.open, Core.close, Core.mixed, Core.header, Core.operator,
      Core.value, Core.epilogue, Core.preamble, Core.rgb] at hstep
    case value =>
      cases state <;> simp_all [WriteState.next, WriteState.toNat, Jomini.Tables.writeStateNext, WriteState.ofNat?]
      all_goals (subst hstep; simp)
    case «end» =>
      cases depth with
      | nil => simp at hstep
      | cons m rest =>
        simp only [Except.ok.injEq] at hstep
        subst hstep
        cases m <;> simp
    case operator =>
      simp only [Except.ok.injEq] at hstep
      subst hstep
      split <;> simp_all
    case rgb =>
      obtain ⟨k1, v1, d1, _⟩ := value_ok (Core.open (Core.header ⟨mode, depth, state, nlt, mixed⟩) .array .arrayValueFirst)
      obtain ⟨k2, v2, d2, _⟩ := value_ok k1
      obtain ⟨k3, v3, d3, _⟩ := value_ok k2
      simp only [Core.open, Core.header, Core.preamble, Core.value, Core.epilogue] at v1 v2 v3
      simp only [v1, v2, v3] at hstep
      have hd : k3.depth = mode :: depth := by rw [d3, d2, d1]; rfl
      rw [hd] at hstep
      simp only [Except.ok.injEq] at hstep
      subst hstep
      cases mode <;> simp
    all_goals (simp only [Except.ok.injEq] at hstep; subst hstep; simp_all)
  have := key (core s) (core s') (kind c) (by simpa [core] using hs) hc.symm
  simpa [core] using this

/-- Integers read back exactly: the decimal rendering of every `u64` converts back to the same
value with the model of `Scalar::to_u64` (C11); every `u64` / `i64` / `i32` / `u32` rendering (in
fact every magnitude below 10^20, `i64::MIN` included) is all digits after an optional `-` and has
exactly the written value as its decimal value.  (The link of the signed case to the model of
`Scalar::to_i64` is left to C11, whose model is being changed for the `i64::MIN` repair
8327848; the implementation-side read-back through `to_i64` is checked by the L3 oracle for
every integer call, `i64::MIN` included.) -/
theorem C15_ints :
    (∀ n : Nat, n ≤ Scalar.U64_MAX → Scalar.toU64 (fmtNat n) = .ok n) ∧
    (∀ n : Nat, n < 10 ^ 20 → allDigits (fmtNat n) = true ∧ decVal (fmtNat n) = n) ∧
    (∀ i : Int, i.natAbs < 10 ^ 20 → signedDecVal (fmtInt i) = i) := by
  refine ⟨toU64_fmtNat, fun n h => ⟨(fmtNat_spec n h).1, (fmtNat_spec n h).2.1⟩, ?_⟩
  intro i h
  unfold fmtInt
  by_cases hneg : i < 0
  · simp only [hneg, if_true, signedDecVal]
    rw [(fmtNat_spec _ h).2.1]
    omega
  · obtain ⟨h1, h2, h3⟩ := fmtNat_spec i.toNat (by omega)
    simp only [hneg, if_false]
    cases hf : fmtNat i.toNat with
    | nil => exact absurd hf h3
    | cons c body =>
      rw [hf] at h1 h2
      have hc : c ≠ 45 := by
        intro hc
        subst hc
        simp [allDigits, isDigit] at h1
      have : signedDecVal (c :: body) = (decVal (c :: body) : Int) := by
        unfold signedDecVal
        split
        · rename_i heq
          simp only [List.cons.injEq] at heq
          exact absurd heq.1 hc
        · rfl
      rw [this, h2]
      omega

example : fmtInt (-1444) = [45, 49, 52, 52, 52] ∧ fmtNat 18446744073709551615 =
    [49, 56, 52, 52, 54, 55, 52, 52, 48, 55, 51, 55, 48, 57, 53, 53, 49, 54, 49, 53] := by
  constructor <;> decide +kernel

example : signedDecVal (fmtInt (-(2 ^ 63))) = -(2 ^ 63) :=
  C15_ints.2.2 _ (by decide)

/-- The flat-document instance of `C15_lexemes` (full statement below): root-level `key value`
pairs written with `write_unquoted` and implicit `=` come out as exactly `k=v` lines separated
by one `\n`, for every indent configuration (no indentation at depth 0, no trailing newline,
`=` exactly once per pair).  Partial: only flat documents of unquoted scalars. -/
theorem C15_lexemes_partial (kvs : List (Bytes × Bytes)) (c : UInt8) (f : Nat) :
    (run (flatCalls kvs) (State.init c f)).1.out = flatLines kvs true := by
  have := run_flat kvs (State.init c f) rfl rfl
  simpa [State.init] using this

example : (run (flatCalls [([104, 101, 108, 108, 111], [119, 111, 114, 108, 100]), ([102, 111, 111], [98, 97, 114])])
    (State.init 32 2)).1.out =
    [104, 101, 108, 108, 111, 61, 119, 111, 114, 108, 100, 10, 102, 111, 111, 61, 98, 97, 114] := by
  decide +kernel

/-
Growth theorem, NOT proved in general (full statement kept; `C15_lexemes_partial` is its flat instance):

  theorem C15_lexemes (cs : List Call) (c : UInt8) (f : Nat) (h : WellFormedCalls cs) :
      TextLex (run cs (State.init c f)).1.out = lexemesOf cs

  where `WellFormedCalls` is the document grammar over calls (keys followed by values,
  containers opened as object / array / unknown and closed in balance, operators, headers),
  `TextLex` the lexer of the text format and `lexemesOf` the lexeme list the calls describe; and
  hence, with C01's `C01_faithful`, `parse (run cs _).out = tapeOf (docOf cs)`.

  Missing: a lexer/parser model (owned by the text-tape slice) and the induction over the
  grammar.  Until then the clause is decided on the real code: the harness re-parses the
  output of every well-formed call list with `TextTape::from_slice` and compares it with an
  independent transcription of the described document (oracle kinds `wf-parse-back`,
  `wf-output-does-not-parse`, `wf-state`).
-/

end Jomini.Props.C15
