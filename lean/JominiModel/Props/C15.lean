import JominiModel.Model.Writer
import JominiModel.Spec.Writer
import JominiModel.Proofs.Writer
import JominiModel.Spec.WriterFlat
import JominiModel.Proofs.WriterFlat
import JominiModel.Spec.WriterNested
import JominiModel.Proofs.WriterNested
import JominiModel.Proofs.WriterParse
import JominiModel.Spec.WriterArrays
import JominiModel.Proofs.WriterArrays
import JominiModel.Proofs.TextTapeFaithful3
import JominiModel.Proofs.WriterGenParse
import JominiModel.Proofs.WriterBinary
import JominiModel.Proofs.WriterMixedParse
import JominiModel.Proofs.WriterSink
import JominiModel.Proofs.WriterFullCalls
import JominiModel.Proofs.WriterExamples
/-
C15 — Well-formed sequences of writer calls parse back to exactly what was written.
Only property theorems live here; helper lemmas are in `Proofs/Writer*.lean`, reference
definitions in `Spec/Writer*.lean`.

Clauses and where they are decided
  * quoted payloads survive escaping ............ C15_escape_opaque, C15_unescape, C15_quoted_output (all byte strings;
    "survive" = up to ONE trailing newline, which `write_quoted` documents to trim — writer.rs:300; the oracle
    counts such payloads as an explicit exclusion)
  * depth()/expecting_key() reflect the calls ... C15_state_reflects_calls, C15_state_payload_independent,
    C15_state_after_calls (all call lists)
  * misordered calls: error or output, no panic . C15_total, C15_end_on_empty_stack, C15_total_run,
    C15_error_state_unreachable (all states, all calls); I/O errors of the sink: C15_failing_sink
  * integers read back exactly .................. C15_ints (every i64 / u64, `i64::MIN` included)
  * the output parses to the described structure, end to end through the text-tape parser model:
      C15_parse_back_containers (objects, arrays, empty containers, headers, every start flavour, typed
      scalars) with its instances _flat / _typed / _nested / _arrays; C15_rgb_parse_back; C15_mixed_parse_back;
      C15_parse_back_full / C15_mixed_parse_back_containers (the call list of every document of the text-tape
      slice's full document type, mixed-mode lists with containers included); the exact bytes: C15_lexemes_*
  * `write_binary` forwarding ................... C15_write_binary_eq_calls (true by definition of the model)
  * recorded findings on the models ............. C15_known_mixed_mode_lost_after_container,
    C15_known_operator_under_stale_mixed_mode
  * floats within 2 ulp ......................... float `Display` is not modelled (C15_float_text_shape covers the
    text shape); the numeric clause is decided by the L3 oracle only
  * tie to the real code: differential run `wcalls` / `wcallsw` (WRITE_STATE_NEXT measured), L3 oracle of
    harness/src/props/c15.rs (re-parse with the real `TextTape::from_slice`, read-back through Scalar / decoders)
-/
namespace Jomini.Props.C15
open Jomini Jomini.Writer Jomini.Writer.Spec

/-- No payload can end the quoted scalar early or swallow the closing quote: for ALL byte
strings `x` and every continuation `r`, the reference scanner applied to
`'"' ++ escape x ++ '"' ++ r` returns exactly `(escape x, r)`.  (`escape` is the model of
writer.rs:942 with its first-special-byte split and separate last-byte handling.) -/
theorem C15_escape_opaque (x r : Bytes) :
    scanQuotedScalar (34 :: (escape x ++ 34 :: r)) = some (escape x, r) := by
  simp only [scanQuotedScalar]
  rw [escape_eq_spec, escapeSpec]
  exact scanQuoted_escapeEach _ r

example : scanQuotedScalar (34 :: (escape [97, 92] ++ 34 :: [61, 34])) = some ([97, 92, 92], [61, 34]) := by
  rfl

/-- Deleting the backslash escapes of `escape x` gives `x` minus one trailing newline, for ALL byte
strings: `unescape (escape x) = dropOneTrailingNewline x`.  So "quoted payloads survive escaping" holds
exactly for payloads that do not end in `\n`; for the others ONE newline is lost — `write_quoted` documents
that it "will trim trailing newlines" (writer.rs:300), and the C15 oracle compares such payloads minus that
newline and counts them (`excluded:quoted-payload-ends-in-newline…`). -/
theorem C15_unescape (x : Bytes) : unescape (escape x) = dropOneTrailingNewline x := by
  rw [escape_eq_spec, escapeSpec]
  exact unescape_escapeEach _

example : unescape (escape [34, 92, 10, 10]) = [34, 92, 10] := by rfl

/-- `write_quoted` puts exactly `"` ++ escape payload ++ `"` after whatever separator the
state machine asks for (so the two theorems above speak about the bytes really written). -/
theorem C15_quoted_output (s s' : State) (x : Bytes) (h : writeQuoted s x = .ok s') :
    s'.out = (writePreamble s).out ++ ([34] ++ escape x ++ [34]) := by
  unfold writeQuoted writeEpilogue at h
  split at h
  · cases h
  · cases h; rfl

/-- For EVERY call list, indent configuration and payloads: what a caller observes after each
call (`depth()`, `expecting_key()`, `at_array_value()`, `at_unknown_start()`, or the error) is
what the payload-free reference automaton `Spec.refRun` computes from the *kinds* of the calls
made so far, and the final depth is the number of unmatched starts of the history.
What this says independently of the model: the first conjunct amounts to PAYLOAD INDEPENDENCE (`refRun` is the
same state machine with the output and the payloads erased — see `C15_state_payload_independent`); the
independent specification is the second conjunct, `depth = unmatchedStarts`, plus the measured transition table
and the `wcalls` correspondence, which compares every observation with the real writer. -/
theorem C15_state_reflects_calls (cs : List Call) (indentChar : UInt8) (indentFactor : Nat) :
    (run cs (State.init indentChar indentFactor)).2 = refRun (cs.map kind) Core.init ∧
    (run cs (State.init indentChar indentFactor)).1.depthLen = unmatchedStarts (cs.map kind) 0 := by
  refine ⟨run_obs cs _, ?_⟩
  have h := run_core cs (State.init indentChar indentFactor)
  have hd := foldl_depth (cs.map kind) (core (State.init indentChar indentFactor))
  rw [← h] at hd
  exact hd

example : (run [.unquoted [97], .start, .quoted [98], .operator .lt, .i64 5, .end, .end]
    (State.init 32 2)).2.map (fun o => o.toOption.map (·.depth)) =
    [some 0, some 1, some 1, some 1, some 1, some 0, none] := by decide +kernel

/-- the payloads and the indent configuration are invisible to the observers -/
theorem C15_state_payload_independent (cs cs' : List Call) (c c' : UInt8) (f f' : Nat)
    (h : cs.map kind = cs'.map kind) :
    (run cs (State.init c f)).2 = (run cs' (State.init c' f')).2 := by
  rw [(C15_state_reflects_calls cs c f).1, (C15_state_reflects_calls cs' c' f').1, h]

/-- what the three start calls and a successful end leave observable -/
theorem C15_state_after_calls (s : State) :
    (writeObjectStart s).expectingKey = true ∧ (writeObjectStart s).depthLen = s.depthLen + 1 ∧
    (writeStart s).atUnknownStart = true ∧ (writeStart s).depthLen = s.depthLen + 1 ∧
    (writeArrayStart s).expectingKey = false ∧ (writeArrayStart s).atArrayValue = false ∧
    (writeArrayStart s).depthLen = s.depthLen + 1 ∧
    (∀ m rest s', s.depth = m :: rest → writeEnd s = .ok s' →
      s'.depth = rest ∧ s'.expectingKey = decide (m = .object) ∧ s'.atArrayValue = decide (m = .array)) := by
  refine ⟨rfl, by simp [writeObjectStart, writeStart, State.depthLen, put, writePreamble_depth], rfl,
    by simp [writeStart, State.depthLen, put, writePreamble_depth], rfl, rfl,
    by simp [writeArrayStart, writeStart, State.depthLen, put, writePreamble_depth], ?_⟩
  intro m rest s' hd he
  unfold writeEnd at he
  rw [hd] at he
  simp only [Except.ok.injEq] at he
  subst he
  by_cases hn : s.state.noDataYet = true <;> cases m <;>
    simp [hn, State.expectingKey, State.atArrayValue, put, writeIndent_eq]

/-- Every call on every state (including states no call sequence reaches) returns a new state
or the error `StackEmpty`; the model's `panic` outcome (index out of the transition table,
`unwrap` on `None`, `unreachable!`) never occurs.  The only failing call is an end (directly or
through `write_binary`) on an empty stack, and that one always fails. -/
theorem C15_total (s : State) (c : Call) :
    (∃ s', step s c = .ok s') ∨
    (step s c = .error .stackEmpty ∧ kind c = .end ∧ s.depth = []) := by
  cases h : step s c with
  | ok s' => exact Or.inl ⟨s', rfl⟩
  | error e =>
    obtain ⟨he, hk, hd⟩ := step_error s c e h
    subst he
    exact Or.inr ⟨rfl, hk, hd⟩

/-- `write_end` with nothing open is `StackEmpty`, with something open it succeeds -/
theorem C15_end_on_empty_stack (s : State) :
    (s.depth = [] → step s .end = .error .stackEmpty) ∧
    (s.depth ≠ [] → ∃ s', step s .end = .ok s') := by
  constructor
  · intro h; simp [step, writeEnd, h]
  · intro h
    cases hd : s.depth with
    | nil => exact absurd hd h
    | cons m rest => simp [step, writeEnd, hd]

example : step (State.init 32 2) .end = .error .stackEmpty := by rfl

/-- whole call lists: `run` never records a `panic`; an entry is an error exactly for an end
on an empty stack -/
theorem C15_total_run (cs : List Call) (s : State) :
    ∀ r ∈ (run cs s).2, r ≠ .error .panic ∧ r ≠ .error .fuel := by
  induction cs generalizing s with
  | nil => simp [run]
  | cons c cs ih =>
    intro r hr
    simp only [run] at hr
    cases hs : step s c with
    | ok s' =>
      rw [hs] at hr
      simp only [List.mem_cons] at hr
      rcases hr with rfl | hr
      · simp
      · exact ih s' r hr
    | error e =>
      rw [hs] at hr
      simp only [List.mem_cons] at hr
      obtain ⟨he, _, _⟩ := step_error s c e hs
      subst he
      rcases hr with rfl | hr
      · simp
      · exact ih s r hr

/-- the state `Error` of the Rust enum is never entered: from any non-`Error` state no call
leads to it (its table entry is the one that cannot be measured) -/
theorem C15_error_state_unreachable (s s' : State) (c : Call) (hs : s.state ≠ .error)
    (h : step s c = .ok s') : s'.state ≠ .error := by
  have hc := core_step s c
  rw [h] at hc
  simp only [Except.map] at hc
  have key : ∀ (k k' : Core) (kd : Kind), k.state ≠ .error → coreStep k kd = .ok k' → k'.state ≠ .error := by
    intro k k' kd hk hstep
    obtain ⟨mode, depth, state, nlt, mixed⟩ := k
    cases kd <;> simp only [coreStep, Core.open, Core.close, Core.mixed, Core.header, Core.operator,
      Core.value, Core.epilogue, Core.preamble, Core.rgb] at hstep
    case value =>
      cases state <;> simp_all [WriteState.next, WriteState.toNat, Jomini.Tables.writeStateNext, WriteState.ofNat?]
      all_goals (subst hstep; simp)
    case «end» =>
      cases depth with
      | nil => simp at hstep
      | cons m rest =>
        simp only [Except.ok.injEq] at hstep
        subst hstep
        cases m <;> simp
    case operator =>
      simp only [Except.ok.injEq] at hstep
      subst hstep
      split <;> simp_all
    case rgb =>
      obtain ⟨k1, v1, d1, _⟩ := value_ok (Core.open (Core.header ⟨mode, depth, state, nlt, mixed⟩) .array .arrayValueFirst)
      obtain ⟨k2, v2, d2, _⟩ := value_ok k1
      obtain ⟨k3, v3, d3, _⟩ := value_ok k2
      simp only [Core.open, Core.header, Core.preamble, Core.value, Core.epilogue] at v1 v2 v3
      simp only [v1, v2, v3] at hstep
      have hd : k3.depth = mode :: depth := by rw [d3, d2, d1]; rfl
      rw [hd] at hstep
      simp only [Except.ok.injEq] at hstep
      subst hstep
      cases mode <;> simp
    all_goals (simp only [Except.ok.injEq] at hstep; subst hstep; simp_all)
  have := key (core s) (core s') (kind c) (by simpa [core] using hs) hc.symm
  simpa [core] using this

/-- Integers read back exactly: the decimal rendering of every `u64` converts back to the same
value with the model of `Scalar::to_u64`, the rendering of every `i64` — `i64::MIN` included
(repaired in 8327848) — with the model of `Scalar::to_i64` (C11); in terms of plain decimal
value, for every magnitude below 10^20. -/
theorem C15_ints :
    (∀ n : Nat, n ≤ Scalar.U64_MAX → Scalar.toU64 (fmtNat n) = .ok n) ∧
    (∀ i : Int, -(2 ^ 63) ≤ i → i ≤ 2 ^ 63 - 1 → Scalar.toI64 (fmtInt i) = .ok i) ∧
    (∀ n : Nat, n < 10 ^ 20 → allDigits (fmtNat n) = true ∧ decVal (fmtNat n) = n) ∧
    (∀ i : Int, i.natAbs < 10 ^ 20 → signedDecVal (fmtInt i) = i) := by
  refine ⟨toU64_fmtNat, toI64_fmtInt, fun n h => ⟨(fmtNat_spec n h).1, (fmtNat_spec n h).2.1⟩, ?_⟩
  intro i h
  unfold fmtInt
  by_cases hneg : i < 0
  · simp only [hneg, if_true, signedDecVal]
    rw [(fmtNat_spec _ h).2.1]
    omega
  · obtain ⟨h1, h2, h3⟩ := fmtNat_spec i.toNat (by omega)
    simp only [hneg, if_false]
    cases hf : fmtNat i.toNat with
    | nil => exact absurd hf h3
    | cons c body =>
      rw [hf] at h1 h2
      have hc : c ≠ 45 := by
        intro hc
        subst hc
        simp [allDigits, isDigit] at h1
      have : signedDecVal (c :: body) = (decVal (c :: body) : Int) := by
        unfold signedDecVal
        split
        · rename_i heq
          simp only [List.cons.injEq] at heq
          exact absurd heq.1 hc
        · rfl
      rw [this, h2]
      omega

example : fmtInt (-1444) = [45, 49, 52, 52, 52] ∧ fmtNat 18446744073709551615 =
    [49, 56, 52, 52, 54, 55, 52, 52, 48, 55, 51, 55, 48, 57, 53, 53, 49, 54, 49, 53] := by
  constructor <;> decide +kernel

example : Scalar.toI64 (fmtInt (-(2 ^ 63))) = .ok (-(2 ^ 63)) :=
  C15_ints.2.1 _ (by decide) (by decide)

/-- The flat-document instance of `C15_lexemes` (full statement below): root-level `key value`
pairs written with `write_unquoted` and implicit `=` come out as exactly `k=v` lines separated
by one `\n`, for every indent configuration (no indentation at depth 0, no trailing newline,
`=` exactly once per pair).  Partial: only flat documents of unquoted scalars. -/
theorem C15_lexemes_partial (kvs : List (Bytes × Bytes)) (c : UInt8) (f : Nat) :
    (run (flatCalls kvs) (State.init c f)).1.out = flatLines kvs true := by
  have := run_flat kvs (State.init c f) rfl rfl
  simpa [State.init] using this

example : (run (flatCalls [([104, 101, 108, 108, 111], [119, 111, 114, 108, 100]), ([102, 111, 111], [98, 97, 114])])
    (State.init 32 2)).1.out =
    [104, 101, 108, 108, 111, 61, 119, 111, 114, 108, 100, 10, 102, 111, 111, 61, 98, 97, 114] := by
  decide +kernel

/-- `C15_lexemes` for flat documents with everything a field can carry: root-level fields whose
key and value are `write_unquoted` or `write_quoted` calls (arbitrary payload bytes) with the `=`
implicit, or any explicit `write_operator`.  The bytes written are exactly one
`key<sep>value` line per field (`=` glued, every other operator with one space on both sides),
lines separated by one `\n`, quoted payloads escaped between quotes, for every indent
configuration. -/
theorem C15_lexemes_flat (fs : List FField) (c : UInt8) (f : Nat) :
    (run (fcalls fs) (State.init c f)).1.out = flatOut (fs.map FField.item) true := by
  have := run_fcalls fs (State.init c f) rfl rfl rfl
  simpa [State.init] using this

/-- First end-to-end round trip (writer model → tape parser model of the text-tape slice): for
every flat call list as above whose unquoted payloads are scalars of the text format
(`Scal.Valid`; quoted payloads are arbitrary bytes), `TextTape.parse` of the written bytes
succeeds and yields exactly the described tokens — keys, operators (none for `=`), values, with
their quotedness, quoted payloads as `escape payload` — in order, nothing else.  (`hb`: the text
does not begin with the three BOM bytes, i.e. the first key is not an unquoted scalar starting
with EF BB BF, which the parser would strip.) -/
theorem C15_parse_back_flat (fs : List FField) (c : UInt8) (f : Nat)
    (hv : ∀ x ∈ fs, x.key.Valid ∧ x.val.Valid)
    (hb : TextTape.hasBom (run (fcalls fs) (State.init c f)).1.out = false) :
    ∃ T, TextTape.parse (run (fcalls fs) (State.init c f)).1.out = .ok T false ∧
      T.map TextTape.Tok.erase = TextTape.contentFlat (fs.map fun x => x.item.content) := by
  rw [C15_lexemes_flat] at hb ⊢
  have hv' : ∀ it ∈ fs.map FField.item, it.key.Valid ∧ it.val.Valid := by
    intro it hit
    obtain ⟨x, hx, rfl⟩ := List.mem_map.1 hit
    exact ⟨scall_valid _ (hv x hx).1, scall_valid _ (hv x hx).2⟩
  obtain ⟨T, hp, he⟩ := parse_flatOut (fs.map FField.item) hv' hb
  exact ⟨T, hp, by rw [he, List.map_map]; rfl⟩

/-- `a="x\"y"` then `b < c`: payload with a quote, explicit operator; hypotheses hold and the
parse-back is computed by the two models -/
example :
    TextTape.parse (run (fcalls [⟨.unq [97], none, .quo [120, 34, 121]⟩, ⟨.unq [98], some .lt, .unq [99]⟩])
      (State.init 32 2)).1.out =
    .ok [.unquoted ⟨14, [97]⟩, .quoted ⟨11, [120, 92, 34, 121]⟩, .unquoted ⟨5, [98]⟩, .operator .lt,
         .unquoted ⟨1, [99]⟩] false := by
  decide +kernel

/-- The typed scalar calls need no hypothesis: whatever the value, the text `write_bool`,
`write_i32` / `write_u32` / `write_i64` / `write_u64` and `write_date` (all three formats, with or
without hour, negative years) produce is a well-formed unquoted scalar of the text format
(non-empty, no boundary byte, not starting with a blank, `"` or `@`). -/
theorem C15_typed_scalars_valid (c : SCall) (h : c.isTyped) : c.scal.Valid := by
  apply scall_valid
  cases c <;> first | trivial | exact h.elim

/-- Flat documents whose values are typed scalar calls (booleans, integers, dates) parse back to
exactly the described tokens: only the caller-supplied keys have to be scalars of the format.
(`C15_parse_back_flat` / `C15_parse_back_nested` cover the typed calls in every position, keys
included; this is the instance without a hypothesis on the values.) -/
theorem C15_parse_back_typed (fs : List FField) (c : UInt8) (f : Nat)
    (hk : ∀ x ∈ fs, x.key.Valid) (hv : ∀ x ∈ fs, x.val.isTyped)
    (hb : TextTape.hasBom (run (fcalls fs) (State.init c f)).1.out = false) :
    ∃ T, TextTape.parse (run (fcalls fs) (State.init c f)).1.out = .ok T false ∧
      T.map TextTape.Tok.erase = TextTape.contentFlat (fs.map fun x => x.item.content) := by
  refine C15_parse_back_flat fs c f (fun x hx => ⟨hk x hx, ?_⟩) hb
  have := hv x hx
  cases hval : x.val <;> rw [hval] at this <;> first | trivial | exact this.elim

/-- `a=yes`, `b=-5`, `c=1444.11.11`, `d=-005-01-02T09` -/
example : TextTape.parse (run (fcalls [⟨.unq [97], none, .bool true⟩, ⟨.unq [98], none, .i64 (-5)⟩,
      ⟨.unq [99], none, .date .dotShort 1444 11 11 0⟩, ⟨.unq [100], none, .date .iso8601 (-5) 1 2 10⟩])
      (State.init 32 2)).1.out =
    .ok [.unquoted ⟨39, [97]⟩, .unquoted ⟨37, [121, 101, 115]⟩, .unquoted ⟨33, [98]⟩, .unquoted ⟨31, [45, 53]⟩,
         .unquoted ⟨28, [99]⟩, .unquoted ⟨26, [49, 52, 52, 52, 46, 49, 49, 46, 49, 49]⟩, .unquoted ⟨15, [100]⟩,
         .unquoted ⟨13, [45, 48, 48, 53, 45, 48, 49, 45, 48, 50, 84, 48, 57]⟩] false := by
  decide +kernel

/-- `C15_lexemes` for nested objects, to any depth and for every indent byte and factor: a call
list that writes root fields whose values are scalars (`write_unquoted` / `write_quoted`) or
non-empty objects (`write_object_start … write_end`), with implicit or explicit operators, produces
exactly `textRoot`: every field on its own line behind `depth × factor` indent bytes (none and no
newline before the very first), `key<sep>value`, `{` directly after the separator, the closing
`}` on its own line at the indentation of the enclosing level. -/
theorem C15_lexemes_nested (fs : NFields) (c : UInt8) (f : Nat) :
    (run (ncallsF fs) (State.init c f)).1.out = textRoot c f fs := by
  cases fs with
  | nil => rfl
  | cons k o v r =>
    have hi : Inv (State.init c f) c f 0 := ⟨rfl, rfl, rfl, by simp [State.init], rfl, rfl⟩
    have := (runF c f (.cons k o v r) 0 (State.init c f) hi (Or.inl rfl) (by intro h; cases h)).1
    simpa [State.init, textRoot] using this

/-- `a={ b<"x" c={ d=e } }` with tab × 1 -/
example : (run (ncallsF (.cons (.unq [97]) none
      (.obj (.unq [98]) (some .lt) (.scal (.quo [120]))
        (.cons (.unq [99]) none (.obj (.unq [100]) none (.scal (.unq [101])) .nil) .nil)) .nil))
    (State.init 9 1)).1.out =
    [97, 61, 123, 10, 9, 98, 32, 60, 32, 34, 120, 34, 10, 9, 99, 61, 123, 10, 9, 9, 100, 61, 101, 10, 9, 125, 10, 125] := by
  decide +kernel

/-- End-to-end round trip for nested objects (writer model → tape parser model): for every call
list that writes root fields whose values are scalars or non-empty objects nested to any depth
(`write_object_start … write_end`, implicit or explicit operators, `write_unquoted` /
`write_quoted` with arbitrary quoted payloads), every indent factor and every indent byte the
parser treats as blank (space, tab, …), `TextTape.parse` of the written bytes succeeds and
yields exactly the described tape: keys, operators, scalars with their quotedness, and for
every object an `Object{end}` token whose `end` is the index of its `End` token, which points
back (`etoksF 0 fs`), in order, nothing else.  Hypotheses: the unquoted payloads are scalars
of the text format; the text does not begin with the three BOM bytes. -/
theorem C15_parse_back_nested (fs : NFields) (c : UInt8) (f : Nat)
    (hc : TextTape.isBlank c = true) (hv : ValidF fs)
    (hb : TextTape.hasBom (run (ncallsF fs) (State.init c f)).1.out = false) :
    ∃ T, TextTape.parse (run (ncallsF fs) (State.init c f)).1.out = .ok T false ∧
      T.map TextTape.Tok.erase = etoksF 0 fs := by
  rw [C15_lexemes_nested] at hb ⊢
  exact WriterParse.parse_textRoot c f hc fs hv hb

/-- `a={ b<"x" c={ d=e } }`, tab × 1: the tape computed by the two models -/
example : TextTape.parse (run (ncallsF (.cons (.unq [97]) none
      (.obj (.unq [98]) (some .lt) (.scal (.quo [120]))
        (.cons (.unq [99]) none (.obj (.unq [100]) none (.scal (.unq [101])) .nil) .nil)) .nil))
    (State.init 9 1)).1.out =
    .ok [.unquoted ⟨28, [97]⟩, .object 10 false, .unquoted ⟨23, [98]⟩, .operator .lt, .quoted ⟨18, [120]⟩,
         .unquoted ⟨14, [99]⟩, .object 9 false, .unquoted ⟨8, [100]⟩, .unquoted ⟨6, [101]⟩, .endTok 6,
         .endTok 1] false := by
  decide +kernel

/-- `C15_lexemes` for arrays of scalars and empty containers with every start flavour: root
fields whose values are scalars, non-empty arrays of scalars opened with `write_array_start` or with
`write_start` (kind unknown until the second element shows it is an array), or empty containers
opened in any of the three ways.  The bytes: `key<sep>{`, the elements on one line indented one
level and separated by single spaces, `}` on its own line; an empty container is `{ }` whatever
call opened it.  For every indent byte and factor. -/
theorem C15_lexemes_arrays (fs : List AField) (c : UInt8) (f : Nat) :
    (run (acalls fs) (State.init c f)).1.out = atext c f fs true :=
  lexemes_arrays fs c f

/-- …and they parse back (writer model → tape parser model, through the text-tape slice's
fragment-3 theorem) to exactly the described tape: keys, operators, an `Array{end}` … `End` pair
around the elements of every array, `Array{end}`,`End` for every empty container — in particular
`write_start` followed by scalars resolves to an array exactly like `write_array_start`, and the
three ways of opening an empty container are indistinguishable.  Hypotheses: the caller-supplied
unquoted payloads are scalars of the text format, the indent byte is one the parser treats as
blank, the text does not begin with the three BOM bytes. -/
theorem C15_parse_back_arrays (fs : List AField) (c : UInt8) (f : Nat)
    (hc : TextTape.isBlank c = true) (hv : ∀ x ∈ fs, x.key.Valid ∧ x.val.Valid)
    (hb : TextTape.hasBom (run (acalls fs) (State.init c f)).1.out = false) :
    ∃ T, TextTape.parse (run (acalls fs) (State.init c f)).1.out = .ok T false ∧
      T.map TextTape.Tok.erase = TextTape.ktapeF (acontent fs) 0 := by
  rw [C15_lexemes_arrays] at hb ⊢
  have hvalid : TextTape.JValidF (WriterParse.alayout c f fs true) [] := by
    apply WriterParse.valid_alayout c f hc fs true
    intro x hx
    obtain ⟨hk, hval⟩ := hv x hx
    refine ⟨scall_valid _ hk, ?_, ?_⟩
    · intro s hs; rw [hs] at hval; exact scall_valid _ hval
    · intro u a rest hs
      rw [hs] at hval
      exact ⟨scall_valid _ hval.1, fun e he => scall_valid _ (hval.2 e he)⟩
  have hr := WriterParse.jrenderF_alayout c f fs true
  have := TextTape.faithful_tree (WriterParse.alayout c f fs true) [] .nil hvalid
    (by rw [List.append_nil, hr]; exact hb)
  rw [List.append_nil, hr, WriterParse.kcontentF_alayout] at this
  exact this

/-- `a={ 1 "x" }` via `write_start`, `b={ }` via `write_object_start`, `c < yes` -/
example : TextTape.parse (run (acalls [⟨.unq [97], none, .arr true (.i64 1) [.quo [120]]⟩,
      ⟨.unq [98], none, .empty .objectStart⟩, ⟨.unq [99], some .lt, .scal (.bool true)⟩]) (State.init 32 2)).1.out =
    .ok [.unquoted ⟨27, [97]⟩, .array 4 false, .unquoted ⟨21, [49]⟩, .quoted ⟨18, [120]⟩, .endTok 1,
         .unquoted ⟨13, [98]⟩, .array 7 false, .endTok 6, .unquoted ⟨7, [99]⟩, .operator .lt,
         .unquoted ⟨3, [121, 101, 115]⟩] false := by
  decide +kernel

/-- `C15_lexemes` for the general container fragment: call lists that write root fields whose values
are scalars, empty containers, objects, arrays of scalars, arrays of containers (objects, arrays,
empty containers), and containers with a header (`write_header`), nested to any depth, with every
choice of start call: objects through `write_object_start`, or through `write_array_start` /
`write_start` followed by a key and an explicit operator (`GVal.Opened`: that is how the container
resolves to an object); arrays through `write_array_start` or `write_start`.  The bytes are exactly
`gtextRoot`: fields on their own indented lines, array elements after a scalar behind one space and
after a container on a new indented line, `{ }` for every empty container, `key<sep>header {`.
For every indent byte and factor. -/
theorem C15_lexemes_containers (fs : GFields) (ho : fs.Opened) (c : UInt8) (f : Nat) :
    (run (gcallsF fs) (State.init c f)).1.out = gtextRoot c f fs :=
  lexemes_gen fs ho c f

/-- …and they parse back (writer model → `TextTape.parse`, through the text-tape slice's
`faithful_tree`) to exactly the described tape (`ktapeF` of the content): keys, operators, scalars,
`Object{end}` / `Array{end}` / `End` links, `Header` tokens — whatever start call opened a
container (`write_start` resolves to an object exactly when an operator follows the first scalar,
to an array otherwise).  `GFields.Good`: caller-supplied unquoted scalars and headers are scalars
of the format; an object does not begin with a header field; the first element of an array of
containers and the body of a header are non-empty (the parser drops a leading `{}` as a ghost
object — the documented non-round-trippable shapes).  Indent byte blank, no BOM bytes first. -/
theorem C15_parse_back_containers (fs : GFields) (c : UInt8) (f : Nat) (hc : TextTape.isBlank c = true)
    (ho : fs.Opened) (hg : fs.Good)
    (hb : TextTape.hasBom (run (gcallsF fs) (State.init c f)).1.out = false) :
    ∃ T, TextTape.parse (run (gcallsF fs) (State.init c f)).1.out = .ok T false ∧
      T.map TextTape.Tok.erase = TextTape.ktapeF (gcontentF fs) 0 := by
  rw [C15_lexemes_containers fs ho] at hb ⊢
  exact WriterParse.parse_gtextRoot c f hc fs hg hb

/-- `a={ {b=1} 2 { } } c=rgb { 1 2 }` in call-list form (`write_start`, inner object through
`write_array_start` + `=`, typed scalars, `write_header`): `Opened` and `Good` are PROVED
(Proofs/WriterExamples.lean) and the theorem applies -/
example : ∃ T, TextTape.parse (run (gcallsF WriterExamples.gContainers) (State.init 32 1)).1.out = .ok T false ∧
    T.map TextTape.Tok.erase = TextTape.ktapeF (gcontentF WriterExamples.gContainers) 0 :=
  C15_parse_back_containers WriterExamples.gContainers 32 1 (by decide +kernel) WriterExamples.gContainers_opened
    WriterExamples.gContainers_good (by decide +kernel)

/-- `a={ {b=1} 2 { } }` opened with `write_start`, the inner object with `write_array_start` + `=`;
`c=rgb { 1 2 }` through `write_header`: the tape computed by the two models -/
example : TextTape.parse (run (gcallsF (.cons (.unq [97]) none
      (.arrC true (.obj .arrayStart (.cons (.unq [98]) (some .eq) (.scal (.i64 1)) .nil))
        (.cons (.scal (.i64 2)) (.cons (.empty .start) .nil)))
      (.hdr (.unq [99]) none [114, 103, 98] (.arrS false (.i64 1) (.cons (.scal (.i64 2)) .nil)) .nil)))
    (State.init 32 1)).1.out =
    .ok [.unquoted ⟨39, [97]⟩, .array 9 false, .object 5 false, .unquoted ⟨30, [98]⟩, .unquoted ⟨28, [49]⟩, .endTok 2,
         .unquoted ⟨22, [50]⟩, .array 8 false, .endTok 7, .endTok 1, .unquoted ⟨14, [99]⟩, .header ⟨12, [114, 103, 98]⟩,
         .array 15 false, .unquoted ⟨5, [49]⟩, .unquoted ⟨3, [50]⟩, .endTok 12] false := by
  decide +kernel

/-- `write_binary` forwarding: for EVERY `BinaryToken` kind and every writer state, `write_binary tok`
does exactly what the direct call `binCall tok` does (Array → `write_array_start`, Object →
`write_object_start`, MixedContainer → `start_mixed_mode`, Equal → `write_operator(=)`, End →
`write_end`, Bool / U32 / U64 / I64 / I32 / Quoted / Unquoted → the typed call, F32 / F64 → the float
write, Token → `__unknown_0x<hex>` unquoted, Rgb → `write_rgb`): same result, same error.  Hence a
call list that uses `write_binary` anywhere behaves — final state, bytes, and what is observable
after every call — exactly like the list with the direct calls (`unbin`), and every parse-back
theorem above transfers to it.  TRUE BY DEFINITION OF THE MODEL (`cases t <;> rfl`: `writeBinary` is written
as that dispatch); that the real `write_binary` forwards the same way is carried by the `wcalls`
correspondence over every `BinaryToken` kind (`bt:` call tokens). -/
theorem C15_write_binary_eq_calls :
    (∀ (s : State) (t : BinTok), step s (.binary t) = step s (binCall t)) ∧
    (∀ (cs : List Call) (s : State), run (cs.map unbin) s = run cs s) :=
  ⟨step_binary, run_unbin⟩

/-- the flat-document parse-back for a call list written entirely through `write_binary` -/
example (fs : List FField) (cs : List Call) (c : UInt8) (f : Nat) (h : cs.map unbin = fcalls fs)
    (hv : ∀ x ∈ fs, x.key.Valid ∧ x.val.Valid)
    (hb : TextTape.hasBom (run cs (State.init c f)).1.out = false) :
    ∃ T, TextTape.parse (run cs (State.init c f)).1.out = .ok T false ∧
      T.map TextTape.Tok.erase = TextTape.contentFlat (fs.map fun x => x.item.content) := by
  rw [← C15_write_binary_eq_calls.2 cs, h] at hb ⊢
  exact C15_parse_back_flat fs c f hv hb

/-- `write_rgb` is `write_header("rgb")` followed by an array of `write_u32` components … -/
theorem C15_rgb_eq_calls (s : State) (c : Rgb) :
    step s (.rgb c) = .ok (run (.header rgbBytes :: gcallsV (rgbVal c)) s).1 :=
  rgb_eq_calls s c

/-- …so root fields whose values are colours written with `write_rgb` (3 or 4 components, any
operator, any indent configuration with a blank indent byte) produce `key<sep>rgb {`, the
components on one indented line, `}`, and parse back to exactly `key [op] Header(rgb) Array{end}
r g b [a] End` per field. -/
theorem C15_rgb_parse_back (l : List (SCall × Option Writer.Op × Rgb)) (c : UInt8) (f : Nat)
    (hc : TextTape.isBlank c = true) (hk : ∀ x ∈ l, x.1.Valid)
    (hb : TextTape.hasBom (run (rgbCallsF l) (State.init c f)).1.out = false) :
    ∃ T, TextTape.parse (run (rgbCallsF l) (State.init c f)).1.out = .ok T false ∧
      T.map TextTape.Tok.erase = TextTape.ktapeF (gcontentF (rgbFields l)) 0 := by
  rw [run_rgbCallsF] at hb ⊢
  exact C15_parse_back_containers (rgbFields l) c f hc (rgbFields_opened l) (rgbFields_good l hk) hb

/-- `start=rgb { 10 9 8 }` then `end=rgb { 7 6 5 4 }` (the doc example of `write_rgb`) -/
example : (run (rgbCallsF [(.unq [115], none, ⟨10, 9, 8, none⟩), (.unq [101], none, ⟨7, 6, 5, some 4⟩)])
      (State.init 32 2)).1.out =
    [115, 61, 114, 103, 98, 32, 123, 10, 32, 32, 49, 48, 32, 57, 32, 56, 10, 125, 10,
     101, 61, 114, 103, 98, 32, 123, 10, 32, 32, 55, 32, 54, 32, 53, 32, 52, 10, 125] := by
  decide +kernel

/-- **Mixed mode.**  The call lists
`key, write_array_start, elements…, start_mixed_mode, (key, write_operator, value)…, write_end`
with scalars only (`MixedDoc`) write exactly `key={`, the elements and then the pairs on one indented
line — pairs glued as `a=b`, `c<d`, one space in front of each key —, `}` on its own line, for every
indent byte and factor; and these bytes parse back to exactly what was described (`mixedTape`): the
key, an `Array` flagged mixed, the elements, `MixedContainer`, then key / `Operator` / value for every
pair (`=` is a token of its own in the array part), `End`.  The parse-back half is the text-tape
slice's `C01_faithful_full` applied to the writer's layout, shown to be a valid layout of the full
document type (`FVal.arrSM`, Proofs/WriterMixedParse.lean).

Hypotheses (`MixedDoc.Good`): valid scalars, and the two shapes for which the claim is FALSE on the
real code (examples below; reported as findings):
  * the operator `?=`: in mixed mode `write_operator` glues it to the key, and `?` is no boundary
    byte, so `d?=e` reads back as the key `d?` and `=`;
  * the bare scalar `?` as the key of the first pair directly behind the first element: `{ 1 ?=b }`
    reads back as the object `1 ?= b`.
Containers as elements or values after `start_mixed_mode` are outside `MixedDoc`: a nested object
with an operator is the known finding `C14_known_mixed_nested_operator_breaks`. -/
theorem C15_mixed_parse_back (d : MixedDoc) (c : UInt8) (f : Nat) (hc : TextTape.isBlank c = true)
    (hd : d.Good) (hb : TextTape.hasBom (run d.calls (State.init c f)).1.out = false) :
    (run d.calls (State.init c f)).1.out = d.text c f ∧
    ∃ T, TextTape.parse (run d.calls (State.init c f)).1.out = .ok T false ∧
      T.map TextTape.Tok.erase = mixedTape d := by
  rw [lexemes_mixed d c f] at hb ⊢
  exact ⟨rfl, WriterParse.parse_mixedText c f hc d hd hb⟩

/-- the mixed-container test of writer.rs (`data={ 10 d=e f<g }` here): every hypothesis holds, bytes
and parse-back computed -/
example : TextTape.parse (run (MixedDoc.calls ⟨.unq [100], .unq [49, 48], [],
      [(.unq [100], .eq, .unq [101]), (.unq [102], .lt, .unq [103])]⟩) (State.init 32 2)).1.out =
    .ok [.unquoted ⟨18, [100]⟩, .array 10 true, .unquoted ⟨12, [49, 48]⟩, .mixedContainer, .unquoted ⟨9, [100]⟩,
         .operator .eq, .unquoted ⟨7, [101]⟩, .unquoted ⟨5, [102]⟩, .operator .lt, .unquoted ⟨3, [103]⟩,
         .endTok 1] false := by
  decide +kernel

example : mixedTape ⟨.unq [100], .unq [49, 48], [],
      [(.unq [100], .eq, .unq [101]), (.unq [102], .lt, .unq [103])]⟩ =
    [.unquoted ⟨0, [100]⟩, .array 10 true, .unquoted ⟨0, [49, 48]⟩, .mixedContainer, .unquoted ⟨0, [100]⟩,
     .operator .eq, .unquoted ⟨0, [101]⟩, .unquoted ⟨0, [102]⟩, .operator .lt, .unquoted ⟨0, [103]⟩, .endTok 1] := by
  decide +kernel

/-- the first exclusion is needed: `data, [10, mixed, d ?= e]` writes `data={⏎  10 d?=e⏎}`, which reads
back with the key `d?` and the operator `=` -/
example : (run (MixedDoc.calls ⟨.unq [100], .unq [49, 48], [], [(.unq [100], .exists, .unq [101])]⟩)
      (State.init 32 2)).1.out = [100, 61, 123, 10, 32, 32, 49, 48, 32, 100, 63, 61, 101, 10, 125] ∧
    TextTape.parse [100, 61, 123, 10, 32, 32, 49, 48, 32, 100, 63, 61, 101, 10, 125] =
      .ok [.unquoted ⟨15, [100]⟩, .array 7 true, .unquoted ⟨9, [49, 48]⟩, .mixedContainer, .unquoted ⟨6, [100, 63]⟩,
           .operator .eq, .unquoted ⟨3, [101]⟩, .endTok 1] false := by
  refine ⟨by decide +kernel, by decide +kernel⟩

/-- … and so is the second: `d, [1, mixed, ? = b]` writes `d={⏎  1 ?=b⏎}`, which reads back as the
object `1 ?= b` -/
example : (run (MixedDoc.calls ⟨.unq [100], .unq [49], [], [(.unq [63], .eq, .unq [98])]⟩)
      (State.init 32 2)).1.out = [100, 61, 123, 10, 32, 32, 49, 32, 63, 61, 98, 10, 125] ∧
    TextTape.parse [100, 61, 123, 10, 32, 32, 49, 32, 63, 61, 98, 10, 125] =
      .ok [.unquoted ⟨13, [100]⟩, .object 5 false, .unquoted ⟨7, [49]⟩, .operator .exists_, .unquoted ⟨3, [98]⟩,
           .endTok 1] false := by
  refine ⟨by decide +kernel, by decide +kernel⟩

/-- Floats: the model takes the text `std`'s `Display` printed as a parameter (`Call.fmt`).  For EVERY
text of the shape `Display` produces for a finite `f32` / `f64`, with or without precision —
optional `-`, digits, optionally `.digits`; never an exponent, whatever the magnitude — the token
the writer emits is a well-formed unquoted scalar, the float call behaves exactly like
`write_unquoted` of that text, and as the value of a root field it parses back to exactly that text
as an `Unquoted` token (so every flat / nested / container parse-back theorem covers float values
through `SCall.raw`).  The numeric clause — `to_f64` of that text within 2 ulp — stays with the L3
oracle. -/
theorem C15_float_text_shape (t : Bytes) (h : FloatText t) :
    (⟨false, t⟩ : TextTape.Scal).Valid ∧
    (∀ s, step s (.fmt t) = step s (.unquoted t)) ∧
    (∀ (k : SCall) (c : UInt8) (f : Nat), k.Valid →
      TextTape.hasBom (run [k.call, .fmt t] (State.init c f)).1.out = false →
      ∃ T, TextTape.parse (run [k.call, .fmt t] (State.init c f)).1.out = .ok T false ∧
        T.map TextTape.Tok.erase = [(k.scal.tok []).erase, .unquoted ⟨0, t⟩]) := by
  refine ⟨floatText_valid t h, fun _ => rfl, ?_⟩
  intro k c f hk hb
  have hrun : run [k.call, .fmt t] (State.init c f) = run (fcalls [⟨k, none, .raw ⟨false, t⟩⟩]) (State.init c f) := rfl
  rw [hrun] at hb ⊢
  obtain ⟨T, hp, he⟩ := C15_parse_back_flat [⟨k, none, .raw ⟨false, t⟩⟩] c f
    (by intro x hx; simp at hx; subst hx; exact ⟨hk, floatText_valid t h⟩) hb
  exact ⟨T, hp, by rw [he]; rfl⟩

/-- `-0.30000000000000004` has the shape -/
example : FloatText [45, 48, 46, 51, 48, 48, 48, 48, 48, 48, 48, 48, 48, 48, 48, 48, 48, 48, 48, 48, 52] :=
  ⟨true, [48], [46, 51, 48, 48, 48, 48, 48, 48, 48, 48, 48, 48, 48, 48, 48, 48, 48, 48, 52], rfl, by simp, by decide,
    .inr ⟨_, rfl, by simp, by decide⟩⟩

/-- **Parse-back over the text-tape slice's FULL document type.**  `dcallsF d` (Spec/WriterFull.lean) is
the call list that writes the document `d : FFields`: `write_object_start` / `write_array_start`,
`write_unquoted` of every scalar's text (every scalar call — quoted, boolean, integer, date, float —
acts like that, `step_scall`), `write_header`, `write_operator`, `start_mixed_mode` where the array turns
into a key-value list, `write_end`.  For every valid `d` (any layout `gt` of it: only the scalars'
validity matters) that is `FPlainF` and `CallsOKF`, every blank indent byte and factor, the written
bytes parse, and the tape is `d`'s content (`dtapeF d`: keys, operators, scalars, `Header`,
`MixedContainer`, container kinds, mixed flags, `End` links).  This covers everything
`C15_parse_back_containers` covers and the mixed-mode call lists with CONTAINERS: container elements in
front of `start_mixed_mode`, containers as values of `key op value` groups and as elements of the array
part, nested to any depth (mixed arrays inside them included).

The proof is the bridge `run (dcallsF d) = semF d` (Proofs/WriterFullCalls.lean: the calls do to the writer
exactly what `write_tape` does on `d`'s tape) followed by the chain of `C14_roundtrip_full`.

`CallsOKF`: no parameter blocks (there is no call for them), and no operator behind a container in the
same array part.  The latter FAILS on the real code (known finding `mixed-mode-lost-after-container`,
`C15_known_mixed_mode_lost_after_container`; `wcalls … as 1 mm b = c as x e d = e f g e`): the
container's `write_end` switches the mixed mode off, the next `write_operator` takes its object branch
and turns the writer to object mode, and the bare elements `f g` come out as `f=g`. -/
theorem C15_parse_back_full (d : TextTape.FFields) (gt : Bytes) (c : UInt8) (f : Nat)
    (hc : TextTape.isBlank c = true) (hv : TextTape.FValidF d gt) (hplain : FPlainF false d) (hcalls : CallsOKF d)
    (hb : TextTape.hasBom (run (dcallsF d) (State.init c f)).1.out = false) :
    ∃ T, TextTape.parse (run (dcallsF d) (State.init c f)).1.out = .ok T false ∧
      T.map TextTape.Tok.erase = TextTape.dtapeF d 0 :=
  parse_back_full c f hc d gt hv hplain hcalls hb

/-- the hypotheses are satisfiable: `d={ 10 d=e }` as a document of the full type -/
example : ∃ T, TextTape.parse (run (dcallsF (WriterParse.mixedLay 32 2
      ⟨.unq [100], .unq [49, 48], [], [(.unq [100], .eq, .unq [101])]⟩)) (State.init 9 1)).1.out = .ok T false ∧
    T.map TextTape.Tok.erase = TextTape.dtapeF (WriterParse.mixedLay 32 2
      ⟨.unq [100], .unq [49, 48], [], [(.unq [100], .eq, .unq [101])]⟩) 0 := by
  have u : ∀ b : Bytes, (∀ x ∈ b, safeByte x = true) → b ≠ [] → (SCall.unq b).ValidX :=
    fun b h hne => Or.inl (valid_of_safe b hne h)
  have hgood : MixedDoc.Good ⟨.unq [100], .unq [49, 48], [], [(.unq [100], .eq, .unq [101])]⟩ := by
    refine ⟨u _ (by decide +kernel) (by simp), u _ (by decide +kernel) (by simp), by simp, ?_, by simp [SCall.scal, TextTape.Scal.text]⟩
    intro p hp
    simp at hp
    subst hp
    exact ⟨u _ (by decide +kernel) (by simp), by simp, u _ (by decide +kernel) (by simp)⟩
  refine C15_parse_back_full _ [] 9 1 (by decide +kernel) (WriterParse.valid_mixedLay 32 2 (by decide +kernel) _ hgood)
    ?_ ?_ (by decide +kernel)
  · simp [WriterParse.mixedLay, WriterParse.elemVals, WriterParse.pairItems, FPlainF, FPlainV, FPlainVs, FPlainI,
      bareQuestion, gluesOp, closesV, SCall.scal, TextTape.Scal.text]
  · simp [WriterParse.mixedLay, WriterParse.elemVals, WriterParse.pairItems, CallsOKF, CallsOKV, CallsOKVs, CallsOKI]

/-- `a={ b=rgb{ 1 } c={ x=y } } e={ 1 f=g {h=i} z }` (header as first field, nested object, an array that turns
mixed with an object in its array part): `FValidF`, `FPlainF`, `CallsOKF` are PROVED (Proofs/WriterExamples.lean)
and the theorem applies to its call list -/
example : ∃ T, TextTape.parse (run (dcallsF WriterExamples.dMixed) (State.init 32 2)).1.out = .ok T false ∧
    T.map TextTape.Tok.erase = TextTape.dtapeF WriterExamples.dMixed 0 :=
  C15_parse_back_full WriterExamples.dMixed [10] 32 2 (by decide +kernel) WriterExamples.dMixed_valid
    WriterExamples.dMixed_plain WriterExamples.dMixed_calls (by decide +kernel)

/-- **Mixed-mode call lists with containers** (`C15_mixed_parse_back` beyond scalars): the instance of
`C15_parse_back_full` for one root field whose value is an array that turns mixed —
`key, write_array_start, elements…, start_mixed_mode, key, operator, (values | key operator value |
containers)…, write_end`, where elements, values and members of the array part may be containers written
through their own call lists, to any depth. -/
theorem C15_mixed_parse_back_containers (key : TextTape.Scal) (v : TextTape.FVal) (gt : Bytes) (c : UInt8) (f : Nat)
    (hc : TextTape.isBlank c = true) (hv : TextTape.FValidF (.cons [] key [] .eq v .nil) gt)
    (hplain : FPlainV false v) (hcalls : CallsOKV v)
    (hb : TextTape.hasBom (run (.unquoted key.text :: dcallsV v) (State.init c f)).1.out = false) :
    ∃ T, TextTape.parse (run (.unquoted key.text :: dcallsV v) (State.init c f)).1.out = .ok T false ∧
      T.map TextTape.Tok.erase = TextTape.dtapeF (.cons [] key [] .eq v .nil) 0 := by
  have hcalls' : dcallsF (.cons [] key [] .eq v .nil) = .unquoted key.text :: dcallsV v := by
    simp [dcallsF, opCallsT]
  rw [← hcalls'] at hb ⊢
  exact C15_parse_back_full _ gt c f hc hv (by simp [FPlainF, hplain]) (by simp [CallsOKF, hcalls]) hb

/-- `a={ 1 c<d b={ x=y } { z } e }` written through calls — `a, [, 1, mixed, c, <, d, b, =, {x y}, [z], e, ]`:
a container as the value of a pair and a container as an element of the array part.  Bytes, parse-back and
the described content, computed -/
example :
    let d : TextTape.FFields := .cons [] ⟨false, [97]⟩ [] .eq
      (.arrSM [] [] ⟨false, [49]⟩ .nil [32] ⟨false, [99]⟩ [] .lt
        (.scal [] ⟨false, [100]⟩ (.scal [32] ⟨false, [98]⟩ (.op [] .eq
          (.cont (.obj [] [] (.kv ⟨false, [120]⟩ [] .eq (.scal [] ⟨false, [121]⟩)) .nil [])
            (.cont (.arrS [32] [] ⟨false, [122]⟩ .nil []) (.scal [32] ⟨false, [101]⟩ .nil)))))) []) .nil;
    (match TextTape.parse (run (dcallsF d) (State.init 32 2)).1.out with
     | .ok T false => decide (T.map TextTape.Tok.erase = TextTape.dtapeF d 0 ∧ T.length = 18)
     | _ => false) = true := by
  decide +kernel

/-- Known finding `mixed-mode-lost-after-container`, on the models.  The writer has ONE `mixed_mode` flag;
the `write_end` of a container nested in the array part clears it.  The call list
`a, [, 1, mixed, b = c, [ x ], d = e, f, g, ]` describes the array part `b=c {x} d=e f g`; behind the nested
container `write_operator` takes its object branch and turns the writer to object mode, so the bare
elements `f`, `g` are written `f=g` and read back as `f`, `Operator(=)`, `g`.  Root cause: the flag would
have to be kept per depth (a mixed-mode stack restored by `write_end`).
Formally against the positive theorem: the calls are `dcallsF` of the document `WriterExamples.kModeLost`
(`a={ 1 b=c { x } d=e f g }`, 3rd conjunct), the tape of the written bytes is NOT `dtapeF kModeLost` — the
conclusion `C15_parse_back_full` would give — (4th), and `kModeLost` is not `CallsOKF` (5th): the witness sits
exactly in the excluded set and the exclusion is needed. -/
theorem C15_known_mixed_mode_lost_after_container :
    (run [.unquoted [97], .arrayStart, .unquoted [49], .mixedMode, .unquoted [98], .operator .eq, .unquoted [99],
        .arrayStart, .unquoted [120], .end, .unquoted [100], .operator .eq, .unquoted [101],
        .unquoted [102], .unquoted [103], .end] (State.init 32 2)).1.out =
      [97, 61, 123, 10, 32, 32, 49, 32, 98, 61, 99, 32, 123, 10, 32, 32, 32, 32, 120, 10, 32, 32, 125, 10,
       32, 32, 100, 61, 101, 10, 32, 32, 102, 61, 103, 10, 125] ∧
    TextTape.parse [97, 61, 123, 10, 32, 32, 49, 32, 98, 61, 99, 32, 123, 10, 32, 32, 32, 32, 120, 10, 32, 32, 125, 10,
       32, 32, 100, 61, 101, 10, 32, 32, 102, 61, 103, 10, 125] =
      .ok [.unquoted ⟨37, [97]⟩, .array 16 true, .unquoted ⟨31, [49]⟩, .mixedContainer, .unquoted ⟨29, [98]⟩,
           .operator .eq, .unquoted ⟨27, [99]⟩, .array 9 false, .unquoted ⟨19, [120]⟩, .endTok 7,
           .unquoted ⟨11, [100]⟩, .operator .eq, .unquoted ⟨9, [101]⟩,
           .unquoted ⟨5, [102]⟩, .operator .eq, .unquoted ⟨3, [103]⟩, .endTok 1] false ∧
    -- the calls are the call list of the document `kModeLost` …
    dcallsF WriterExamples.kModeLost =
      [.unquoted [97], .arrayStart, .unquoted [49], .mixedMode, .unquoted [98], .operator .eq, .unquoted [99],
        .arrayStart, .unquoted [120], .end, .unquoted [100], .operator .eq, .unquoted [101],
        .unquoted [102], .unquoted [103], .end] ∧
    -- … whose content is NOT what the written bytes parse to (the conclusion `C15_parse_back_full` would give) …
    (∀ T, TextTape.parse (run (dcallsF WriterExamples.kModeLost) (State.init 32 2)).1.out = .ok T false →
      T.map TextTape.Tok.erase ≠ TextTape.dtapeF WriterExamples.kModeLost 0) ∧
    -- … and which is outside `CallsOKF`: exactly the excluded set
    ¬ CallsOKF WriterExamples.kModeLost := by
  refine ⟨by decide +kernel, by decide +kernel, by decide +kernel, ?_, WriterExamples.kModeLost_not_callsOK⟩
  intro T hT
  have hp : TextTape.parse (run (dcallsF WriterExamples.kModeLost) (State.init 32 2)).1.out =
      .ok [.unquoted ⟨37, [97]⟩, .array 16 true, .unquoted ⟨31, [49]⟩, .mixedContainer, .unquoted ⟨29, [98]⟩,
           .operator .eq, .unquoted ⟨27, [99]⟩, .array 9 false, .unquoted ⟨19, [120]⟩, .endTok 7,
           .unquoted ⟨11, [100]⟩, .operator .eq, .unquoted ⟨9, [101]⟩,
           .unquoted ⟨5, [102]⟩, .operator .eq, .unquoted ⟨3, [103]⟩, .endTok 1] false := by decide +kernel
  rw [hp] at hT
  cases hT
  decide +kernel

/-- … without the group `d = e` behind the container the same elements come out as elements -/
example : (run [.unquoted [97], .arrayStart, .unquoted [49], .mixedMode, .unquoted [98], .operator .eq, .unquoted [99],
      .arrayStart, .unquoted [120], .end, .unquoted [102], .unquoted [103], .end] (State.init 32 2)).1.out =
    [97, 61, 123, 10, 32, 32, 49, 32, 98, 61, 99, 32, 123, 10, 32, 32, 32, 32, 120, 10, 32, 32, 125, 10,
     32, 32, 102, 32, 103, 10, 125] := by
  decide +kernel

/-- Known finding `operator-under-stale-mixed-mode` (the call-list twin of C14's
`roundtrip-mixed-nested-operator`), on the models.  `a, [, 1, mixed, b =, { c > d }, ]`: the object is opened
while the mixed mode of the enclosing array is on, and `write_end` is what clears the flag, so
`write_operator(>)` inside the object takes the mixed branch: it writes `>` bare and leaves the machine waiting
for `=`, the value's preamble adds it — `c>=d`, read back as `c`, `Operator(>=)`, `d`.  Same root cause: one
flag instead of a per-depth stack.
Formally against the positive theorem: the calls are `dcallsF` of `WriterExamples.kStaleOperator`
(`a={ 1 b={ c>d } }`, 3rd conjunct), the tape of the written bytes is NOT `dtapeF kStaleOperator` (4th), and the
hypothesis of `C15_parse_back_full` that fails is `FPlainF` (5th: the window conjunct `w = true → o = .eq`, the same
one as in `C14_known_mixed_nested_operator_breaks`); the document IS `CallsOKF` (6th), so `FPlainF` is what
excludes it. -/
theorem C15_known_operator_under_stale_mixed_mode :
    (run [.unquoted [97], .arrayStart, .unquoted [49], .mixedMode, .unquoted [98], .operator .eq,
        .objectStart, .unquoted [99], .operator .gt, .unquoted [100], .end, .end] (State.init 32 2)).1.out =
      [97, 61, 123, 10, 32, 32, 49, 32, 98, 61, 123, 10, 32, 32, 32, 32, 99, 62, 61, 100, 10, 32, 32, 125, 10, 125] ∧
    TextTape.parse [97, 61, 123, 10, 32, 32, 49, 32, 98, 61, 123, 10, 32, 32, 32, 32, 99, 62, 61, 100, 10, 32, 32, 125,
        10, 125] =
      .ok [.unquoted ⟨26, [97]⟩, .array 11 true, .unquoted ⟨20, [49]⟩, .mixedContainer, .unquoted ⟨18, [98]⟩,
           .operator .eq, .object 10 false, .unquoted ⟨10, [99]⟩, .operator .ge, .unquoted ⟨7, [100]⟩, .endTok 6,
           .endTok 1] false ∧
    -- the calls are the call list of the document `kStaleOperator` …
    dcallsF WriterExamples.kStaleOperator =
      [.unquoted [97], .arrayStart, .unquoted [49], .mixedMode, .unquoted [98], .operator .eq,
        .objectStart, .unquoted [99], .operator .gt, .unquoted [100], .end, .end] ∧
    -- … whose content is NOT what the written bytes parse to …
    (∀ T, TextTape.parse (run (dcallsF WriterExamples.kStaleOperator) (State.init 32 2)).1.out = .ok T false →
      T.map TextTape.Tok.erase ≠ TextTape.dtapeF WriterExamples.kStaleOperator 0) ∧
    -- … and which is outside `FPlainF` (the hypothesis of `C15_parse_back_full` that fails here; it IS `CallsOKF`)
    ¬ FPlainF false WriterExamples.kStaleOperator ∧ CallsOKF WriterExamples.kStaleOperator := by
  refine ⟨by decide +kernel, by decide +kernel, by decide +kernel, ?_, WriterExamples.kStaleOperator_not_plain, ?_⟩
  · intro T hT
    have hp : TextTape.parse (run (dcallsF WriterExamples.kStaleOperator) (State.init 32 2)).1.out =
        .ok [.unquoted ⟨26, [97]⟩, .array 11 true, .unquoted ⟨20, [49]⟩, .mixedContainer, .unquoted ⟨18, [98]⟩,
             .operator .eq, .object 10 false, .unquoted ⟨10, [99]⟩, .operator .ge, .unquoted ⟨7, [100]⟩, .endTok 6,
             .endTok 1] false := by decide +kernel
    rw [hp] at hT
    cases hT
    decide +kernel
  · simp [WriterExamples.kStaleOperator, CallsOKF, CallsOKV, CallsOKFirst, CallsOKVs, CallsOKI]

/-- … outside an array part the same object is written `c > d` -/
example : (run [.unquoted [98], .objectStart, .unquoted [99], .operator .gt, .unquoted [100], .end]
      (State.init 32 2)).1.out = [98, 61, 123, 10, 32, 32, 99, 32, 62, 32, 100, 10, 125] := by
  decide +kernel

/-- **I/O errors** ("misordered calls … return an error or well-defined output, never a panic",
extended to a failing sink).  `runSink cap` (Model/WriterSink.lean) runs the call list on a writer
whose sink accepts the first `cap` bytes and then refuses every non-empty write — every call
mirrored statement by statement, the `?` after each write leaving the call with what was assigned to
`self` before.  For EVERY call list (well-formed or not), every `cap`, indent byte and factor,
compared with the same calls on an unlimited sink (`run`):

  * the bytes that reached the sink are exactly the first `min cap len` bytes of the full output;
  * some call returns `Err(io)` exactly when the full output is longer than `cap`;
  * no call panics, before or after the failure, whatever state the failed call left behind;
  * when the output fits, the two runs are identical (final writer, every observation, every
    `StackEmpty`);
  * otherwise there is a first failing call `k`: the writer and every observation / result before it
    (`depth()`, `expecting_key()`, `at_array_value()`, `at_unknown_start()`, the whole private state)
    are those of the unlimited run, and call `k` returns `Err(io)`.

The model is tied to the real writer by the correspondence op `wcallsw` (bytes in the sink, result
and observations of every call — also after the failure —, private state at the end). -/
theorem C15_failing_sink (cs : List Call) (cap : Nat) (c : UInt8) (f : Nat) :
    (runSink cap cs (State.init c f)).1.out = (run cs (State.init c f)).1.out.take cap ∧
    ((∃ x ∈ (runSink cap cs (State.init c f)).2, x = .error .io) ↔ cap < (run cs (State.init c f)).1.out.length) ∧
    (∀ x ∈ (runSink cap cs (State.init c f)).2, x ≠ .error .panic ∧ x ≠ .error .fuel) ∧
    ((run cs (State.init c f)).1.out.length ≤ cap → runSink cap cs (State.init c f) = run cs (State.init c f)) ∧
    (cap < (run cs (State.init c f)).1.out.length → ∃ k, k < cs.length ∧
      runSink cap (cs.take k) (State.init c f) = run (cs.take k) (State.init c f) ∧
      (runSink cap cs (State.init c f)).2.take k = (run cs (State.init c f)).2.take k ∧
      (∀ x ∈ (runSink cap cs (State.init c f)).2.take k, x ≠ .error .io) ∧
      (runSink cap cs (State.init c f)).2[k]? = some (.error .io)) := by
  obtain ⟨h1, h2, h3, h4⟩ := sink_run cap cs (State.init c f) (by simp [State.init])
  refine ⟨h1, ⟨fun ⟨x, hx, hio⟩ => ?_, fun hl => ?_⟩, h2, h3, fun hl => ?_⟩
  · by_cases hl : cap < (run cs (State.init c f)).1.out.length
    · exact hl
    · rw [h3 (by omega)] at hx
      exact absurd hio (run_rows_clean cs _ x hx).1
  · obtain ⟨k, _, _, _, hk⟩ := h4 hl
    exact ⟨_, List.mem_of_getElem? hk, rfl⟩
  · obtain ⟨k, hk, e1, e2, e3⟩ := h4 hl
    refine ⟨k, hk, e1, e2, fun x hx => ?_, e3⟩
    rw [e2] at hx
    exact (run_rows_clean cs _ x (List.mem_of_mem_take hx)).1

/-- `a={⏎  b⏎}` needs 9 bytes; with room for 6 the sink holds `a={⏎  `, `write_unquoted(b)` is the first
call that fails, `write_end` fails too, and the failed calls have left the newline flag cleared -/
example : (runSink 6 [.unquoted [97], .arrayStart, .unquoted [98], .end] (State.init 32 2)).1.out =
      [97, 61, 123, 10, 32, 32] ∧
    (runSink 6 [.unquoted [97], .arrayStart, .unquoted [98], .end] (State.init 32 2)).2.map
        (fun r => match r with | .ok o => some (some o.depth) | .error .io => some none | .error _ => none) =
      [some (some 0), some (some 1), some none, some none] ∧
    (run [.unquoted [97], .arrayStart, .unquoted [98], .end] (State.init 32 2)).1.out =
      [97, 61, 123, 10, 32, 32, 98, 10, 125] := by
  decide +kernel

/-
Status of the growth theorem `C15_lexemes` / "the output parses to exactly the described structure" (first stated
in round 1 over an abstract `WellFormedCalls` / `lexemesOf`): it is PROVED end to end through the text-tape parser
model for the call lists of the general container fragment with every start flavour and every scalar call
(`C15_parse_back_containers`, bytes `C15_lexemes_containers`) and for the call list of every valid document of the
text-tape slice's full document type (`C15_parse_back_full`: headers, arrays that turn mixed with containers, any
nesting), with `write_binary` forwarding, `write_rgb` and float texts reducing to these.  Outside, each witnessed
on the real code: the two recorded findings of the single `mixed_mode` flag (`C15_known_*`, oracle kinds
`mixed-mode-lost-after-container`, `operator-under-stale-mixed-mode`), `?=` / the bare key `?` in mixed mode
(counted `not-wf:mixed-*(reported)`), and the shapes the format cannot express (first element of an array an empty
container, header with empty body, header / scalar directly followed by a container inside an array; a container
in the array part that does not start with a scalar — parser quirk).  The harness re-parses the output of every
well-formed call list with `TextTape::from_slice` and compares it with an independent transcription of the
described document (oracle kinds `wf-parse-back`, `wf-output-does-not-parse`, `wf-state`).
-/

end Jomini.Props.C15
