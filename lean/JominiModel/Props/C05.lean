import JominiModel.Proofs.TextDeParsed
import JominiModel.Proofs.BinTapeTotal
import JominiModel.Proofs.BinReader
import JominiModel.Proofs.BinLexerTotal
import JominiModel.Proofs.TextTapeTotal
import JominiModel.Props.C12
import JominiModel.Props.C17
import JominiModel.Props.C13
import JominiModel.Props.C15
import JominiModel.Props.C16
import JominiModel.Proofs.TextReaderTotal
import JominiModel.Proofs.BinDeTotal
import JominiModel.Proofs.TextDeTotal
import JominiModel.Proofs.TextTapeDomWf
import JominiModel.Proofs.TextTapeJsonWf
import JominiModel.Proofs.BinTapeDeWf
/-
C05 — No input can crash, hang or escape memory bounds in any entry point.

A theorem cannot exhibit a segfault; what IS logic is that the guards which make every
`unsafe`, index, `unwrap` and `unreachable!` site safe hold for every input, and that every loop
makes progress.  The models turn each such site into an explicit `panic` / `ub` outcome and each
loop into structural recursion or fuel (DESIGN.md §5), so "the outcome is never panic/ub/fuel" is
the statement.  This file collects those statements, entry point by entry point; the obligations
of C05 are the theorems below plus every `C05_…` theorem of the files named in
`tools/meta/C05.json` (`theorem_files`).  The runtime part of the property (real stack depth,
allocator, actual memory effects of `unsafe`) is explored by harness/src/props/c05.rs.
-/
namespace Jomini.Props.C05
open Jomini

/-- Binary tape parser (`BinaryTape::from_slice`, optimised and reference): for EVERY byte string
no `get_unchecked` / `unwrap_unchecked` / `unreachable_unchecked` / `transmute` / `mixed_insert`
guard fails, and the main loop terminates within `|data| + 1` iterations. -/
theorem C05_bintape_total (opt : Bool) (data : Bytes) :
    BinTape.parse opt data ≠ .error .ub ∧ BinTape.parse opt data ≠ .error .panic ∧
    BinTape.parse opt data ≠ .error .fuel :=
  ⟨(BinTape.C05_bintape_no_ub_panic opt data).1, (BinTape.C05_bintape_no_ub_panic opt data).2,
   (BinTape.C05_bintape_fuel_enough opt data).1⟩

example : BinTape.parse true [0x2d, 0x28, 1, 0, 3, 0, 4, 0] ≠ .error .ub := (C05_bintape_total true _).1

/-- Text tape parser (`TextTape::from_slice`): for EVERY byte string the model returns a tape or
an error -- none of the `len() - 1`, `len() - 2`, `offset - 1`, `tape[i] =`, `insert(len - 1)`,
`split_at`, `&d[1..]`, `data[0]` sites is reached with its guard violated, and the fuel `2|d|+4`
(at most one non-consuming iteration in a row) is enough. -/
theorem C05_texttape_total (input : Bytes) :
    (∃ T b, TextTape.parse input = .ok T b) ∨ (∃ e, TextTape.parse input = .err e) :=
  TextTape.parse_total input

/-- Streaming binary reader over the buffer window: for every input, every read schedule (short
reads, transient and persistent faults) and every buffer that can hold the largest token, no call
of `next` runs the window pointers out of the buffer (`ub`), spuriously reports `BufferFull`, or
fails to terminate, and the reported position never exceeds the bytes delivered. -/
theorem C05_bin_reader_total (buffer data : Bytes) (sched : List Step) (hcap : 0 < buffer.length)
    (hwf : Src.WfSched sched) (hfit : BinReader.Fits buffer.length data) (n : Nat) :
    (BinReader.Call.err .ub ∉ (BinReader.Reader.calls n (BinReader.Reader.build buffer (Src.new data sched))).1 ∧
     BinReader.Call.err .fuel ∉ (BinReader.Reader.calls n (BinReader.Reader.build buffer (Src.new data sched))).1) ∧
    (BinReader.Reader.calls n (BinReader.Reader.build buffer (Src.new data sched))).2.position ≤
      (BinReader.Reader.calls n (BinReader.Reader.build buffer (Src.new data sched))).2.src.delivered := by
  obtain ⟨_, _, _, ⟨_, h2, h3⟩, h4, _⟩ := BinReader.C20_bin_reader buffer data sched hcap hwf hfit n
  exact ⟨⟨h2, h3⟩, h4⟩

/-- String decoders (`Windows1252Encoding::decode`, `Utf8Encoding::decode`): for every byte string
both return a value (the table index and the `from_utf8_unchecked` precondition never fail). -/
theorem C05_decoders_total (d : Bytes) :
    (∃ c, Encoding.decodeWindows1252 d = .ok c) ∧ (∃ c, Encoding.decodeUtf8 d = .ok c) := by
  obtain ⟨c1, h1, _⟩ := C12.C12_win1252 d
  obtain ⟨c2, h2, _⟩ := C12.C12_utf8 d
  exact ⟨⟨c1, h1⟩, ⟨c2, h2⟩⟩

/-- DOM readers over any structurally sound tape (what C06 guarantees for every parsed tape):
`read_object`, `read_array`, `tokens_len`, `fields`, `fields_len`, `field_groups` never index
outside the tape. -/
theorem C05_dom_total (t : Dom.Tape) (hw : Dom.wfTape t = true) :
    (∀ vi, vi < t.size → (∃ r, Dom.readObject t vi = .ok r) ∧ (∃ r, Dom.readArray t vi = .ok r) ∧
      (∃ n, Dom.valueTokensLen t vi = .ok n)) ∧
    (∀ s e, Dom.WfObj t s e → s ≤ e →
      ∃ fs q n gs, Dom.fields t s e = .ok (fs, q) ∧ Dom.fieldsLen t s e = .ok n ∧
        Dom.fieldGroups t s e = .ok gs) := by
  obtain ⟨h1, h2⟩ := C17.C17_no_panic t hw
  refine ⟨h1, fun s e hwo hse => ?_⟩
  obtain ⟨fs, q, n, gs, a, b, c, _⟩ := h2 s e hwo hse
  exact ⟨fs, q, n, gs, a, b, c⟩

/-- Text writer: for ARBITRARY (also ill-formed) call lists every call returns a value or the
`StackEmpty` error; the transition-table index, the `unwrap`s and `unreachable!`s never fail. -/
theorem C05_writer_total : type_of% @C15.C15_total_run := @C15.C15_total_run

/-- JSON conversion: on every structurally sound tape all three entry points return, for all
option combinations and both encodings (no `unwrap` / index / debug assertion fails, no loop
runs away). -/
theorem C05_json_total : type_of% @C16.C16_total_all := @C16.C16_total_all

/-- Date parsers: none of `Date::parse`, `DateHour::parse`, `UniformDate::parse`,
`RawDate::parse` panics on any byte string; `from_binary` never panics or overflows on any
integer (`month_day_from_julian`'s `unreachable!` is unreachable). -/
theorem C05_date_parse_total : type_of% @C13.C13_no_panic_parse := @C13.C13_no_panic_parse

theorem C05_date_from_binary_total : type_of% @C13.C13_no_overflow_from_binary := @C13.C13_no_overflow_from_binary

/-- UNCONDITIONAL form for the whole text chain `bytes → tape → DOM readers / JSON`: for EVERY
byte string the text tape parser model accepts, the DOM readers over the resulting tape never
index outside it and JSON conversion returns for every option combination, encoding and entry
point — the structural hypothesis of `C05_dom_total` / `C05_json_total` is discharged by the
parser invariants `C17_parsed_tape_wf` and `C16_parsed_tape_wf` (no runtime-checked hypothesis
is left on this path). -/
theorem C05_text_chain_total (input : Bytes) (T : List TextTape.Tok) (b : Bool)
    (h : TextTape.parse input = .ok T b) :
    (∀ vi, vi < (TextTape.toDomTape T).size →
        (∃ r, Dom.readObject (TextTape.toDomTape T) vi = .ok r) ∧
        (∃ r, Dom.readArray (TextTape.toDomTape T) vi = .ok r)) ∧
    (∀ (o : Json.Opts) (enc : Json.Enc) (entry : Json.Entry),
        ∃ r, Json.toJson o enc entry (TextTape.toJsonTape T) = .ok r) := by
  have hd := TextTape.C17_parsed_tape_wf input T b h
  have hj := TextTape.C16_parsed_tape_wf input T b h
  refine ⟨fun vi hvi => ?_, fun o enc entry => C16.C16_total_all _ hj o enc entry⟩
  obtain ⟨h1, _⟩ := C05_dom_total _ hd
  obtain ⟨a, b', _⟩ := h1 vi hvi
  exact ⟨a, b'⟩

end Jomini.Props.C05
