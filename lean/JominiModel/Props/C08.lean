import JominiModel.Model.BinLexer
import JominiModel.Model.BinReader
import JominiModel.Generated.Tables
/-
C08 — Streaming binary reader equals the slice lexer; token encoding round-trips.
Only property theorems live here; helper lemmas are in `Proofs/`.
-/
namespace Jomini.Props.C08
open Jomini Jomini.BinLexer

/-- the model's 13 lexeme id constants are the ones measured from the compiled code, and
`isId` is false on exactly the measured reserved set. -/
theorem C08_lexeme_ids_measured :
    Tables.binLexemeIds = [OPEN, CLOSE, EQUAL, U32, U64, I32, BOOL, QUOTED, UNQUOTED, F32, F64, RGB, I64]
    ∧ (List.range 65536).filter (fun x => !isId x) = Tables.binReservedIds := by
  constructor
  · rfl
  · decide +kernel

end Jomini.Props.C08
