import JominiModel.Model.BinLexer
import JominiModel.Model.BinReader
import JominiModel.Spec.BinLexer
import JominiModel.Proofs.BinLexer
import JominiModel.Proofs.Buffer
import JominiModel.Spec.BinReader
import JominiModel.Proofs.BinReader
import JominiModel.Generated.Tables
/-
C08 — Streaming binary reader equals the slice lexer; token encoding round-trips.
Only property theorems live here; helper lemmas are in `Proofs/`.
-/
namespace Jomini.Props.C08
open Jomini Jomini.BinLexer Jomini.BinReader

/-- the model's 13 lexeme id constants are the ones measured from the compiled code, and
`isId` is false on exactly the measured reserved set (`LexemeId::is_id` probed on all 65536
values). -/
theorem C08_lexeme_ids_measured :
    Tables.binLexemeIds = [OPEN, CLOSE, EQUAL, U32, U64, I32, BOOL, QUOTED, UNQUOTED, F32, F64, RGB, I64]
    ∧ (∀ x : Nat, isId x = false ↔ x ∈ Tables.binReservedIds) := by
  constructor
  · rfl
  · intro x
    simp only [isId, Tables.binReservedIds, OPEN, CLOSE, EQUAL, U32, U64, I32, BOOL, QUOTED, UNQUOTED,
      F32, F64, RGB, I64, Bool.not_eq_eq_eq_not, Bool.not_false, Bool.or_eq_true, beq_iff_eq,
      List.mem_cons, List.not_mem_nil, or_false]
    constructor <;> (intro h; omega)

/-- Token codec round trip: reading what `Token::write` wrote gives the token back and leaves
exactly the bytes that followed; for a whole sequence the lexer returns the sequence, ends
cleanly and consumes every byte.  `WfTok` excludes `Id x` for the 13 reserved ids and strings
longer than 65535 bytes (both exclusions are real: see the harness counter
`write:excluded-differs`). -/
theorem C08_codec :
    (∀ (t : Token) (r : Bytes), WfTok t → readToken (t.write ++ r) = .ok (t, r)) ∧
    (∀ toks : List Token, (∀ t ∈ toks, WfTok t) →
      lexAll (toks.flatMap Token.write) = (toks, .done, [])) :=
  ⟨fun t r h => readToken_write t r h, lexAll_write⟩

example : WfTok (.quoted [3, 0, 4, 0]) ∧ WfTok (.id 0x2838) ∧ WfTok (.rgb ⟨1, 2, 3, some 4⟩) ∧ WfTok (.i64 (-1)) := by
  decide

/-- the two exclusions of `WfTok` are not artefacts of the proof: a reserved id re-lexes as
its lexeme, and a 65536-byte string's length prefix wraps to 0. -/
theorem C08_codec_exclusions :
    readToken ((Token.id OPEN).write) = .ok (.open, []) ∧
    (∀ s : Bytes, s.length = 65536 →
      readToken ((Token.quoted s).write) = .ok (.quoted [], s)) := by
  constructor
  · rfl
  · intro s hs
    have h0 : leBytes 2 s.length = [0, 0] := by rw [hs]; decide
    simp only [Token.write, h0]
    simp [readToken, P.bind, P.map, readId_le, readString, getSplit, leNat,
      CLOSE, OPEN, EQUAL, U32, U64, I32, BOOL, QUOTED]

/-- `read_token` is prefix stable: a verdict `ok` (with the same token, the unread rest
extended) or `invalidRgb` reached on a window is the verdict on every extension of the
window.  Consequently `eof` is the only verdict more input can change. -/
theorem C08_prefix_stable (w s : Bytes) :
    (∀ t r, readToken w = .ok (t, r) → readToken (w ++ s) = .ok (t, r ++ s)) ∧
    (readToken w = .error .invalidRgb → readToken (w ++ s) = .error .invalidRgb) :=
  ⟨fun t r h => readToken_stable.ok w s t r h, fun h => readToken_stable.rgb w s h⟩

example : readToken [0x0c, 0, 1, 0, 0, 0] = .ok (.i32 1, []) := by rfl
example : readToken [0x43, 2, 4, 0, 0, 0, 0, 0, 0, 0, 0, 0, 0, 0, 0, 0, 0, 0, 0, 0, 0, 0, 0, 0, 0, 0] = .error .invalidRgb := by
  rfl

/-- `next_token` / `peek_token` / `position` of the `Lexer` object agree with `read_token` on
the bare byte list: the `next_token` loop is `lexAll` with `position() = bytes consumed`, and
`peek_token` is `read_token` without the state change. -/
theorem C08_lexer_api (d : Bytes) :
    Lexer.run d = ((lexAll d).1, (lexAll d).2.1, d.length - (lexAll d).2.2.length) ∧
    (∀ (l : Lexer) (t : Token), l.peekToken = some t ↔ ∃ r, readToken l.data = .ok (t, r)) :=
  ⟨Lexer.run_eq d, Lexer.peekToken_eq⟩

/-- `Buffer_refines`: the concrete `BufferWindow` (memory of `cap` bytes, `start`, `end`,
`prior_reads`) refines the abstract view "position, window contents, undelivered bytes".
The invariant `Buf.Inv` = `start ≤ end ≤ |mem|` (`|mem| = cap` in builder mode) and
`window ++ undelivered = data.drop position` is preserved by `fill_buf` in each of its
outcomes — slice mode `Ok(0)`, `BufferFull`, a successful read (which appends exactly the
delivered bytes to the window), and a *failed* read (window contents, position and
undelivered bytes all unchanged) — and by `advance n` for `n` inside the window (which drops
`n` bytes from the window and adds `n` to the position).  Also the C20 clause "a failed read
delivers nothing and the invariant survives". -/
theorem C08_Buffer_refines (b : Buf) (src : Src) (data : Bytes) (h : Buf.Inv b src data)
    (hwf : Src.WfSched src.sched) :
    ((b.cap = 0 ∧ b.fillBuf src = (.ok 0, b, src)) ∨
     (0 < b.cap ∧ b.cap ≤ b.windowLen ∧ b.fillBuf src = (.error .bufferFull, b, src)) ∨
     (0 < b.cap ∧ b.windowLen < b.cap ∧ ∃ n b' src', b.fillBuf src = (.ok n, b', src') ∧
       Buf.Inv b' src' data ∧ b'.position = b.position ∧ b'.cap = b.cap ∧
       b'.window = b.window ++ src.rest.take n ∧ b'.windowLen = b.windowLen + n ∧
       src'.rest = src.rest.drop n ∧ n ≤ src.rest.length ∧
       src'.delivered = src.delivered + n ∧ Src.WfSched src'.sched ∧ (n = 0 → src.rest = [])) ∨
     (0 < b.cap ∧ b.windowLen < b.cap ∧ ∃ b' src', b.fillBuf src = (.error .io, b', src') ∧
       Buf.Inv b' src' data ∧ b'.position = b.position ∧ b'.cap = b.cap ∧ b'.window = b.window ∧
       b'.windowLen = b.windowLen ∧
       src'.rest = src.rest ∧ src'.delivered = src.delivered ∧ Src.WfSched src'.sched)) ∧
    (∀ n, n ≤ b.windowLen → ∃ b', b.advance n = some b' ∧ Buf.Inv b' src data ∧
      b'.window = b.window.drop n ∧ b'.position = b.position + n ∧ b'.cap = b.cap ∧
      b'.windowLen = b.windowLen - n) ∧
    (∀ n, b.windowLen < n → b.advance n = none) :=
  ⟨Buf.fillBuf_cases b src data h hwf, fun n hn => Buf.advance_refines b src data h n hn,
   fun n hn => Buf.advance_none b n hn h.se⟩

/-- the invariant holds initially, for a built reader over any schedule and in slice mode -/
theorem C08_Buffer_refines_init (buffer data : Bytes) (sched : List Step) :
    Buf.Inv (Buf.build buffer) (Src.new data sched) data ∧
    Buf.Inv (Buf.fromSlice data) (Src.new [] []) data :=
  ⟨Buf.inv_build buffer data sched, Buf.inv_fromSlice data⟩

example : Src.WfSched [.give 3, .fail, .give 1, .failForever] := by simp [Src.WfSched]

/-- **Streaming reader = slice lexer.**  For every input, every buffer (fresh or recycled,
any initial contents) in which every token of the input fits (`Fits`, see `Spec/BinReader`;
`buffer.length ≥ 65539` always suffices for the tokens themselves) and every fault-free read
schedule (any chunking down to one byte per read), `while let Some(t) = reader.next()?`
yields exactly the tokens of the slice lexer, ends the same way (clean end / `Eof` /
`InvalidRgb`, never `BufferFull` or an I/O error) and stops at the same byte position; at a
clean end that position is `|data|` and every byte has been delivered.
This is the fault-free corollary of `C20_bin_reader` (same one-call lemma `next_spec`). -/
theorem C08_stream_eq_lexer (buffer data : Bytes) (sched : List Step) (hcap : 0 < buffer.length)
    (hwf : Src.WfSched sched) (hnf : Src.NoFaults sched) (hfit : Fits buffer.length data) :
    (Reader.streamAll (Reader.build buffer (Src.new data sched))).1 = (lexAll data).1 ∧
    (Reader.streamAll (Reader.build buffer (Src.new data sched))).2.1 = embed (lexAll data).2.1 ∧
    (Reader.streamAll (Reader.build buffer (Src.new data sched))).2.2.position
      = data.length - (lexAll data).2.2.length ∧
    ((lexAll data).2.1 = .done →
      (Reader.streamAll (Reader.build buffer (Src.new data sched))).2.2.position = data.length ∧
      (Reader.streamAll (Reader.build buffer (Src.new data sched))).2.2.src.rest = []) :=
  streamAll_eq data _ (rinv_build buffer data sched hcap hwf) rfl (Or.inr hfit) hnf

example : Fits 6 [0x0c, 0, 1, 0, 0, 0] ∧ Fits 30 [0x43, 2, 3, 0, 0x14, 0, 1, 0, 0, 0, 0x14, 0] :=
  ⟨fitsBuffer_sound _ _ (by rfl), fitsBuffer_sound _ _ (by rfl)⟩

example : Src.WfSched [.give 2, .give 1, .repeat 3] ∧ Src.NoFaults [.give 2, .give 1, .repeat 3] := by
  simp [Src.WfSched, Src.NoFaults]

/-- the same for `TokenReader::from_slice` (no buffer, no schedule, no hypothesis) -/
theorem C08_slice_eq_lexer (data : Bytes) :
    (Reader.streamAll (Reader.fromSlice data)).1 = (lexAll data).1 ∧
    (Reader.streamAll (Reader.fromSlice data)).2.1 = embed (lexAll data).2.1 ∧
    (Reader.streamAll (Reader.fromSlice data)).2.2.position = data.length - (lexAll data).2.2.length :=
  let h := streamAll_eq data _ (rinv_fromSlice data) rfl (Or.inl rfl) (by simp [Reader.fromSlice, Src.new, Src.NoFaults])
  ⟨h.1, h.2.1, h.2.2.1⟩

/-- The general statement over schedules *with* fault steps (the C20 theorem, restated here so
that it is audited with this property): see `C20_bin_reader` in `Proofs/BinReader.lean`. -/
theorem C08_stream_with_faults (buffer data : Bytes) (sched : List Step) (hcap : 0 < buffer.length)
    (hwf : Src.WfSched sched) (hfit : Fits buffer.length data) (n : Nat) :
    callToks (Reader.calls n (Reader.build buffer (Src.new data sched))).1 <+: (lexAll data).1 ∧
    (Call.done ∈ (Reader.calls n (Reader.build buffer (Src.new data sched))).1 →
      callToks (Reader.calls n (Reader.build buffer (Src.new data sched))).1 = (lexAll data).1 ∧
      (lexAll data).2.1 = .done) ∧
    (∀ e, Call.err (.lexer e) ∈ (Reader.calls n (Reader.build buffer (Src.new data sched))).1 →
      callToks (Reader.calls n (Reader.build buffer (Src.new data sched))).1 = (lexAll data).1 ∧
      (lexAll data).2.1 = .err e) ∧
    (Call.err .bufferFull ∉ (Reader.calls n (Reader.build buffer (Src.new data sched))).1 ∧
     Call.err .ub ∉ (Reader.calls n (Reader.build buffer (Src.new data sched))).1 ∧
     Call.err .fuel ∉ (Reader.calls n (Reader.build buffer (Src.new data sched))).1) ∧
    ((Reader.calls n (Reader.build buffer (Src.new data sched))).2.position ≤
      (Reader.calls n (Reader.build buffer (Src.new data sched))).2.src.delivered ∧
     (Reader.calls n (Reader.build buffer (Src.new data sched))).2.src.delivered +
      (Reader.calls n (Reader.build buffer (Src.new data sched))).2.src.rest.length = data.length) :=
  C20_bin_reader buffer data sched hcap hwf hfit n

end Jomini.Props.C08
