import JominiModel.Model.BinLexer
import JominiModel.Model.BinReader
import JominiModel.Spec.BinLexer
import JominiModel.Proofs.BinLexer
import JominiModel.Proofs.Buffer
import JominiModel.Spec.BinReader
import JominiModel.Proofs.BinReader
import JominiModel.Proofs.BinReaderBytes
import JominiModel.Proofs.BinReaderPolicy
import JominiModel.Proofs.BinSkipPolicy
import JominiModel.Generated.Tables
/-
C08 — Streaming binary reader equals the slice lexer; token encoding round-trips.
Only property theorems live here; helper lemmas are in `Proofs/`.
-/
namespace Jomini.Props.C08
open Jomini Jomini.BinLexer Jomini.BinReader

/-- the model's 13 lexeme id constants are the ones measured from the compiled code, and
`isId` is false on exactly the measured reserved set (`LexemeId::is_id` probed on all 65536
values). -/
theorem C08_lexeme_ids_measured :
    Tables.binLexemeIds = [OPEN, CLOSE, EQUAL, U32, U64, I32, BOOL, QUOTED, UNQUOTED, F32, F64, RGB, I64]
    ∧ (∀ x : Nat, isId x = false ↔ x ∈ Tables.binReservedIds) := by
  constructor
  · rfl
  · intro x
    simp only [isId, Tables.binReservedIds, OPEN, CLOSE, EQUAL, U32, U64, I32, BOOL, QUOTED, UNQUOTED,
      F32, F64, RGB, I64, Bool.not_eq_eq_eq_not, Bool.not_false, Bool.or_eq_true, beq_iff_eq,
      List.mem_cons, List.not_mem_nil, or_false]
    constructor <;> (intro h; omega)

/-- Token codec round trip: reading what `Token::write` wrote gives the token back and leaves
exactly the bytes that followed; for a whole sequence the lexer returns the sequence, ends
cleanly and consumes every byte.  `WfTok` excludes `Id x` for the 13 reserved ids and strings
longer than 65535 bytes (both exclusions are real: see the harness counter
`write:excluded-differs`). -/
theorem C08_codec :
    (∀ (t : Token) (r : Bytes), WfTok t → readToken (t.write ++ r) = .ok (t, r)) ∧
    (∀ toks : List Token, (∀ t ∈ toks, WfTok t) →
      lexAll (toks.flatMap Token.write) = (toks, .done, [])) :=
  ⟨fun t r h => readToken_write t r h, lexAll_write⟩

example : WfTok (.quoted [3, 0, 4, 0]) ∧ WfTok (.id 0x2838) ∧ WfTok (.rgb ⟨1, 2, 3, some 4⟩) ∧ WfTok (.i64 (-1)) := by
  decide

/-- the two exclusions of `WfTok` are not artefacts of the proof: a reserved id re-lexes as
its lexeme, and a 65536-byte string's length prefix wraps to 0. -/
theorem C08_codec_exclusions :
    readToken ((Token.id OPEN).write) = .ok (.open, []) ∧
    (∀ s : Bytes, s.length = 65536 →
      readToken ((Token.quoted s).write) = .ok (.quoted [], s)) := by
  constructor
  · rfl
  · intro s hs
    have h0 : leBytes 2 s.length = [0, 0] := by rw [hs]; decide
    simp only [Token.write, h0]
    simp [readToken, P.bind, P.map, readId_le, readString, getSplit, leNat,
      CLOSE, OPEN, EQUAL, U32, U64, I32, BOOL, QUOTED]

/-- the token encoding is injective on well-formed tokens … -/
theorem C08_codec_injective (a b : Token) (ha : WfTok a) (hb : WfTok b)
    (h : a.write = b.write) : a = b := by
  have h1 := C08_codec.1 a [] ha
  have h2 := C08_codec.1 b [] hb
  rw [h, h2] at h1
  injection h1 with h1
  exact (congrArg Prod.fst h1).symm

/-- … and on sequences: two different well-formed token sequences never have the same bytes. -/
theorem C08_codec_injective_seq (xs ys : List Token) (hx : ∀ t ∈ xs, WfTok t)
    (hy : ∀ t ∈ ys, WfTok t)
    (h : xs.flatMap Token.write = ys.flatMap Token.write) : xs = ys := by
  have h1 := C08_codec.2 xs hx
  have h2 := C08_codec.2 ys hy
  rw [h, h2] at h1
  exact (congrArg Prod.fst h1).symm

/-- the encoding is prefix-free on well-formed tokens: no token's bytes are a proper prefix of
another's. -/
theorem C08_codec_prefix_free (a b : Token) (ha : WfTok a) (hb : WfTok b) (r : Bytes)
    (h : a.write ++ r = b.write) : a = b ∧ r = [] := by
  have h1 := C08_codec.1 a r ha
  have h2 := C08_codec.1 b [] hb
  rw [List.append_nil] at h2
  rw [h, h2] at h1
  injection h1 with h1
  exact ⟨(congrArg Prod.fst h1).symm, (congrArg Prod.snd h1).symm⟩

example : (Token.i32 5).write ≠ (Token.u32 5).write := fun h =>
  absurd (C08_codec_injective (.i32 5) (.u32 5) (by decide) (by decide) h) (by decide)

example (r : Bytes) : (Token.i32 5).write ++ r ≠ (Token.u32 5).write := fun h =>
  absurd (C08_codec_prefix_free (.i32 5) (.u32 5) (by decide) (by decide) r h).1 (by decide)

/-- `read_token` is prefix stable: a verdict `ok` (with the same token, the unread rest
extended) or `invalidRgb` reached on a window is the verdict on every extension of the
window.  Consequently `eof` is the only verdict more input can change. -/
theorem C08_prefix_stable (w s : Bytes) :
    (∀ t r, readToken w = .ok (t, r) → readToken (w ++ s) = .ok (t, r ++ s)) ∧
    (readToken w = .error .invalidRgb → readToken (w ++ s) = .error .invalidRgb) :=
  ⟨fun t r h => readToken_stable.ok w s t r h, fun h => readToken_stable.rgb w s h⟩

example : readToken [0x0c, 0, 1, 0, 0, 0] = .ok (.i32 1, []) := by rfl
example : readToken [0x43, 2, 4, 0, 0, 0, 0, 0, 0, 0, 0, 0, 0, 0, 0, 0, 0, 0, 0, 0, 0, 0, 0, 0, 0, 0] = .error .invalidRgb := by
  rfl

/-- `next_token` / `peek_token` / `position` of the `Lexer` object agree with `read_token` on
the bare byte list: the `next_token` loop is `lexAll` with `position() = bytes consumed`, and
`peek_token` is `read_token` without the state change. -/
theorem C08_lexer_api (d : Bytes) :
    Lexer.run d = ((lexAll d).1, (lexAll d).2.1, d.length - (lexAll d).2.2.length) ∧
    (∀ (l : Lexer) (t : Token), l.peekToken = some t ↔ ∃ r, readToken l.data = .ok (t, r)) :=
  ⟨Lexer.run_eq d, Lexer.peekToken_eq⟩

/-- `next_id` and the individual `read_*` primitives agree with `read_token`: the documented
"zero overhead" loop (`next_id`, then the primitive that belongs to the id) returns the same
tokens and the same terminal outcome as the `next_token` loop. -/
theorem C08_lexer_primitives (d : Bytes) :
    (Lexer.runIds d).1 = (lexAll d).1 ∧ (Lexer.runIds d).2.1 = (lexAll d).2.1 :=
  Lexer.runIds_eq d

/-- The documented minimal buffer (`usize::from(u16::MAX) + 4 = 65539`) fits every input:
`read_token` can only say `Eof` on fewer than 65539 bytes.  So the hypothesis `Fits` of the
streaming theorems holds for every byte string once `cap ≥ 65539`. -/
theorem C08_fits_of_large (cap : Nat) (hcap : 65539 ≤ cap) (d : Bytes) : Fits cap d :=
  fits_of_large cap hcap d

/-- `Buffer_refines`: the concrete `BufferWindow` (memory of `cap` bytes, `start`, `end`,
`prior_reads`) refines the abstract view "position, window contents, undelivered bytes".
The invariant `Buf.Inv` = `start ≤ end ≤ |mem|` (`|mem| = cap` in builder mode) and
`window ++ undelivered = data.drop position` is preserved by `fill_buf` in each of its
outcomes — slice mode `Ok(0)`, `BufferFull`, a successful read (which appends exactly the
delivered bytes to the window), and a *failed* read (window contents, position and
undelivered bytes all unchanged) — and by `advance n` for `n` inside the window (which drops
`n` bytes from the window and adds `n` to the position).  Also the C20 clause "a failed read
delivers nothing and the invariant survives". -/
theorem C08_Buffer_refines (b : Buf) (src : Src) (data : Bytes) (h : Buf.Inv b src data)
    (hwf : Src.WfSched src.sched) :
    ((b.cap = 0 ∧ b.fillBuf src = (.ok 0, b, src)) ∨
     (0 < b.cap ∧ b.cap ≤ b.windowLen ∧ b.fillBuf src = (.error .bufferFull, b, src)) ∨
     (0 < b.cap ∧ b.windowLen < b.cap ∧ ∃ n b' src', b.fillBuf src = (.ok n, b', src') ∧
       Buf.Inv b' src' data ∧ b'.position = b.position ∧ b'.cap = b.cap ∧
       b'.window = b.window ++ src.rest.take n ∧ b'.windowLen = b.windowLen + n ∧
       src'.rest = src.rest.drop n ∧ n ≤ src.rest.length ∧
       src'.delivered = src.delivered + n ∧ Src.WfSched src'.sched ∧ (n = 0 → src.rest = [])) ∨
     (0 < b.cap ∧ b.windowLen < b.cap ∧ ∃ b' src', b.fillBuf src = (.error .io, b', src') ∧
       Buf.Inv b' src' data ∧ b'.position = b.position ∧ b'.cap = b.cap ∧ b'.window = b.window ∧
       b'.windowLen = b.windowLen ∧
       src'.rest = src.rest ∧ src'.delivered = src.delivered ∧ Src.WfSched src'.sched)) ∧
    (∀ n, n ≤ b.windowLen → ∃ b', b.advance n = some b' ∧ Buf.Inv b' src data ∧
      b'.window = b.window.drop n ∧ b'.position = b.position + n ∧ b'.cap = b.cap ∧
      b'.windowLen = b.windowLen - n) ∧
    (∀ n, b.windowLen < n → b.advance n = none) :=
  ⟨Buf.fillBuf_cases b src data h hwf, fun n hn => Buf.advance_refines b src data h n hn,
   fun n hn => Buf.advance_none b n hn h.se⟩

/-- the invariant holds initially, for a built reader over any schedule and in slice mode -/
theorem C08_Buffer_refines_init (buffer data : Bytes) (sched : List Step) :
    Buf.Inv (Buf.build buffer) (Src.new data sched) data ∧
    Buf.Inv (Buf.fromSlice data) (Src.new [] []) data :=
  ⟨Buf.inv_build buffer data sched, Buf.inv_fromSlice data⟩

example : Src.WfSched [.give 3, .fail, .give 1, .failForever] := by simp [Src.WfSched]

/-- **Streaming reader = slice lexer.**  For every input, every buffer (fresh or recycled,
any initial contents) in which every token of the input fits (`Fits`, see `Spec/BinReader`;
`buffer.length ≥ 65539` always suffices for the tokens themselves) and every fault-free read
schedule (any chunking down to one byte per read), `while let Some(t) = reader.next()?`
yields exactly the tokens of the slice lexer, ends the same way (clean end / `Eof` /
`InvalidRgb`, never `BufferFull` or an I/O error) and stops at the same byte position; at a
clean end that position is `|data|` and every byte has been delivered.
This is the fault-free corollary of `C20_bin_reader` (same one-call lemma `next_spec`). -/
theorem C08_stream_eq_lexer (buffer data : Bytes) (sched : List Step) (hcap : 0 < buffer.length)
    (hwf : Src.WfSched sched) (hnf : Src.NoFaults sched) (hfit : Fits buffer.length data) :
    (Reader.streamAll (Reader.build buffer (Src.new data sched))).1 = (lexAll data).1 ∧
    (Reader.streamAll (Reader.build buffer (Src.new data sched))).2.1 = embed (lexAll data).2.1 ∧
    (Reader.streamAll (Reader.build buffer (Src.new data sched))).2.2.position
      = data.length - (lexAll data).2.2.length ∧
    ((lexAll data).2.1 = .done →
      (Reader.streamAll (Reader.build buffer (Src.new data sched))).2.2.position = data.length ∧
      (Reader.streamAll (Reader.build buffer (Src.new data sched))).2.2.src.rest = []) :=
  streamAll_eq data _ (rinv_build buffer data sched hcap hwf) rfl (Or.inr hfit) hnf

example : Fits 6 [0x0c, 0, 1, 0, 0, 0] ∧ Fits 30 [0x43, 2, 3, 0, 0x14, 0, 1, 0, 0, 0, 0x14, 0] :=
  ⟨fitsBuffer_sound _ _ (by rfl), fitsBuffer_sound _ _ (by rfl)⟩

example : Src.WfSched [.give 2, .give 1, .repeat 3] ∧ Src.NoFaults [.give 2, .give 1, .repeat 3] := by
  simp [Src.WfSched, Src.NoFaults]

/-- the same for `TokenReader::from_slice` (no buffer, no schedule, no hypothesis) -/
theorem C08_slice_eq_lexer (data : Bytes) :
    (Reader.streamAll (Reader.fromSlice data)).1 = (lexAll data).1 ∧
    (Reader.streamAll (Reader.fromSlice data)).2.1 = embed (lexAll data).2.1 ∧
    (Reader.streamAll (Reader.fromSlice data)).2.2.position = data.length - (lexAll data).2.2.length :=
  let h := streamAll_eq data _ (rinv_fromSlice data) rfl (Or.inl rfl) (by simp [Reader.fromSlice, Src.new, Src.NoFaults])
  ⟨h.1, h.2.1, h.2.2.1⟩

/-- The general statement over schedules *with* fault steps (the C20 theorem, restated here so
that it is audited with this property): see `C20_bin_reader` in `Proofs/BinReader.lean`. -/
theorem C08_stream_with_faults (buffer data : Bytes) (sched : List Step) (hcap : 0 < buffer.length)
    (hwf : Src.WfSched sched) (hfit : Fits buffer.length data) (n : Nat) :
    callToks (Reader.calls n (Reader.build buffer (Src.new data sched))).1 <+: (lexAll data).1 ∧
    (Call.done ∈ (Reader.calls n (Reader.build buffer (Src.new data sched))).1 →
      callToks (Reader.calls n (Reader.build buffer (Src.new data sched))).1 = (lexAll data).1 ∧
      (lexAll data).2.1 = .done) ∧
    (∀ e, Call.err (.lexer e) ∈ (Reader.calls n (Reader.build buffer (Src.new data sched))).1 →
      callToks (Reader.calls n (Reader.build buffer (Src.new data sched))).1 = (lexAll data).1 ∧
      (lexAll data).2.1 = .err e) ∧
    (Call.err .bufferFull ∉ (Reader.calls n (Reader.build buffer (Src.new data sched))).1 ∧
     Call.err .ub ∉ (Reader.calls n (Reader.build buffer (Src.new data sched))).1 ∧
     Call.err .fuel ∉ (Reader.calls n (Reader.build buffer (Src.new data sched))).1) ∧
    ((Reader.calls n (Reader.build buffer (Src.new data sched))).2.position ≤
      (Reader.calls n (Reader.build buffer (Src.new data sched))).2.src.delivered ∧
     (Reader.calls n (Reader.build buffer (Src.new data sched))).2.src.delivered +
      (Reader.calls n (Reader.build buffer (Src.new data sched))).2.src.rest.length = data.length) :=
  C20_bin_reader buffer data sched hcap hwf hfit n

/-- **A buffer that is too small is an error.**  For a builder buffer of at least one byte and a
fault-free schedule: if some token of the input (or a failing trailing token) does not fit
(`¬ Fits`), the streamed run ends with `BufferFull`; the tokens returned before that are, in
order, a prefix of the slice lexer's tokens — never a clean end, never a different token.
(Capacity 0 is excluded for a reason: the code treats a zero-length buffer as slice mode and
reports a clean end immediately; known finding `zero-capacity-buffer-drops-input`.) -/
theorem C08_too_small_is_error (buffer data : Bytes) (sched : List Step) (hcap : 1 ≤ buffer.length)
    (hwf : Src.WfSched sched) (hnf : Src.NoFaults sched) (hsmall : ¬ Fits buffer.length data) :
    (Reader.streamAll (Reader.build buffer (Src.new data sched))).2.1 = .err .bufferFull ∧
    (Reader.streamAll (Reader.build buffer (Src.new data sched))).1 <+: (lexAll data).1 := by
  have h0 := rinv_build buffer data sched hcap hwf
  have hrem : (Reader.build buffer (Src.new data sched)).remaining data = data := by
    simp [Reader.remaining, Reader.build, Buf.build, Reader.position, Buf.position, Buf.consumedData]
  have hlen := remaining_length h0
  have := stream_small data (Reader.streamFuel (Reader.build buffer (Src.new data sched)))
    (Reader.build buffer (Src.new data sched)) h0 hcap (by rw [hrem]; exact hsmall) hnf
    (by rw [hlen]; simp [Reader.streamFuel])
  rw [hrem] at this
  exact ⟨this.1, this.2.1⟩

/-- the hypothesis is satisfiable: a 6-byte token in a 5-byte buffer -/
example : ¬ Fits 5 [0x0c, 0, 1, 0, 0, 0] := by
  intro h
  have := fits_head h 5 (by simp) (by rfl)
  omega

/-- **`read_bytes(n)`.**  `rd` is any reader state satisfying the reader invariant `RInv`
(it holds initially — `rinv_build`, `rinv_fromSlice` — and is re-established by every
`next` / `read_bytes` / `skip_container` call); `rem` = the input bytes not yet consumed.
For every fault-free schedule (any chunking):
* `n ≤ |rem|` and capacity `≥ n` (or slice mode): the call returns exactly the next `n` bytes
  of the input (the raw slice is taken at the window start *after* all refills), `position`
  advances by `n`;
* capacity `< n` with at least a buffer-full of input left: `BufferFull`, nothing consumed;
* fewer than `n` bytes left: the `Eof` error, nothing consumed — never a short slice;
* composition with `next()`: after a successful `read_bytes` the token stream is the slice
  lexer's stream of the remaining bytes `rem.drop n` (same tokens, same terminal outcome, same
  final position), provided those tokens fit. -/
theorem C08_read_bytes (data : Bytes) (n : Nat) (rd : Reader) (h : RInv rd data)
    (hnf : Src.NoFaults rd.src.sched) :
    RInv (rd.readBytes n).2 data ∧
    (n ≤ (rd.remaining data).length → (rd.buf.cap = 0 ∨ n ≤ rd.buf.cap) →
      (rd.readBytes n).1 = .ok ((rd.remaining data).take n) ∧
      (rd.readBytes n).2.position = rd.position + n ∧
      (rd.readBytes n).2.remaining data = (rd.remaining data).drop n ∧
      ((rd.buf.cap = 0 ∨ Fits rd.buf.cap ((rd.remaining data).drop n)) →
        (Reader.streamAll (rd.readBytes n).2).1 = (lexAll ((rd.remaining data).drop n)).1 ∧
        (Reader.streamAll (rd.readBytes n).2).2.1 = embed (lexAll ((rd.remaining data).drop n)).2.1 ∧
        (Reader.streamAll (rd.readBytes n).2).2.2.position
          = data.length - (lexAll ((rd.remaining data).drop n)).2.2.length)) ∧
    (0 < rd.buf.cap → rd.buf.cap < n → rd.buf.cap ≤ (rd.remaining data).length →
      (rd.readBytes n).1 = .error ⟨rd.position, .bufferFull⟩ ∧ (rd.readBytes n).2.position = rd.position) ∧
    ((rd.remaining data).length < n → (rd.buf.cap = 0 ∨ (rd.remaining data).length < rd.buf.cap) →
      (rd.readBytes n).1 = .error ⟨rd.position, .lexer .eof⟩ ∧ (rd.readBytes n).2.position = rd.position) := by
  obtain ⟨a1, a2, a3, a4, a5, a6⟩ := readBytes_cases data n rd h hnf
  refine ⟨a1, fun hn hc => ?_, a5, a6⟩
  obtain ⟨b1, b2, b3⟩ := a4 hn hc
  refine ⟨b1, b2, b3, fun hfit => ?_⟩
  have := streamAll_from data (rd.readBytes n).2 a1 (by rw [a2, b3]; exact hfit) a3
  rw [b3] at this
  exact this

/-- the header-then-tokens use from a fresh reader (`read_bytes(6)` for `EU4bin`, then tokens) -/
theorem C08_read_bytes_header (buffer data : Bytes) (sched : List Step) (n : Nat)
    (hcap : 0 < buffer.length) (hwf : Src.WfSched sched) (hnf : Src.NoFaults sched)
    (hn : n ≤ data.length) (hnc : n ≤ buffer.length) (hfit : Fits buffer.length (data.drop n)) :
    ((Reader.build buffer (Src.new data sched)).readBytes n).1 = .ok (data.take n) ∧
    (Reader.streamAll ((Reader.build buffer (Src.new data sched)).readBytes n).2).1 = (lexAll (data.drop n)).1 ∧
    (Reader.streamAll ((Reader.build buffer (Src.new data sched)).readBytes n).2).2.1
      = embed (lexAll (data.drop n)).2.1 := by
  have h0 := rinv_build buffer data sched hcap hwf
  have hrem : (Reader.build buffer (Src.new data sched)).remaining data = data := by
    simp [Reader.remaining, Reader.build, Buf.build, Reader.position, Buf.position, Buf.consumedData]
  obtain ⟨_, a, _, _⟩ := C08_read_bytes data n _ h0 hnf
  rw [hrem] at a
  obtain ⟨b1, _, _, b4⟩ := a hn (Or.inr hnc)
  obtain ⟨c1, c2, _⟩ := b4 (Or.inr hfit)
  exact ⟨b1, c1, c2⟩

example : ((Reader.build [0, 0, 0, 0, 0, 0] (Src.new [0x45, 0x55, 0x34, 0x0e, 0, 1] [.repeat 1])).readBytes 3).1
    = .ok [0x45, 0x55, 0x34] := by rfl

/-- `read_bytes` under any well-formed schedule, faults included: the call returns the next `n`
bytes, or the I/O error, or `Eof` only when fewer than `n` bytes are left, or `BufferFull` only
when the buffer is smaller than `n`; an error consumes nothing; no out-of-window pointer, no
fuel exhaustion; the invariant survives (so a retry after a transient fault is sound). -/
theorem C08_read_bytes_faulty (data : Bytes) (n : Nat) (rd : Reader) (h : RInv rd data) :
    RInv (rd.readBytes n).2 data ∧ BytesPost data n rd (rd.readBytes n).1 (rd.readBytes n).2 := by
  obtain ⟨a, _, c⟩ := readBytes_spec data n rd.fuelFor rd h (by simp [Reader.fuelFor])
  exact ⟨a, c⟩

/-- the slice lexer's `read_bytes(n)` (lexer.rs:762): exactly the next `n` bytes and the lexer
advanced by `n` when that many are left; otherwise the `Eof` error at the current position with
the lexer unchanged — never a short slice -/
theorem C08_lexer_read_bytes (l : Lexer) (n : Nat) :
    (n ≤ l.data.length →
      l.readBytes n = (.ok (l.data.take n), { l with data := l.data.drop n })) ∧
    (l.data.length < n → l.readBytes n = (.error ⟨l.position, .eof⟩, l)) := by
  constructor
  · intro h
    simp [Lexer.readBytes, h]
  · intro h
    have : ¬ (l.data.length ≥ n) := by omega
    simp [Lexer.readBytes, this, Lexer.errPosition]

example : (Lexer.new [0x45, 0x55, 0x34]).readBytes 4 = (.error ⟨0, .eof⟩, Lexer.new [0x45, 0x55, 0x34]) := by rfl

/-- **Known finding, exhibited on the model** (`zero-capacity-buffer-drops-input`):
`TokenReader::builder().buffer_len(0).build(reader)` reports a clean end of input on the first
`next()` without delivering a single byte, for *every* input and schedule — although the slice
lexer finds tokens in, e.g., `0c 00 01 00 00 00`.  (buffer.rs treats a zero-capacity buffer as
slice mode.)  This is why `C08_too_small_is_error` and the streaming theorems require
`cap ≥ 1`. -/
theorem C08_known_zero_capacity_drops_input :
    (∀ (data : Bytes) (sched : List Step),
      Reader.streamAll (Reader.ofLen 0 (Src.new data sched)) = ([], .done, Reader.ofLen 0 (Src.new data sched)) ∧
      (Reader.ofLen 0 (Src.new data sched)).src.delivered = 0 ∧
      (Reader.ofLen 0 (Src.new data sched)).src.rest = data) ∧
    (lexAll [0x0c, 0, 1, 0, 0, 0]).1 = [.i32 1] :=
  ⟨fun data sched => ⟨zero_cap_stream data sched, rfl, rfl⟩, by rfl⟩

/-- **A stray trailing byte is an error, never a clean end.**  For every well-formed token
sequence followed by one extra byte (so the input has one byte that starts no token — the
odd-length case for 2-byte tokens): the slice lexer returns the tokens and then `Eof` with that
byte unread, and so does the streaming reader for every fault-free schedule and fitting buffer:
the tokens, then the `Eof` *error* (not `Ok(None)`), at position `|data| − 1`. -/
theorem C08_trailing_byte_is_error (toks : List Token) (hwf : ∀ t ∈ toks, WfTok t) (b : UInt8)
    (buffer : Bytes) (sched : List Step) (hcap : 0 < buffer.length) (hwfs : Src.WfSched sched)
    (hnf : Src.NoFaults sched) (hfit : Fits buffer.length (toks.flatMap Token.write ++ [b])) :
    lexAll (toks.flatMap Token.write ++ [b]) = (toks, .err .eof, [b]) ∧
    (Reader.streamAll (Reader.build buffer (Src.new (toks.flatMap Token.write ++ [b]) sched))).1 = toks ∧
    (Reader.streamAll (Reader.build buffer (Src.new (toks.flatMap Token.write ++ [b]) sched))).2.1
      = .err (.lexer .eof) ∧
    (Reader.streamAll (Reader.build buffer (Src.new (toks.flatMap Token.write ++ [b]) sched))).2.2.position
      = (toks.flatMap Token.write).length := by
  have hl := lexAll_trailing toks hwf b
  obtain ⟨a1, a2, a3, _⟩ := C08_stream_eq_lexer buffer _ sched hcap hwfs hnf hfit
  rw [hl] at a1 a2 a3
  refine ⟨hl, a1, a2, ?_⟩
  rw [a3]; simp

example : lexAll [0x03, 0, 0x04, 0, 0xff] = ([.open, .close], .err .eof, [0xff]) := by rfl

/-- **Stream = lexer for EVERY buffer policy.**  `AReader P` (Model/BinReaderPolicy.lean) is the
reader over an abstract buffer — window contents, position, capacity — whose management is left
to a policy `P`: at each fill `P` decides how many bytes to ask the `Read` for (i.e. whether it
compacts first), keeping a private state.  For every `P` meeting `Policy.Contract` (its own
invariant is kept; whenever the window is shorter than the capacity it finds room and requests
at least one byte that fits behind the window), every capacity `≥ 1`, every input and every
well-formed schedule:
* fault-free and everything fits: the streamed tokens, the terminal outcome and the final
  position are those of the slice lexer;
* fault-free and some token does not fit: `BufferFull`, after a prefix of the lexer's tokens;
  hence `BufferFull` **iff** a token exceeds the capacity;
* with faults (and everything fits), for any number of calls: the returned tokens are a prefix of
  the lexer's, a clean end / lexer error only as the lexer's own outcome after all of them,
  otherwise the I/O error; never `BufferFull`; position ≤ bytes delivered.
None of this depends on how much each fill requests or on when the window is moved. -/
theorem C08_stream_eq_lexer_any_policy (P : Policy) (cap : Nat) (data : Bytes) (sched : List Step)
    (hP : P.Contract cap) (hcap : 1 ≤ cap) (hwf : Src.WfSched sched) :
    (Src.NoFaults sched → Fits cap data →
      (AReader.streamAll (AReader.new P cap (Src.new data sched))).1 = (lexAll data).1 ∧
      (AReader.streamAll (AReader.new P cap (Src.new data sched))).2.1 = embed (lexAll data).2.1 ∧
      (AReader.streamAll (AReader.new P cap (Src.new data sched))).2.2.position
        = data.length - (lexAll data).2.2.length) ∧
    (Src.NoFaults sched → ¬ Fits cap data →
      (AReader.streamAll (AReader.new P cap (Src.new data sched))).2.1 = .err .bufferFull ∧
      (AReader.streamAll (AReader.new P cap (Src.new data sched))).1 <+: (lexAll data).1) ∧
    (Src.NoFaults sched →
      ((AReader.streamAll (AReader.new P cap (Src.new data sched))).2.1 = .err .bufferFull ↔ ¬ Fits cap data)) ∧
    (Fits cap data → ∀ n,
      callToks (AReader.calls n (AReader.new P cap (Src.new data sched))).1 <+: (lexAll data).1 ∧
      (Call.done ∈ (AReader.calls n (AReader.new P cap (Src.new data sched))).1 →
        callToks (AReader.calls n (AReader.new P cap (Src.new data sched))).1 = (lexAll data).1 ∧
        (lexAll data).2.1 = .done) ∧
      (∀ e, Call.err (.lexer e) ∈ (AReader.calls n (AReader.new P cap (Src.new data sched))).1 →
        callToks (AReader.calls n (AReader.new P cap (Src.new data sched))).1 = (lexAll data).1 ∧
        (lexAll data).2.1 = .err e) ∧
      (Call.err .bufferFull ∉ (AReader.calls n (AReader.new P cap (Src.new data sched))).1 ∧
       Call.err .ub ∉ (AReader.calls n (AReader.new P cap (Src.new data sched))).1 ∧
       Call.err .fuel ∉ (AReader.calls n (AReader.new P cap (Src.new data sched))).1) ∧
      (AReader.calls n (AReader.new P cap (Src.new data sched))).2.position ≤
        (AReader.calls n (AReader.new P cap (Src.new data sched))).2.src.delivered) := by
  refine ⟨fun hnf hfit => (astreamAll_any P cap data sched hP hcap hwf hnf).1 hfit,
    fun hnf hn => (astreamAll_any P cap data sched hP hcap hwf hnf).2 hn, fun hnf => ⟨fun hb hfit => ?_, fun hn => ?_⟩,
    fun hfit n => acalls_any P cap data sched hP hcap hwf hfit n⟩
  · have := ((astreamAll_any P cap data sched hP hcap hwf hnf).1 hfit).2.1
    rw [this] at hb
    generalize (lexAll data).2.1 = tm at hb
    cases tm <;> simp [embed] at hb
  · exact ((astreamAll_any P cap data sched hP hcap hwf hnf).2 hn).1

/-- **The eager policy of buffer.rs is an instance**, and the concrete model the correspondence
runs on refines the abstract reader under it: `Reader.build buffer src` and
`AReader.new eagerPolicy buffer.length src` produce the same whole-stream run (tokens, terminal
outcome, final position) and the same call logs, for every input and well-formed schedule
(faults included), whether or not the tokens fit. -/
theorem C08_eager_policy_ok (cap : Nat) :
    eagerPolicy.Contract cap ∧
    (∀ (buffer data : Bytes) (sched : List Step), 0 < buffer.length → Src.WfSched sched →
      ((Reader.streamAll (Reader.build buffer (Src.new data sched))).1 =
          (AReader.streamAll (AReader.new eagerPolicy buffer.length (Src.new data sched))).1 ∧
       (Reader.streamAll (Reader.build buffer (Src.new data sched))).2.1 =
          (AReader.streamAll (AReader.new eagerPolicy buffer.length (Src.new data sched))).2.1 ∧
       (Reader.streamAll (Reader.build buffer (Src.new data sched))).2.2.position =
          (AReader.streamAll (AReader.new eagerPolicy buffer.length (Src.new data sched))).2.2.position) ∧
      (∀ n, (Reader.calls n (Reader.build buffer (Src.new data sched))).1 =
          (AReader.calls n (AReader.new eagerPolicy buffer.length (Src.new data sched))).1)) :=
  ⟨eagerPolicy_contract cap, fun buffer data sched hc hwf => eager_refines buffer data sched hc hwf⟩

/-- **The lazy compaction of `seeded-harmless-r3/R2_buffer_lazy_compaction.diff` is an instance**:
with the offset of the window inside the allocation as private state, it appends behind the
window while there is room and moves the window to the front only when it is empty or touches
the end of the allocation; it meets the contract, so every clause of
`C08_stream_eq_lexer_any_policy` holds for it (stated here for the fault-free stream). -/
theorem C08_lazy_policy_ok (cap : Nat) (hcap : 1 ≤ cap) (data : Bytes) (sched : List Step)
    (hwf : Src.WfSched sched) (hnf : Src.NoFaults sched) :
    lazyPolicy.Contract cap ∧
    (Fits cap data →
      (AReader.streamAll (AReader.new lazyPolicy cap (Src.new data sched))).1 = (lexAll data).1 ∧
      (AReader.streamAll (AReader.new lazyPolicy cap (Src.new data sched))).2.1 = embed (lexAll data).2.1) ∧
    ((AReader.streamAll (AReader.new lazyPolicy cap (Src.new data sched))).2.1 = .err .bufferFull ↔
      ¬ Fits cap data) := by
  have h := C08_stream_eq_lexer_any_policy lazyPolicy cap data sched (lazyPolicy_contract cap) hcap hwf
  exact ⟨lazyPolicy_contract cap, fun hfit => ⟨(h.1 hnf hfit).1, (h.1 hnf hfit).2.1⟩, h.2.2.1 hnf⟩

/-- the two policies really differ in what they ask the `Read` for (so `delivered` and the read
call a fault falls on differ) while the token stream is the same -/
example :
    let d : Bytes := [0x0c, 0, 1, 0, 0, 0, 0x0e, 0, 1]
    let s : List Step := [.give 7]
    (AReader.streamAll (AReader.new lazyPolicy 8 (Src.new d s))).1
      = (AReader.streamAll (AReader.new eagerPolicy 8 (Src.new d s))).1 ∧
    (AReader.streamAll (AReader.new lazyPolicy 8 (Src.new d s))).1 = [.i32 1, .bool true] := by
  constructor <;> rfl

/-- **`skip_container` = the lexer's skip for EVERY buffer policy** (extension of
`C08_stream_eq_lexer_any_policy`): for every policy meeting `Policy.Contract`, every capacity
`≥ 1`, every input and well-formed schedule (faults included), after any number `n` of `next`
calls of the abstract reader: if the slice lexer's `skip_container` on the bytes still to be seen
succeeds and leaves `l'` (and the lexemes on the way fit, `SkipFits`; always true for
`cap ≥ 65539`), the streamed `skip_container` lands exactly there — same unread input, same
position — or returns the I/O error with position ≤ delivered; with a fault-free schedule it
lands there. -/
theorem C08_skip_eq_lexer_any_policy (P : Policy) (cap : Nat) (data : Bytes) (sched : List Step)
    (hP : P.Contract cap) (hcap : 1 ≤ cap) (hwf : Src.WfSched sched) (n : Nat) (l' : Lexer)
    (hfit : SkipFits cap ((AReader.calls n (AReader.new P cap (Src.new data sched))).2.remaining data) 1)
    (hlex : (Lexer.mk ((AReader.calls n (AReader.new P cap (Src.new data sched))).2.remaining data)
        data.length).skipContainer = some (.ok (), l')) :
    let a := (AReader.calls n (AReader.new P cap (Src.new data sched))).2
    a.skipContainer.2.position ≤ a.skipContainer.2.src.delivered ∧
    ((a.skipContainer.1 = .ok () ∧ a.skipContainer.2.remaining data = l'.data ∧
        a.skipContainer.2.position = l'.position) ∨
     a.skipContainer.1 = .error ⟨a.skipContainer.2.position, .read⟩) ∧
    (Src.NoFaults a.src.sched → a.skipContainer.1 = .ok ()) := by
  intro a
  have h0 := ainv_new P cap data sched hP hcap hwf
  obtain ⟨a1, a2⟩ := acalls_inv data n _ h0 hP
  have hc : a.cap = cap := a2
  obtain ⟨_, b2, b3, b4⟩ := askip_any data a l' a1 (by rw [hc]; exact hP) (by rw [hc]; exact hfit) hlex
  refine ⟨b2, ?_, b4⟩
  rcases b3 with ⟨c1, c2, c3⟩ | ⟨c1, _⟩
  · exact Or.inl ⟨c1, c2, c3⟩
  · exact Or.inr c1

end Jomini.Props.C08
