import JominiModel.Proofs.BinSkipFaults
import JominiModel.Proofs.BinDeCutDoc
import JominiModel.Proofs.BinReader
import JominiModel.Proofs.TextFault
import JominiModel.Proofs.TextDeCut
import JominiModel.Proofs.BinDeCut
import JominiModel.Proofs.TextSkip
/-
C20 — Underlying I/O failures surface as errors, never as silently wrong results.

Obligations: every `C20_…` theorem of the files listed in tools/meta/C20.json plus the restatements below.

* Binary streaming reader (Proofs/BinReader.lean): `C20_bin_reader` — for every schedule with transient and
  persistent faults and every number of calls, the tokens returned are a prefix of the lexer's tokens, a clean end /
  eof / invalidRgb is only ever the lexer's own outcome after all tokens, BufferFull / ub / fuel never occur,
  position ≤ delivered; `next_dead` — after a persistent fault no clean end is ever reported.
* Binary `skip_container` and `read_bytes` under faults (Proofs/BinSkipFaults.lean): `C20_bin_skip_container`,
  `_after_calls`, `C20_bin_read_bytes_then_skip`; the recorded retry defect on the model:
  `C20_known_bin_skip_retry_depth`.
* Text reader (Proofs/TextFault.lean, TextSkip.lean): `C20_text_reader`, `C20_text_skip_container`,
  `C20_text_persistent_fault_errors`, `C20_text_doomed_call`; the recorded retry defect:
  `C20_known_fault_retry_in_quoted`.
* Deserializers: `C20_text_de` (Ok despite a broken stream = the fault-free value), `C20_bin_de_fault`,
  `C20_bin_de_fault_unread` (the binary sequential deserializers never return Ok on a failing token source).

Decided on the real code only: the io::ErrorKind a fault carries (Interrupted / WouldBlock / UnexpectedEof / TimedOut
injected at every read call), faults at every 32 KiB refill of large documents (x-scale), conversion of reader
errors into the crate's Error kind (a fault must reach the caller as an I/O error by kind).
-/
namespace Jomini.Props.C20
open Jomini

theorem C20_bin_reader_faults : type_of% @BinReader.C20_bin_reader := @BinReader.C20_bin_reader

theorem C20_bin_reader_dead_source : type_of% @BinReader.next_dead := @BinReader.next_dead

end Jomini.Props.C20
