import JominiModel.Proofs.BinDeCutDoc
import JominiModel.Proofs.BinReader
import JominiModel.Proofs.TextFault
import JominiModel.Proofs.TextDeCut
import JominiModel.Proofs.BinDeCut
import JominiModel.Proofs.TextSkip
/-
C20 — Underlying I/O failures surface as errors, never as silently wrong results.

Obligations: every `C20_…` theorem of the files listed in tools/meta/C20.json plus the
restatements below.  Proved so far: the binary streaming reader (`C20_bin_reader`: for every
schedule with transient and persistent faults and every number of calls, the tokens returned are a
prefix of the lexer's tokens, a clean end / eof / invalidRgb is only ever the lexer's own outcome
after all tokens, BufferFull / ub / fuel never occur, position ≤ delivered) and `next_dead` (after
a persistent fault no clean end is ever reported).  The text reader and the reader-based
deserializers are decided by correspondence (`tstream`, `tretry`) and the fault oracles of
harness/src/props/c20.rs only.
-/
namespace Jomini.Props.C20
open Jomini

theorem C20_bin_reader_faults : type_of% @BinReader.C20_bin_reader := @BinReader.C20_bin_reader

theorem C20_bin_reader_dead_source : type_of% @BinReader.next_dead := @BinReader.next_dead

end Jomini.Props.C20
