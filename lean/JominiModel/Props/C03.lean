import JominiModel.Model.BinTape
/-
C03 — the binary tape mirrors the token stream; the fast paths are unobservable.
Only property theorems live here; helper lemmas are in `Proofs/BinTape*.lean`.
-/
namespace Jomini.Props.C03
open Jomini Jomini.BinTape

/-- `next_state` (tape.rs:236: `2*s - (s & 2)` on `u8`, then `transmute`) reproduces the intended
transition table on all eight states and never yields a non-state (the `transmute` is defined):
array values stay array values (plain and mixed), a value is followed by a key, a key by the
separator, a second scalar after a key turns the object into an array, the first scalar of a
container leads to "second", the second to "array". -/
theorem C03_nextState_table :
    (∀ s, (nextState s).isSome = true) ∧
    nextState .arrayValue = some .arrayValue ∧
    nextState .arrayValueMixed = some .arrayValueMixed ∧
    nextState .objectValue = some .key ∧
    nextState .key = some .keyValueSeparator ∧
    nextState .keyValueSeparator = some .objectToArray ∧
    nextState .objectToArray = some .openFirst ∧
    nextState .openFirst = some .openSecond ∧
    nextState .openSecond = some .arrayValue := by
  refine ⟨fun s => ?_, ?_, ?_, ?_, ?_, ?_, ?_, ?_, ?_⟩
  · cases s <;> decide
  all_goals decide

example : nextState .openSecond = some .arrayValue := by decide

end Jomini.Props.C03
