import JominiModel.Model.BinTape
import JominiModel.Proofs.BinTape
import JominiModel.Proofs.BinTapeEq
import JominiModel.Proofs.BinTapeWf
import JominiModel.Proofs.BinTapeFaithful
import JominiModel.Proofs.BinTapeTotal
import JominiModel.Proofs.BinTapeNested
import JominiModel.Proofs.BinTapeCut
import JominiModel.Proofs.BinTapeMirror
import JominiModel.Proofs.BinTapeReuse
import JominiModel.Proofs.BinTapeDropped
import JominiModel.Proofs.BinTapeMoves
import JominiModel.Proofs.BinTapeDead
import JominiModel.Proofs.BinTapeUniform
/-
C03 — the binary tape mirrors the token stream; the fast paths are unobservable.
Only property theorems live here; helper lemmas are in `Proofs/BinTape*.lean`.

`parse true`  models `BinaryTapeParser::parse_slice_into_tape` (fast paths on),
`parse false` models `parse_slice_into_tape_unoptimized` (the plain one-token-at-a-time loop).
`step` is one iteration of the plain loop, `Reach a b` / `Reach1 a b` "the plain loop gets from `a`
to `b` in ≥ 0 / ≥ 1 iterations", `Rejects a e` "the plain loop started at `a` ends with error `e`".
-/
namespace Jomini.Props.C03
open Jomini Jomini.BinTape

/-- `next_state` (tape.rs:236: `2*s - (s & 2)` on `u8`, then `transmute`) reproduces the intended
transition table on all eight states and never yields a non-state (the `transmute` is defined):
array values stay array values (plain and mixed), a value is followed by a key, a key by the
separator, a second scalar after a key turns the object into an array, the first scalar of a
container leads to "second", the second to "array". -/
theorem C03_nextState_table :
    (∀ s, (nextState s).isSome = true) ∧
    nextState .arrayValue = some .arrayValue ∧
    nextState .arrayValueMixed = some .arrayValueMixed ∧
    nextState .objectValue = some .key ∧
    nextState .key = some .keyValueSeparator ∧
    nextState .keyValueSeparator = some .objectToArray ∧
    nextState .objectToArray = some .openFirst ∧
    nextState .openFirst = some .openSecond ∧
    nextState .openSecond = some .arrayValue := by
  refine ⟨fun s => ?_, ?_, ?_, ?_, ?_, ?_, ?_, ?_, ?_⟩
  · cases s <;> decide
  all_goals decide

example : nextState .openSecond = some .arrayValue := by decide

/-- The side condition the fast paths need: an id they push as `Token` (`isPlainId`, or `0xb`) is
not one of the typed lexemes, so the plain loop pushes it as `Token` as well (outside value
position, where alone `RGB` is special).  `I64` (0x0317) is excluded by `isPlainId`; this is the
obligation the code violated before the repair f2996c9. -/
theorem C03_plain_id_not_typed (tape : Tape) (parent : Nat) (state : PState) (d : Bytes) (tok : Nat)
    (h : isPlainId tok = true ∨ tok = 0xb) (hs : state ≠ .objectValue) :
    tokenArm false 0 tape parent state d tok = scalarArm (.ok (tape ++ [.token tok], d)) parent state ∧
    tok ≠ L.i64 ∧ tok ≠ L.u64 ∧ tok ≠ L.f64 :=
  ⟨tokenArm_plainId tape parent state d tok h hs, by
    rw [isPlainId_iff] at h; simp only [L.i64, L.u64, L.f64]; omega⟩

example : isPlainId 0x2d82 = true ∧ isPlainId L.i64 = false ∧ isPlainId L.rgb = true := by decide

/-- Every key fast path (token-id key, quoted key, `I32` key, `}` in key position, with the
`parse_array_field!` loops and the inline object start), entered in state `Key` with the id `tok`
just read from `data`, is simulated by the plain loop started at the same variables:
* `continue 'outer` with `st'`      ⇒ the plain loop reaches `st'` in `k ≥ 1` iterations;
* abort with error `e`             ⇒ the plain loop rejects with the same `e` (and `e` is not the
                                      model's fuel sentinel);
* fall through to the token match  ⇒ the plain loop reaches, in `k ≥ 0` iterations, exactly the
                                      variables the fast path hands to the match, positioned just
                                      before the id `tok'` it hands over.
Hypotheses: enough fuel for the inner array loops, and the invariant `KeyInv` (in key position the
parent slot is inside the tape and is not an `Array`), which the plain loop maintains
(`Proofs/BinTapeEq.step_good`). -/
theorem C03_key_fastpath_sim (F : Nat) (tape : Tape) (parent : Nat) (data d : Bytes) (tok : Nat)
    (hr : readId data = some (tok, d)) (hF : data.length ≤ F) (hinv : KeyInv tape parent) :
    match keyFast F tape parent d tok with
    | .cont st' => Reach1 ⟨tape, parent, .key, data⟩ st'
    | .err e => e ≠ .fuel ∧ Rejects ⟨tape, parent, .key, data⟩ e
    | .fall t p s d' tok' =>
        ∃ dpre, readId dpre = some (tok', d') ∧ Reach ⟨tape, parent, .key, data⟩ ⟨t, p, s, dpre⟩ := by
  have h := keyFast_sim F tape parent data d tok hr hF hinv
  cases hk : keyFast F tape parent d tok <;> rw [hk] at h <;> exact h

/-- hypotheses satisfiable: `id = I32 5` at top level, the fast path fires and `continue`s. -/
example :
    keyFast 10 [] 0 [0x01, 0x00, 0x0c, 0x00, 5, 0, 0, 0] 0x2d82 =
      .cont ⟨[.token 0x2d82, .i32 5], 0, .key, []⟩ ∧ KeyInv [] 0 := by
  refine ⟨by decide, ⟨Nat.le_refl _, ?_⟩⟩
  intro x hx; simp at hx

/-- One iteration of the optimised loop is one or more iterations of the plain loop (or the same
rejection), from every state the plain loop can be in (`Good`: `KeyInv` generalised to all states). -/
theorem C03_iter_sim (F : Nat) (st : St) (hF : st.data.length ≤ F) (hg : st.Good) :
    match iter true F st with
    | .done => step st = .done
    | .next st' => Reach1 st st'
    | .err e => Rejects st e :=
  iter_true_sim F st hF hg

/-- **Fast paths are unobservable.**  For every byte string the optimised parser and the plain
one-token-at-a-time interpretation produce the same tape, or both reject — with the same error
kind (error positions are not modelled). -/
theorem C03_fast_eq_reference (data : Bytes) : parse true data = parse false data :=
  parse_true_eq_false data

example : parse true [0x82, 0x2d, 0x01, 0x00, 0x0c, 0x00, 5, 0, 0, 0] = .ok [.token 0x2d82, .i32 5] := by
  rfl

/-- **Containers are correctly delimited** (the clause C03 shares with C06): whenever either parser
accepts — on any input whatsoever — the tape is a sequence of complete items: every `Array`/`Object`
at index `i ≠ 0` carries the index `e > i` of its own `End`, which carries `i`, and containers are
properly nested (`WfBinTape`, Proofs/BinTapeItems.lean; proved through the parser invariant
`TInv`, Proofs/BinTapeInv.lean). -/
theorem C03_delimited (opt : Bool) (data : Bytes) (toks : Tape) (h : parse opt data = .ok toks) :
    WfBinTape toks :=
  C06_bin_inv opt data toks h

/-- the same in index form: on every accepted tape each container start at `i` (never 0) points to
a later `End` that points back, and each `End` points back to the container that points to it. -/
theorem C03_delimited_links (opt : Bool) (data : Bytes) (toks : Tape) (h : parse opt data = .ok toks) :
    (∀ i e, (toks[i]? = some (.array e) ∨ toks[i]? = some (.object e)) →
        i ≠ 0 ∧ e ≠ 0 ∧ i < e ∧ e < toks.length ∧ toks[e]? = some (.end_ i)) ∧
    (∀ j i, toks[j]? = some (.end_ i) →
        i ≠ 0 ∧ i < j ∧ (toks[i]? = some (.array j) ∨ toks[i]? = some (.object j))) :=
  C06_bin_links toks (C06_bin_inv opt data toks h)

example : ∃ toks, parse true [0x82, 0x2d, 0x01, 0x00, 0x03, 0x00, 0x0c, 0x00, 5, 0, 0, 0, 0x04, 0x00] = .ok toks ∧
    toks = [.token 0x2d82, .array 3, .i32 5, .end_ 1] := ⟨_, rfl, rfl⟩

/-- **Every input has a defined outcome**: both parsers return a tape, `eof` or `syntax` — never the
model's `ub` / `panic` / `fuel` outcomes (all unchecked accesses, the `transmute` and the
`mixed_insert` guards hold; the loops end within `|data| + 1` iterations). -/
theorem C03_total (opt : Bool) (data : Bytes) :
    (∃ toks, parse opt data = .ok toks) ∨ parse opt data = .error .eof ∨ parse opt data = .error .syntax := by
  have h1 := C05_bintape_no_ub_panic opt data
  have h2 := (C05_bintape_fuel_enough opt data).1
  cases h : parse opt data with
  | ok t => exact Or.inl ⟨t, rfl⟩
  | error e => cases e <;> simp_all

example : parse true [0x04, 0x00] = .error .syntax ∧ parse true [0x82] = .ok [] ∧
    parse true [0x82, 0x2d] = .error .eof := ⟨rfl, rfl, rfl⟩

/-- The hypothesis `Lexes data L` of the two theorems below is dischargeable and determines `L`: every byte
string (accepted or not) has exactly one lexeme list. -/
theorem C03_lexes_exists (data : Bytes) : (∃ L, Lexes data L) ∧ (∀ L1 L2, Lexes data L1 → Lexes data L2 → L1 = L2) :=
  ⟨lexes_exists data.length data (Nat.le_refl _), fun _ _ h1 h2 => h1.unique h2⟩

/-- **The tape mirrors the lexeme stream — for EVERY accepted byte string**, well-formed or a tolerated
malformation (`=` inside arrays, a key without a value before `}`, bare values at the root, stray
trailing byte, …), no document type involved.  `Lexes data L`: `L` is the lexeme list of the input
(`{`, `}`, `=`, scalars and ids with their decoded payloads, read one after the other).  `flat T`:
the tape with end pointers and `MixedContainer` markers dropped, container starts as `{`, `End` as `}`,
an `Rgb` token expanded to its block.  Then `flat T` is a sublist of `L`: every token of the tape is a
lexeme of the input, each input lexeme is used at most once, order and payloads are preserved.
What the tape leaves out is the `=` after a key, ghost `{}` objects in key position, and what the
only_empties rewrite discards (tape.rs:600-616: the empty containers, and — the pinned quirk — one odd
token); that nothing else is left out on well-formed streams is `C03_faithful`.  The end pointers are
`C03_delimited_links`. -/
theorem C03_tape_mirrors_lexemes (opt : Bool) (data : Bytes) (T : Tape) (h : parse opt data = .ok T)
    (L : List Lx) (hL : Lexes data L) : (flat T).Sublist L :=
  parse_mirror opt data T h L hL

/-- **The `debug_assert!(false, …)` arms of tape.rs are unreachable** (coverage: lines 249, 658-682).
For every input and every state `st` the plain loop reaches from the initial variables (the iteration
heads of the optimised loop are among them, `C03_iter_sim`):
* in `KeyValueSeparator` (`}` after a lone key → `mixed_insert1`) and in `ObjectToArray`
  (→ `mixed_insert2`) the tape holds the one / two tokens to be moved: the "empty token tape" arms
  (lines 658-682) cannot fire;
* in `OpenSecond` (`=` after the first scalar of a container) and in `ArrayValue` when the
  only_empties rewrite applies, the parent slot holds an `Array`: the "expected an array to be
  present" arm of `set_parent_to_object` (line 249) cannot fire;
* the two `set_parent_to_object` calls inside the key fast paths act on the `Array` pushed two
  tokens earlier;
and no run of either parser ends in the `ub` / `panic` outcome that models those arms. -/
theorem C03_debug_asserts_unreachable (data : Bytes) :
    (∀ st, Reach (init data) st →
      (st.state = .keyValueSeparator → ∃ t', mixedInsert1 st.tape = .ok t') ∧
      (st.state = .objectToArray → ∃ t', mixedInsert2 st.tape = .ok t') ∧
      (st.state = .openSecond → ∃ t', setParentToObject st.tape st.parent = .ok t') ∧
      (st.state = .arrayValue → ∀ t1 last, pop? st.tape = some (t1, last) → (∀ e, last ≠ .array e) →
        (∀ i, last ≠ .end_ i) → ∃ t', setParentToObject t1 st.parent = .ok t')) ∧
    (∀ (T : Tape) (p t : Nat),
      setParentToObject (T ++ [.array p] ++ [.token t]) T.length = .ok (T ++ [.object p] ++ [.token t])) ∧
    (∀ opt, parse opt data ≠ .error .ub ∧ parse opt data ≠ .error .panic) :=
  ⟨fun st h => debug_asserts_excluded (reach_inv h (init_inv data)), fast_setParent_ok,
    fun opt => C05_bintape_no_ub_panic opt data⟩

example : Reach (init [0x82, 0x2d, 0x11, 0x11]) ⟨[.token 0x2d82, .token 0x1111], 0, .objectToArray, []⟩ :=
  ⟨2, rfl⟩

/-- **What the tape leaves out, with its context — for every accepted byte string, the quirk included.**
`Moves false [] L (flat T) odds` (Spec/BinTapeLex.lean): starting from the empty tape with no value owed, reading
the lexeme list `L` of the input, the lexeme content of the tape evolves into `flat T` by a sequence of
`Move p A L1 B o q`s, one per loop iteration (`p`/`q`: is a value owed — has an `=` just been dropped — before /
after the move), and there are only four:
* `keep`       — all lexemes read (at least one) are appended to the tape content; the ONLY move possible while
                 a value is owed, so whatever follows a dropped `=` is recorded (an empty container in value
                 position is never taken for a ghost);
* `eqAfterKey` — no value owed; one `=` is read and not recorded, and the tape content ends with a key lexeme
                 `tok k`, `k.isKey` (a scalar or id — not `{`, `}`, `=`, not an rgb block); a value is owed next;
* `ghost`      — no value owed; an adjacent `{ }` pair is read and not recorded;
* `rewrite`    — (only_empties, tape.rs:600-616) no value owed; one `=` is read and not recorded while the tape
                 content ends with `{`, `n ≥ 1` empty containers `{ }`, at most one further tape token (`odd`,
                 the token `chunks_exact(2)` overlooks: a scalar, an id or an rgb block, `isVal` — never `{`,
                 `}` or `=`), and the KEY token `last`; the empty containers and `odd` are removed; a value is
                 owed next.
`odds` lists the `odd` chunk of every `rewrite`, so its length is the number of rewritten containers.

EXACT in: which lexemes can be dropped, what must stand before them on the tape, what `last` and `odd` are,
that nothing is dropped while a value is owed.  UPPER BOUND in (the lexeme content of a tape does not show these,
see `Move`): `eqAfterKey` / `ghost` are allowed wherever no value is owed (the parser does them only in key
position of an object or the root — states `KeyValueSeparator`/`OpenSecond`, resp. `Key` — not in an array and
not behind a `MixedContainer` marker).  The non-instances below (the reviewer's four among them) show what IS
refuted. -/
theorem C03_dropped_lexemes (opt : Bool) (data : Bytes) (T : Tape) (h : parse opt data = .ok T)
    (L : List Lx) (hL : Lexes data L) : ∃ odds, Moves false [] L (flat T) odds :=
  parse_moves opt data T h L hL

/-- **No scalar / id lexeme is dropped, except at most one tape token per only_empties-rewritten container.**
As multisets, the scalar / id lexemes of the input are those of the tape plus those of the `odd` chunks; there
is one chunk per rewrite move, and each chunk is empty or the lexemes of a single scalar / id / rgb tape token. -/
theorem C03_no_scalar_dropped (opt : Bool) (data : Bytes) (T : Tape) (h : parse opt data = .ok T)
    (L : List Lx) (hL : Lexes data L) :
    ∃ odds : List (List Lx), Moves false [] L (flat T) odds ∧
      (∀ o ∈ odds, o = [] ∨ ∃ y : BTok, o = flatten y ∧ y.isVal = true) ∧
      (L.filter Lx.isTok).Perm ((flat T).filter Lx.isTok ++ odds.flatten.filter Lx.isTok) := by
  obtain ⟨odds, hm⟩ := parse_moves opt data T h L hL
  exact ⟨odds, hm, hm.odds_shape, by simpa using hm.toks_perm⟩

/-- **A container in value position is never dropped** (consequence of the `owed` flag): if the tape of an
accepted input shows neither `{` nor `=`, the input has no `= {`. -/
theorem C03_value_container_kept (opt : Bool) (data : Bytes) (T : Tape) (h : parse opt data = .ok T)
    (L : List Lx) (hL : Lexes data L) (hO : Lx.open_ ∉ flat T) (hE : Lx.equal ∉ flat T) :
    ∀ L' L'', L ≠ L' ++ Lx.equal :: Lx.open_ :: L'' := by
  obtain ⟨odds, hm⟩ := parse_moves opt data T h L hL
  exact hm.eq_open_kept hO hE

/-- hypotheses satisfiable: `a = b` -/
example : parse true [0x11, 0x11, 1, 0, 0x22, 0x22] = .ok [.token 0x1111, .token 0x2222] ∧
    Lexes [0x11, 0x11, 1, 0, 0x22, 0x22] [.tok (.token 0x1111), .equal, .tok (.token 0x2222)] ∧
    Lx.open_ ∉ flat [.token 0x1111, .token 0x2222] ∧ Lx.equal ∉ flat [.token 0x1111, .token 0x2222] := by
  refine ⟨rfl, ?_, by decide, by decide⟩
  exact Lexes.cons (by rfl) (Lexes.cons (by rfl) (Lexes.cons (by rfl) (Lexes.done (by decide))))

/-- NON-instance: input `a = b` with tape content `[a]` (the scalar `b` silently dropped) is not explained by
any run of moves; the honest content `[a, b]` is -/
example :
    (¬ ∃ odds, Moves false [] [.tok (.token 1), .equal, .tok (.token 2)] [.tok (.token 1)] odds) ∧
    Moves false [] [.tok (.token 1), .equal, .tok (.token 2)] [.tok (.token 1), .tok (.token 2)] [] := by
  constructor
  · rintro ⟨odds, h⟩
    have h0 := h.no_open (by simp) (by simp)
    have hp := h.toks_perm
    rw [h0.1] at hp
    have := hp.length_eq
    simp [List.filter, Lx.isTok] at this
  · exact Moves.step (Move.keep false [] [.tok (.token 1)] (by simp)) (Moves.step (Move.eqAfterKey [] (.token 1) rfl)
      (Moves.step (Move.keep true _ [.tok (.token 2)] (by simp)) (Moves.nil _ _)))

/-- NON-instance (reviewer's A): `a = {} b = c` with content `[a, b, c]` — an empty container in VALUE position
dropped as if it were a ghost: refuted, while a value is owed only `keep` is possible -/
example : ¬ ∃ odds, Moves false [] [.tok (.token 1), .equal, .open_, .close, .tok (.token 2), .equal, .tok (.token 3)]
    [.tok (.token 1), .tok (.token 2), .tok (.token 3)] odds := by
  rintro ⟨odds, h⟩
  exact h.eq_open_kept (by simp) (by simp) [.tok (.token 1)] [.close, .tok (.token 2), .equal, .tok (.token 3)] rfl

/-- NON-instance (reviewer's B): `a = { {} } = b` with content `[a, {, }, b]` (a rewrite whose `last` would be the
`End` token): refuted, `last` must be a key token -/
example : ¬ ∃ odds, Moves false [] [.tok (.token 1), .equal, .open_, .open_, .close, .close, .equal, .tok (.token 2)]
    [.tok (.token 1), .open_, .close, .tok (.token 2)] odds := by
  rintro ⟨odds, h⟩
  rcases h.last_equal [.tok (.token 1), .equal, .open_, .open_, .close, .close] [.tok (.token 2)] rfl (by simp) (by simp)
    with h1 | ⟨C', k, _, h1⟩
  · simp at h1
  · have : C' ++ [Lx.tok k] ++ [.tok (.token 2)] = [.tok (.token 1), .open_] ++ [.close] ++ [.tok (.token 2)] := by
      simpa using h1.symm
    have h2 := List.append_inj_left' this rfl
    have h3 := List.append_inj_right' h2 rfl
    simp at h3

/-- NON-instance (reviewer's C): `{ {} = b }` with content `[{, b, }]` (a rewrite whose `last` would be the
`MixedContainer` marker, which has no content): refuted -/
example : ¬ ∃ odds, Moves false [] [.open_, .open_, .close, .equal, .tok (.token 2), .close]
    [.open_, .tok (.token 2), .close] odds := by
  rintro ⟨odds, h⟩
  rcases h.last_equal [.open_, .open_, .close] [.tok (.token 2), .close] rfl (by simp) (by simp)
    with h1 | ⟨C', k, _, h1⟩
  · simp at h1
  · have : C' ++ [Lx.tok k] ++ [.tok (.token 2), .close] = [] ++ [.open_] ++ [.tok (.token 2), .close] := by
      simpa using h1.symm
    have h2 := List.append_inj_left' this rfl
    have h3 := List.append_inj_right' h2 rfl
    simp at h3

/-- NON-instance (reviewer's D): `{ {} = a = b }` with content `[{, a, b, }]` (two `=` dropped by one rewrite, `odd`
being an `Equal` token): refuted, `odd` is never an `=` and the first `=` has no key before it -/
example : ¬ ∃ odds, Moves false [] [.open_, .open_, .close, .equal, .tok (.token 1), .equal, .tok (.token 2), .close]
    [.open_, .tok (.token 1), .tok (.token 2), .close] odds := by
  rintro ⟨odds, h⟩
  have := h.first_equal (by simp) [.open_, .open_, .close] [.tok (.token 1), .equal, .tok (.token 2), .close] rfl
    (by simp [Lx.isTok]) (by simp)
  simp at this

/-- **An `=` that is recorded stays recorded** (`Moves.equal_kept`: not even the only_empties rewrite removes
one), and an `=` can be dropped only behind a key: for an accepted input whose tape shows no `=`, the first `=`
of the input has a scalar / id lexeme before it. -/
theorem C03_equal_only_behind_key (opt : Bool) (data : Bytes) (T : Tape) (h : parse opt data = .ok T)
    (L : List Lx) (hL : Lexes data L) (hE : Lx.equal ∉ flat T) :
    ∀ L' R, L = L' ++ Lx.equal :: R → Lx.equal ∉ L' → ∃ x ∈ L', Lx.isTok x = true := by
  obtain ⟨odds, hm⟩ := parse_moves opt data T h L hL
  intro L' R he hn
  refine Classical.byContradiction fun hc => hE ?_
  refine hm.first_equal (by simp) L' R he (fun x hx => ?_) hn
  cases hx' : Lx.isTok x with
  | false => rfl
  | true => exact absurd ⟨x, hx, hx'⟩ hc

/-- hypotheses satisfiable: `a = b` -/
example : parse true [0x11, 0x11, 1, 0, 0x22, 0x22] = .ok [.token 0x1111, .token 0x2222] ∧
    Lx.equal ∉ flat [.token 0x1111, .token 0x2222] := ⟨rfl, by decide⟩

/-- (weak form, kept for reference: an interleaving with cause TAGS.  GAP: the tags carry no context and
`oddToken` admits any lexeme any number of times, so this statement alone follows from
`C03_tape_mirrors_lexemes`; use `C03_dropped_lexemes` / `C03_no_scalar_dropped`.) -/
theorem C03_dropped_lexemes_partial (opt : Bool) (data : Bytes) (T : Tape) (h : parse opt data = .ok T)
    (L : List Lx) (hL : Lexes data L) :
    ∃ D : List (Lx × DropKind), InterT (flat T) D L ∧ (∀ p ∈ D, DropOk p) ∧
      L.Perm (flat T ++ D.map Prod.fst) ∧ L.length = (flat T).length + D.length := by
  obtain ⟨D, hi, hd⟩ := parse_dropped opt data T h L hL
  refine ⟨D, hi, hd, hi.perm, ?_⟩
  have := hi.perm.length_eq
  simpa using this

/-- the quirk, accounted for: `k = { {} a b = c }` — `a` is on no tape, it is the `oddToken` -/
example :
    let data : Bytes := [0x82, 0x2d, 1, 0, 3, 0, 3, 0, 4, 0, 0x11, 0x11, 0x22, 0x22, 1, 0, 0x33, 0x33, 4, 0]
    parse true data = .ok [.token 0x2d82, .object 4, .token 0x2222, .token 0x3333, .end_ 1] ∧
    Lexes data [.tok (.token 0x2d82), .equal, .open_, .open_, .close, .tok (.token 0x1111), .tok (.token 0x2222),
      .equal, .tok (.token 0x3333), .close] ∧
    InterT (flat [.token 0x2d82, .object 4, .token 0x2222, .token 0x3333, .end_ 1])
      [(.equal, .eqAfterKey), (.open_, .emptyRun), (.close, .emptyRun), (.tok (.token 0x1111), .oddToken), (.equal, .eqAfterKey)]
      [.tok (.token 0x2d82), .equal, .open_, .open_, .close, .tok (.token 0x1111), .tok (.token 0x2222),
        .equal, .tok (.token 0x3333), .close] :=
  ⟨rfl, .cons rfl (.cons rfl (.cons rfl (.cons rfl (.cons rfl (.cons rfl (.cons rfl (.cons rfl (.cons rfl (.cons rfl (.done rfl)))))))))),
   .left _ (.right (_, _) (.left _ (.right (_, _) (.right (_, _) (.right (_, _) (.left _ (.right (_, _) (.left _ (.left _ .nil)))))))))⟩

/-- hypotheses satisfiable, on a tolerated malformation: `id = { I32 5 I32 6 = I32 7 }` (`=` inside an
array): the tape, its flattening, and the lexeme list of the input (here only the `=` after the key is
left out) -/
example :
    let data : Bytes := [0x82, 0x2d, 1, 0, 3, 0, 0x0c, 0, 5, 0, 0, 0, 0x0c, 0, 6, 0, 0, 0, 1, 0, 0x0c, 0, 7, 0, 0, 0, 4, 0]
    parse true data = .ok [.token 0x2d82, .array 7, .i32 5, .mixed, .i32 6, .equal, .i32 7, .end_ 1] ∧
    flat [.token 0x2d82, .array 7, .i32 5, .mixed, .i32 6, .equal, .i32 7, .end_ 1]
      = [.tok (.token 0x2d82), .open_, .tok (.i32 5), .tok (.i32 6), .equal, .tok (.i32 7), .close] ∧
    Lexes data [.tok (.token 0x2d82), .equal, .open_, .tok (.i32 5), .tok (.i32 6), .equal, .tok (.i32 7), .close] :=
  ⟨rfl, rfl, .cons rfl (.cons rfl (.cons rfl (.cons rfl (.cons rfl (.cons rfl (.cons rfl (.cons rfl (.done rfl))))))))⟩

/-- **Fresh or previously used tape — through the loop.**  `parseInto opt prev data` models
`parse_slice_into_tape(data, &mut tape)` on a vector `prev` that was used before: `VecS` is the
allocation with its stale contents plus the length; the vector is cleared, `Equal` is raw-written into
slot 0, and then THE LOOP RUNS ON THE VECTOR ITSELF (`runV`/`iterV`/`keyFastV`/`dispatchV`/…,
Model/BinTapeVec.lean — the whole parser re-stated against the vector primitives: bounds-checked
accesses see the view, `get_unchecked(_mut)` sees whatever the allocation holds, the raw writes of the
only_empties / mixed rewrite write into the allocation and `set_len`).  This is the function the driver
runs for `btreuse`.  The result is the one of a fresh tape, whatever `prev` holds (`prev.Wf`: its length
does not exceed its allocation).  Proof (Proofs/BinTapeReuse.lean): every vector primitive acts on the
view like the list operation; function by function the vector model is simulated by the list model
unless the latter answers `ub` (`run_simV`); and `ub` — an unchecked read outside the length, the only
way to observe stale memory — never occurs (`C05_bintape_no_ub_panic`). -/
theorem C03_reuse (opt : Bool) (prev : VecS) (hw : prev.Wf) (data : Bytes) :
    parseInto opt prev data = parse opt data ∧ parse opt data ≠ .error .ub :=
  ⟨parseInto_eq opt prev hw data, (C05_bintape_no_ub_panic opt data).1⟩

example : parseInto true ⟨[.token 1, .array 3, .end_ 1, .token 9], 3⟩ [0x82, 0x2d, 1, 0, 0x0c, 0, 5, 0, 0, 0]
    = .ok [.token 0x2d82, .i32 5] := rfl

/-- **The key kind is unobservable** (the dimension the seeded defect C06_r7_2 lived in).  For any two
well-formed scalar lexemes `k1`, `k2` — of any of the ten kinds: id, quoted, unquoted, i32, u32, i64, u64,
f32, f64, bool — and EVERY continuation `rest` (in particular `= { …`), the inputs `k1 rest` and `k2 rest`
are both rejected with the same error, or both accepted with tapes of the same length related by `RelT`:
at EVERY position the two tokens are equal, or the first is `k1.tok` and the second `k2.tok`.  NB what the
relation allows: it does not pin the swap to the key position or to one occurrence (the key can move — a
root that turns mixed gets a `MixedContainer` marker inserted in front of it — and can vanish as the odd
token of an only_empties rewrite); a token of `rest` that happens to equal `k1.tok` is matched by the same
token (both tapes come from the same `rest`), but `RelT` as a predicate would also admit the swapped pair there.  So the four key-kind fast paths of
the optimised parser (token id, quoted, i32, and "none" for the other kinds) are unobservable relative to
each other, not only relative to the reference; a container is typed and delimited the same way whatever
the kind of the key in front of it. -/
theorem C03_key_kinds_uniform (opt : Bool) (k1 k2 : Sc) (h1 : k1.wf = true) (h2 : k2.wf = true) (rest : Bytes) :
    (∀ e, parse opt (k1.encode ++ rest) = .error e → parse opt (k2.encode ++ rest) = .error e) ∧
    (∀ T1, parse opt (k1.encode ++ rest) = .ok T1 →
      ∃ T2, parse opt (k2.encode ++ rest) = .ok T2 ∧ RelT k1.tok k2.tok T1 T2) :=
  key_kinds_uniform opt k1 k2 h1 h2 rest

/-- the instance in the words of the defect: `"q" = { id id = id }` against `id = { id id = id }` -/
example :
    parse true ((Sc.quoted [0x71]).encode ++ [1, 0, 3, 0, 0x82, 0x2d, 0x82, 0x2d, 1, 0, 0x82, 0x2d, 4, 0])
      = .ok [.quoted [0x71], .array 7, .token 0x2d82, .mixed, .token 0x2d82, .equal, .token 0x2d82, .end_ 1] ∧
    parse true ((Sc.id 0x3001).encode ++ [1, 0, 3, 0, 0x82, 0x2d, 0x82, 0x2d, 1, 0, 0x82, 0x2d, 4, 0])
      = .ok [.token 0x3001, .array 7, .token 0x2d82, .mixed, .token 0x2d82, .equal, .token 0x2d82, .end_ 1] := ⟨rfl, rfl⟩

/-- Containers are classified correctly (shared with C06): on every accepted tape an `Object` is a sequence of
`key value` pairs up to its first `MixedContainer` marker (or its end), every key a plain token (`GSeq`). -/
theorem C03_object_pairs (opt : Bool) (data : Bytes) (toks : Tape) (h : parse opt data = .ok toks) : GSeq toks :=
  C06_bin_object_pairs opt data toks h

/-- Payloads (shared with C06): on every accepted tape each key / value token is the decoding of a
lexeme of the input — strings are slices of the input, numbers its little-endian bytes. -/
theorem C03_payloads (opt : Bool) (data : Bytes) (toks : Tape) (h : parse opt data = .ok toks) :
    ∀ x ∈ toks, x.isPlain = false ∨ x = .mixed ∨ ∃ off, off ≤ data.length ∧ LexTok (data.drop off) x :=
  C06_bin_payloads opt data toks h

/-- Truncation (shared with C19): the tape of an accepted prefix of the input is a prefix of the tape
of the whole input. -/
theorem C03_cut_prefix (opt : Bool) (data : Bytes) (k : Nat) (t' t : Tape)
    (h : parse opt (data.take k) = .ok t') (hfull : parse opt data = .ok t) : t.take t'.length = t' :=
  C19_bin_tape_prefix opt data k t' t h hfull

/-- **Faithfulness.**  For every well-formed document of the model `Spec/BinTapeDoc.lean` — keys and
values of all ten binary scalar types, objects and arrays nested to any depth, empty containers,
rgb blocks (one `Rgb` token directly after `key =`; elsewhere the marker as an id plus an array of
`U32`), ghost `{}` objects in front of any key, also directly after `{` (only not in front of the
very first key of the document, which both parsers reject) — and for every binary encoding of its
scalars, both parsers return exactly `tapeOfBin doc`: the document's keys and values with their
binary types and payloads, containers classified object / array and delimited by their `End`
indices, ghost objects dropped; object→array *mixed* containers `{ k = v …  s₁ s₂ … }` (fields, then
trailing scalars) are an `Object` with one `MixedContainer` marker in front of the first trailing
scalar.  (Hypothesis `wfDoc`: payload widths, string lengths < 2^16, ids that are not lexemes, a
mixed container has ≥ 1 field and ≥ 1 trailing scalar, no ghost before the first key of the
document.) -/
theorem C03_faithful (doc : Fields) (hw : doc.wfDoc = true) (opt : Bool) :
    parse opt doc.encode = .ok (tapeOfBin doc) := by
  cases opt
  · exact faithful_doc doc hw
  · rw [C03_fast_eq_reference]; exact faithful_doc doc hw

/-- hypotheses satisfiable, and what `tapeOfBin` looks like:
`id = { {} {} "a" = { I32 1 rgb{1 2 3} { } }  {} I32 5 = rgb{1 2 3 4} }  {} 11 = { }  100 = { 101 = yes 7 "b" 102 }` -/
example :
    let doc : Fields :=
      .cons 0 (.id 0x2d82) (.obj (.cons 2 (.quoted [97])
          (.arr (.cons (.sc (.i32 [1, 0, 0, 0])) (.cons (.rgb [1, 0, 0, 0] [2, 0, 0, 0] [3, 0, 0, 0] none) (.cons (.arr .nil) .nil))))
        (.cons 1 (.i32 [5, 0, 0, 0]) (.rgb [1, 0, 0, 0] [2, 0, 0, 0] [3, 0, 0, 0] (some [4, 0, 0, 0])) .nil)))
      (.cons 1 (.id 11) (.arr .nil)
        (.cons 0 (.id 100) (.mixed (.cons 0 (.id 101) (.sc (.bool 1)) .nil) [.i32 [7, 0, 0, 0], .quoted [98], .id 102]) .nil))
    doc.wfDoc = true ∧
    tapeOfBin doc = [.token 0x2d82, .object 16, .quoted [97], .array 13, .i32 1, .token 0x243, .array 10, .u32 1, .u32 2, .u32 3,
      .end_ 6, .array 12, .end_ 11, .end_ 3, .i32 5, .rgb 1 2 3 (some 4), .end_ 1, .token 11, .array 19, .end_ 18,
      .token 100, .object 28, .token 101, .bool true, .mixed, .i32 7, .quoted [98], .token 102, .end_ 21] := by decide

/-- Faithfulness on flat documents: for every document whose values are all scalars — keys and values
of any of the ten binary scalar types, any number of ghost `{}` objects in front of every key
but the first — the reference parser (hence, by `C03_fast_eq_reference`, the optimised one)
returns exactly the document's keys and values with their binary types and payloads, ghosts dropped. -/
theorem C03_faithful_partial (doc : Fields) (hflat : doc.flat = true) (hw : doc.wfDoc = true) (opt : Bool) :
    parse opt doc.encode = .ok (tapeOfBin doc) := by
  cases opt
  · exact faithful_flat doc hflat hw
  · rw [C03_fast_eq_reference]; exact faithful_flat doc hflat hw

/-- Faithfulness, fragment 1 (nested): keys and values of all ten scalar types, objects and arrays
nested to any depth, empty containers, rgb blocks as values, ghost `{}` objects in front of any key
that is not the first key of its object (`Fields.nest1`).  Both parsers return exactly
`tapeOfBin doc`: containers classified object / array, delimited, ghosts dropped. -/
theorem C03_faithful_nested_partial (doc : Fields) (hn : doc.nest1 = true) (hw : doc.wfDoc = true) (opt : Bool) :
    parse opt doc.encode = .ok (tapeOfBin doc) := by
  cases opt
  · exact faithful_nest1 doc hn hw
  · rw [C03_fast_eq_reference]; exact faithful_nest1 doc hn hw

/-- hypotheses satisfiable: `id = { "a" = { I32 1 { } }  {} I32 5 = rgb{1 2 3 4} }  {} 11 = { }` -/
example :
    let doc : Fields :=
      .cons 0 (.id 0x2d82) (.obj (.cons 0 (.quoted [97]) (.arr (.cons (.sc (.i32 [1, 0, 0, 0])) (.cons (.arr .nil) .nil)))
        (.cons 2 (.i32 [5, 0, 0, 0]) (.rgb [1, 0, 0, 0] [2, 0, 0, 0] [3, 0, 0, 0] (some [4, 0, 0, 0])) .nil)))
      (.cons 1 (.id 11) (.arr .nil) .nil)
    doc.nest1 = true ∧ doc.wfDoc = true := by decide

/-- hypotheses satisfiable: `id = I32 5  {} "a" = U64 7` -/
example : (Fields.cons 0 (.id 0x2d82) (.sc (.i32 [5, 0, 0, 0]))
    (.cons 1 (.quoted [97]) (.sc (.u64 [7, 0, 0, 0, 0, 0, 0, 0])) .nil)).flat = true ∧
    (Fields.cons 0 (.id 0x2d82) (.sc (.i32 [5, 0, 0, 0]))
    (.cons 1 (.quoted [97]) (.sc (.u64 [7, 0, 0, 0, 0, 0, 0, 0])) .nil)).wfDoc = true := by decide

/-- the full statement holds on a nested witness (object with ghost, array, rgb in both positions,
empty containers): evaluated, not proved in general -/
example :
    let doc : Fields :=
      .cons 0 (.id 0x2d82) (.obj (.cons 0 (.quoted [97]) (.arr (.cons (.sc (.i32 [1, 0, 0, 0]))
          (.cons (.rgb [1, 0, 0, 0] [2, 0, 0, 0] [3, 0, 0, 0] none) .nil)))
        (.cons 2 (.i32 [5, 0, 0, 0]) (.rgb [1, 0, 0, 0] [2, 0, 0, 0] [3, 0, 0, 0] (some [4, 0, 0, 0])) .nil)))
      (.cons 1 (.id 11) (.arr .nil) (.cons 0 (.unquoted [98, 99]) (.obj .nil) .nil))
    parse false doc.encode = .ok (tapeOfBin doc) ∧ parse true doc.encode = .ok (tapeOfBin doc) := by
  exact ⟨rfl, rfl⟩

end Jomini.Props.C03
