import JominiModel.Model.Writer
import JominiModel.Spec.Writer
import JominiModel.Proofs.Writer
/-
C14 — Writing a parsed tape and re-parsing reproduces the same structure; writing is idempotent.
Only property theorems live here; helper lemmas are in `Proofs/Writer.lean`.

Clauses and where they are decided
  * every indent configuration, nesting past the 16-byte cache .. C14_indent (all depths, factors, bytes)
  * writing depends on the tape only modulo offsets ............. C14_offsets_irrelevant
  * write-after-parse is a fixed point .......................... C14_idempotent (relative to the round trip)
  * parse (write (parse x)) ≃ parse x ........................... growth theorem C14_roundtrip, NOT proved
    (needs the tape parser model of the text-tape slice); decided on the implementation by the L3
    oracle of harness/src/props/c14.rs under all 20 indent configurations
-/
namespace Jomini.Props.C14
open Jomini Jomini.Writer Jomini.Writer.Spec

/-- `write_indent` writes exactly `depth × indent_factor` copies of `indent_char` and touches
nothing else, for every depth, factor and indent byte: the 16-byte cache (`indents.get(..n)`,
taken when `n ≤ 16`) and the byte-at-a-time slow path agree. -/
theorem C14_indent (s : State) :
    writeIndent s =
      { s with out := s.out ++ List.replicate (s.depth.length * s.indentFactor) s.indentChar } ∧
    (∀ n, n ≤ 16 → (List.replicate 16 s.indentChar).take n = List.replicate n s.indentChar) ∧
    (∀ n, slowIndent n s = { s with out := s.out ++ List.replicate n s.indentChar }) := by
  refine ⟨writeIndent_eq s, ?_, fun n => slowIndent_eq n s⟩
  intro n hn
  rw [List.take_replicate, Nat.min_eq_left hn]

/-- depth 9 × factor 2 = 18 > 16 takes the slow path, depth 8 × factor 2 the cache -/
example :
    (writeIndent { State.init 9 2 with depth := List.replicate 9 .object }).out = List.replicate 18 9 ∧
    (writeIndent { State.init 32 2 with depth := List.replicate 8 .array }).out = List.replicate 16 32 := by
  constructor <;> decide +kernel

/-- `write_tape` looks at the tokens only: two tapes that differ in nothing but the positions
of their scalars in the parsed input are written identically (in the model this holds by
construction: `Tok` carries the scalar bytes, not a position). -/
theorem C14_offsets_irrelevant (t₁ t₂ : List PTok) (s : State) (h : erasePos t₁ = erasePos t₂) :
    writeTapeP t₁ s = writeTapeP t₂ s := by
  unfold writeTapeP; rw [h]

example : erasePos [⟨.unquoted [97], 0, 1⟩, ⟨.unquoted [98], 2, 1⟩] = erasePos [⟨.unquoted [97], 7, 1⟩, ⟨.unquoted [98], 40, 1⟩] := by
  rfl

/-- Idempotence from the round trip: whatever the parser is, if the text written for a tape
parses back to that tape modulo offsets, then writing the re-parsed tape produces exactly the same
text again (a fixed point of write-after-parse), under the same indent configuration. -/
theorem C14_idempotent (parse : Bytes → Option (List PTok)) (t t' : List PTok) (s₀ s₁ : State)
    (hw : writeTapeP t s₀ = .ok s₁) (_hp : parse s₁.out = some t') (hrt : erasePos t' = erasePos t) :
    writeTapeP t' s₀ = .ok s₁ := by
  rw [C14_offsets_irrelevant t' t s₀ hrt]; exact hw

/-- the writer's own doc example `hello=world`, and a nested container under tab × 1 -/
example :
    (writeTape [.unquoted [104, 101, 108, 108, 111], .unquoted [119, 111, 114, 108, 100]] (State.init 32 2)).toOption.map (·.out)
      = some [104, 101, 108, 108, 111, 61, 119, 111, 114, 108, 100] ∧
    (writeTape [.unquoted [97], .array 3 false, .unquoted [49], .end 1] (State.init 9 1)).toOption.map (·.out)
      = some [97, 61, 123, 10, 9, 49, 10, 125] := by
  constructor <;> decide +kernel

/-
Growth theorem, NOT proved (full statement kept):

  theorem C14_roundtrip (doc : Doc) (h : RoundTrippable doc) (layout : Layout) (c : UInt8) (f : Nat)
      (hc : c = 32 ∨ c = 9) (hf : f ≤ 9) :
      ∃ s, writeTape (tapeOf doc) (State.init c f) = .ok s ∧
           (TextTape.parse s.out).map erasePos = some (tapeOf doc)

  (same keys, operators, scalars, quoting and nesting; offsets ignored) where `tapeOf` is the
  tape of the document under any layout (C01_faithful) and `RoundTrippable` excludes objects that
  continue as a bare value list and headers with an empty body.  Missing: the tape parser model
  (text-tape slice).  Until then the clause is decided on the real code by the L3 oracle
  (`roundtrip`, `roundtrip-indent-config`, `roundtrip-output-does-not-parse`, `idempotent`).

  The oracle currently finds two genuine violations inside the intended subset (kept out of the
  `rt` stream, reported with witnesses):
    * a scalar-valued parameter block followed by another field (`a={ [[p] v ] x=y }`),
    * an object with non-`=` operators nested in an array that turned into a key-value list
      (`a={ 1 k={ b>c } }` is written as `b>=c`).
-/

end Jomini.Props.C14
