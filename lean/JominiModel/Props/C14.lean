import JominiModel.Model.Writer
import JominiModel.Spec.Writer
import JominiModel.Proofs.Writer
import JominiModel.Spec.WriterFlat
import JominiModel.Proofs.WriterFlat
import JominiModel.Proofs.WriterTape
import JominiModel.Proofs.TextTapeFaithful3
import JominiModel.Proofs.WriterArraysTape
import JominiModel.Proofs.WriterGenTape
import JominiModel.Proofs.WriterJ
import JominiModel.Proofs.WriterFullWalk
import JominiModel.Proofs.WriterFullParse
import JominiModel.Proofs.WriterSinkTape
import JominiModel.Proofs.WriterExamples
/-
C14 — Writing a parsed tape and re-parsing reproduces the same structure; writing is idempotent.
Only property theorems live here; helper lemmas are in `Proofs/Writer*.lean`, the exclusion predicate
`FPlainF` in `Spec/WriterFull.lean`.

Clauses and where they are decided
  * every indent configuration, nesting past the 16-byte cache .. C14_indent (all depths, factors, bytes)
  * writing depends on the tape only modulo offsets ............. C14_offsets_irrelevant (true by construction
    of the model — its tokens carry no offsets; tied to the code by the `wtape` correspondence only)
  * parse (write (parse x)) ≃ parse x, and write-after-parse is a fixed point:
      C14_roundtrip_full — every document of the text-tape slice's full document type `FFields` (objects,
      arrays, headers, parameter blocks, arrays that turn into key-value lists, …) under every valid layout and
      indent configuration, end to end through the text-tape parser model, outside eight exclusions
      (five recorded findings, one shape outside the property's quantifier, three further recorded findings);
      C14_nested_roundtrip (`JFields`), C14_roundtrip_flat / _nested / _arrays / _containers are earlier
      instances; C14_idempotent is the abstract step from the round trip to idempotence
  * the recorded findings on the models ......................... C14_known_* (four negative theorems)
  * I/O errors of the sink ...................................... C14_failing_sink
  * tie to the real code: differential run `wtape` / `wtapew`, and the L3 round-trip oracle of
    harness/src/props/c14.rs under all 20 indent configurations (known findings under their own kinds)
-/
namespace Jomini.Props.C14
open Jomini Jomini.Writer Jomini.Writer.Spec

/-- `write_indent` writes exactly `depth × indent_factor` copies of `indent_char` and touches
nothing else, for every depth, factor and indent byte: the 16-byte cache (`indents.get(..n)`,
taken when `n ≤ 16`) and the byte-at-a-time slow path agree. -/
theorem C14_indent (s : State) :
    writeIndent s =
      { s with out := s.out ++ List.replicate (s.depth.length * s.indentFactor) s.indentChar } ∧
    (∀ n, n ≤ 16 → (List.replicate 16 s.indentChar).take n = List.replicate n s.indentChar) ∧
    (∀ n, slowIndent n s = { s with out := s.out ++ List.replicate n s.indentChar }) := by
  refine ⟨writeIndent_eq s, ?_, fun n => slowIndent_eq n s⟩
  intro n hn
  rw [List.take_replicate, Nat.min_eq_left hn]

/-- depth 9 × factor 2 = 18 > 16 takes the slow path, depth 8 × factor 2 the cache -/
example :
    (writeIndent { State.init 9 2 with depth := List.replicate 9 .object }).out = List.replicate 18 9 ∧
    (writeIndent { State.init 32 2 with depth := List.replicate 8 .array }).out = List.replicate 16 32 := by
  constructor <;> decide +kernel

/-- `write_tape` looks at the tokens only: two tapes that differ in nothing but the positions
of their scalars in the parsed input are written identically.  TRUE BY DEFINITION OF THE MODEL: `writeTapeP := writeTape ∘ erasePos` and `Tok`
carries the scalar bytes, not a position, so this theorem says nothing about the code by itself; that the
real `write_tape` ignores offsets is carried by the `wtape` correspondence (same tape under many layouts,
hence many offsets, one model answer). -/
theorem C14_offsets_irrelevant (t₁ t₂ : List PTok) (s : State) (h : erasePos t₁ = erasePos t₂) :
    writeTapeP t₁ s = writeTapeP t₂ s := by
  unfold writeTapeP; rw [h]

example : erasePos [⟨.unquoted [97], 0, 1⟩, ⟨.unquoted [98], 2, 1⟩] = erasePos [⟨.unquoted [97], 7, 1⟩, ⟨.unquoted [98], 40, 1⟩] := by
  rfl

/-- Idempotence from the round trip: whatever the parser is, if the text written for a tape
parses back to that tape modulo offsets, then writing the re-parsed tape produces exactly the same
text again (a fixed point of write-after-parse), under the same indent configuration.  This is the
ABSTRACT step only: the `parse` argument is unused (any function would do) and the content is
`C14_offsets_irrelevant`, i.e. a property of the model's definition.  The idempotence statement with the
real parser model is the last conjunct of `C14_roundtrip_full` / `C14_nested_roundtrip`. -/
theorem C14_idempotent (parse : Bytes → Option (List PTok)) (t t' : List PTok) (s₀ s₁ : State)
    (hw : writeTapeP t s₀ = .ok s₁) (_hp : parse s₁.out = some t') (hrt : erasePos t' = erasePos t) :
    writeTapeP t' s₀ = .ok s₁ := by
  rw [C14_offsets_irrelevant t' t s₀ hrt]; exact hw

/-- the writer's own doc example `hello=world`, and a nested container under tab × 1 -/
example :
    (writeTape [.unquoted [104, 101, 108, 108, 111], .unquoted [119, 111, 114, 108, 100]] (State.init 32 2)).toOption.map (·.out)
      = some [104, 101, 108, 108, 111, 61, 119, 111, 114, 108, 100] ∧
    (writeTape [.unquoted [97], .array 3 false, .unquoted [49], .end 1] (State.init 9 1)).toOption.map (·.out)
      = some [97, 61, 123, 10, 9, 49, 10, 125] := by
  constructor <;> decide +kernel

/-- what `write_tape` writes for the tape of a flat document (root-level `key op value` fields,
quoted and unquoted scalars, any operator), under EVERY indent configuration: one
`key<sep>value` line per field, `=` glued, other operators with one space on both sides. -/
theorem C14_write_flat (doc : List FItem) (c : UInt8) (f : Nat) :
    ∃ s, writeTape (tapeOfFlat doc) (State.init c f) = .ok s ∧ s.out = flatOut doc true :=
  writeTape_flat doc c f

/-- `C14_roundtrip` for flat documents, end to end through the two models (tape parser model of the
text-tape slice → `writeTape` → tape parser model): take any flat document under any valid
layout (`ValidFlat`: arbitrary blanks and comments in every gap, all eight operators, quoted
scalars with escapes, unquoted scalars), parse it, write the tape under any indent byte and
factor, parse what was written: the second tape equals the first modulo the positions of the
scalars (same keys, operators, scalar bytes, quotedness, order).
`hb'`: the written text must not begin with the three BOM bytes — i.e. the first key is not an
unquoted scalar starting with EF BB BF (such a key survives the first parse only when blanks
precede it; written first in the file it is taken for a BOM: ` \xEF\xBB\xBFa=b` is a real,
if exotic, input that does not round-trip). -/
theorem C14_roundtrip_flat (fs : List TextTape.LField) (gt : Bytes) (c : UInt8) (f : Nat)
    (hv : TextTape.ValidFlat fs gt) (hb : TextTape.hasBom (TextTape.renderFlat fs gt) = false)
    (hb' : TextTape.hasBom (flatOut (fs.map fun l => ⟨l.key, l.op, l.val⟩) true) = false) :
    ∃ T₀ s T, TextTape.parse (TextTape.renderFlat fs gt) = .ok T₀ false ∧
      writeTape (T₀.map ofTT) (State.init c f) = .ok s ∧
      TextTape.parse s.out = .ok T false ∧
      T.map TextTape.Tok.erase = T₀.map TextTape.Tok.erase := by
  obtain ⟨T₀, hp0, he0⟩ := TextTape.faithful_flat fs gt hv hb
  let doc : List FItem := fs.map fun l => ⟨l.key, l.op, l.val⟩
  have hdoc : doc.map FItem.content = fs.map TextTape.LField.content := by
    simp [doc, List.map_map, Function.comp_def, FItem.content, TextTape.LField.content]
  have htape : T₀.map ofTT = tapeOfFlat doc := by
    rw [← map_ofTT_erase, he0, tapeOfFlat, hdoc]
  have hvalid : ∀ it ∈ doc, it.key.Valid ∧ it.val.Valid := by
    have key : ∀ (fs : List TextTape.LField) (gt : Bytes), TextTape.ValidFlat fs gt →
        ∀ l ∈ fs, l.key.Valid ∧ l.val.Valid := by
      intro fs
      induction fs with
      | nil => intro _ _ l hl; simp at hl
      | cons a r ih =>
        intro gt h l hl
        obtain ⟨_, _, _, hk, hvl, _, _, hr⟩ := h
        rcases List.mem_cons.1 hl with rfl | hl
        · exact ⟨hk, hvl⟩
        · exact ih gt hr l hl
    intro it hit
    obtain ⟨l, hl, rfl⟩ := List.mem_map.1 hit
    exact key fs gt hv l hl
  obtain ⟨s, hw, hout⟩ := writeTape_flat doc c f
  obtain ⟨T, hp, he⟩ := parse_flatOut doc hvalid hb'
  refine ⟨T₀, s, T, hp0, by rw [htape]; exact hw, by rw [hout]; exact hp, ?_⟩
  rw [he, he0, hdoc]

/-- and the fixed point for flat documents: writing the re-parsed tape gives the same bytes -/
theorem C14_idempotent_flat (fs : List TextTape.LField) (gt : Bytes) (c : UInt8) (f : Nat)
    (hv : TextTape.ValidFlat fs gt) (hb : TextTape.hasBom (TextTape.renderFlat fs gt) = false)
    (hb' : TextTape.hasBom (flatOut (fs.map fun l => ⟨l.key, l.op, l.val⟩) true) = false) :
    ∃ T₀ s T, TextTape.parse (TextTape.renderFlat fs gt) = .ok T₀ false ∧
      writeTape (T₀.map ofTT) (State.init c f) = .ok s ∧
      TextTape.parse s.out = .ok T false ∧
      writeTape (T.map ofTT) (State.init c f) = .ok s := by
  obtain ⟨T₀, s, T, h0, hw, hp, he⟩ := C14_roundtrip_flat fs gt c f hv hb hb'
  refine ⟨T₀, s, T, h0, hw, hp, ?_⟩
  rw [← map_ofTT_erase, he, map_ofTT_erase]; exact hw

/-- `a ?= "b\"c"` with a comment in a gap (the text-tape slice's example document), written with
tab × 3: hypotheses hold; the round trip computed by the two models -/
example : ∃ T₀ s T, TextTape.parse (TextTape.renderFlat TextTape.exampleFlat [10]) = .ok T₀ false ∧
    writeTape (T₀.map ofTT) (State.init 9 3) = .ok s ∧ TextTape.parse s.out = .ok T false ∧
    T.map TextTape.Tok.erase = T₀.map TextTape.Tok.erase :=
  C14_roundtrip_flat _ _ 9 3 TextTape.exampleFlat_valid.1 TextTape.exampleFlat_valid.2 (by decide +kernel)

/-- what `write_tape` writes for the tape of a document of nested objects (scalar leaves, any
operators, any depth), under every indent byte and factor: exactly the calls of the document, hence
exactly `textRoot` -/
theorem C14_write_nested (fs : NFields) (hcanon : CanonF fs) (c : UInt8) (f : Nat) :
    ∃ s, writeTape ((etoksF 0 fs).map ofTT) (State.init c f) = .ok s ∧ s.out = textRoot c f fs :=
  ⟨_, writeTape_nested fs hcanon c f, lexemes_nested fs c f⟩

/-- `C14_roundtrip` for nested objects, end to end through the two models: take a document of
fields whose values are scalars or non-empty objects nested to any depth (`fs`, in the canonical
form a tape gives rise to: no explicit `=` operator), under ANY valid layout `jfs` of the text-tape
slice's fragment 3 (arbitrary blanks and comments in every gap, optional `=` before `{`, ghost
`{}`); parse it, write the tape under any indent factor and any indent byte the parser treats as
blank, parse what was written: the second tape equals the first modulo the positions of the
scalars — same keys, operators, scalar bytes, quotedness, `Object{end}` / `End` links.
`hvalid`: the document's scalars are scalars of the format (they are, in any valid layout);
`hb'`: the written text does not begin with the three BOM bytes (known finding `roundtrip-bom-key`). -/
theorem C14_roundtrip_nested (jfs : TextTape.JFields) (gt : Bytes) (fs : NFields) (c : UInt8) (f : Nat)
    (hc : TextTape.isBlank c = true) (hgt : TextTape.Blank gt) (hv : TextTape.JValidF jfs gt)
    (hb : TextTape.hasBom (TextTape.jrenderF jfs ++ gt) = false)
    (hcontent : TextTape.kcontentF jfs = kOfF fs) (hcanon : CanonF fs) (hvalid : Writer.Spec.ValidF fs)
    (hb' : TextTape.hasBom (textRoot c f fs) = false) :
    ∃ T₀ s T, TextTape.parse (TextTape.jrenderF jfs ++ gt) = .ok T₀ false ∧
      writeTape (T₀.map ofTT) (State.init c f) = .ok s ∧
      TextTape.parse s.out = .ok T false ∧
      T.map TextTape.Tok.erase = T₀.map TextTape.Tok.erase := by
  obtain ⟨T₀, hp0, he0⟩ := TextTape.faithful_tree jfs gt hgt hv hb
  have hT0 : T₀.map TextTape.Tok.erase = etoksF 0 fs := by rw [he0, hcontent, etoksF_eq]
  have htape : T₀.map ofTT = (etoksF 0 fs).map ofTT := by rw [← map_ofTT_erase, hT0]
  obtain ⟨s, hw, hout⟩ := C14_write_nested fs hcanon c f
  obtain ⟨T, hp, he⟩ := WriterParse.parse_textRoot c f hc fs hvalid hb'
  exact ⟨T₀, s, T, hp0, by rw [htape]; exact hw, by rw [hout]; exact hp, by rw [he, hT0]⟩

/-- `a={b=c}` + newline, written with space × 3: the hypotheses are satisfiable -/
example : ∃ T₀ s T, TextTape.parse (TextTape.jrenderF
      (.cons [] ⟨false, [97]⟩ [] .eq (.obj [] [] ⟨false, [98]⟩ [] .eq (.scal [] ⟨false, [99]⟩) .nil []) .nil) ++ [10])
        = .ok T₀ false ∧
    writeTape (T₀.map ofTT) (State.init 32 3) = .ok s ∧ TextTape.parse s.out = .ok T false ∧
    T.map TextTape.Tok.erase = T₀.map TextTape.Tok.erase := by
  have va : (⟨false, [97]⟩ : TextTape.Scal).Valid := valid_of_safe _ (by simp) (by decide +kernel)
  have vb : (⟨false, [98]⟩ : TextTape.Scal).Valid := valid_of_safe _ (by simp) (by decide +kernel)
  have vc : (⟨false, [99]⟩ : TextTape.Scal).Valid := valid_of_safe _ (by simp) (by decide +kernel)
  refine C14_roundtrip_nested _ [10]
    (.cons (.raw ⟨false, [97]⟩) none (.obj (.raw ⟨false, [98]⟩) none (.scal (.raw ⟨false, [99]⟩)) .nil) .nil)
    32 3 (by decide +kernel) blank_nl ?_ (by decide +kernel) rfl ?_ ?_ (by decide +kernel)
  · refine ⟨.nil, .nil, Or.inl va, fun _ => .inr ⟨61, [], rfl, TextTape.bnd_eq⟩, ?_, trivial⟩
    refine ⟨.nil, .nil, .nil, .nil, Or.inl vb, fun _ => .inr ⟨61, [], rfl, TextTape.bnd_eq⟩, ?_, trivial⟩
    exact ⟨.nil, Or.inl vc, fun _ => .inr ⟨125, _, rfl, TextTape.bnd_close⟩⟩
  · simp [CanonF, CanonV]
  · exact ⟨va, ⟨vb, vc, trivial⟩, trivial⟩

/-- `C14_roundtrip` for root-level arrays of scalars and empty containers: a document of fields
whose values are scalars, non-empty arrays of scalars or empty containers (`fs`, in the form a tape
gives rise to), under ANY valid fragment-3 layout `jfs`; parse, write under any indent factor and
blank indent byte, parse again: same tape modulo positions (keys, operators, scalars,
`Array{end}` / `End` links).  `write_tape` writes an empty container as `{ }` and an array with
its elements on one indented line. -/
theorem C14_roundtrip_arrays (jfs : TextTape.JFields) (gt : Bytes) (fs : List AField) (c : UInt8) (f : Nat)
    (hc : TextTape.isBlank c = true) (hgt : TextTape.Blank gt) (hv : TextTape.JValidF jfs gt)
    (hb : TextTape.hasBom (TextTape.jrenderF jfs ++ gt) = false)
    (hcontent : TextTape.kcontentF jfs = acontent fs) (hcanon : ∀ x ∈ fs, x.Canon)
    (hvalid : ∀ x ∈ fs, x.key.Valid ∧ x.val.Valid)
    (hb' : TextTape.hasBom (atext c f fs true) = false) :
    ∃ T₀ s T, TextTape.parse (TextTape.jrenderF jfs ++ gt) = .ok T₀ false ∧
      writeTape (T₀.map ofTT) (State.init c f) = .ok s ∧
      TextTape.parse s.out = .ok T false ∧
      T.map TextTape.Tok.erase = T₀.map TextTape.Tok.erase := by
  obtain ⟨T₀, hp0, he0⟩ := TextTape.faithful_tree jfs gt hgt hv hb
  have htape : T₀.map ofTT = wtAF 0 fs := by rw [← map_ofTT_erase, he0, hcontent, wtAF_eq]
  have hw := writeTape_arrays fs hcanon c f
  have hout := lexemes_arrays fs c f
  have hvj : TextTape.JValidF (WriterParse.alayout c f fs true) [] := by
    apply WriterParse.valid_alayout c f hc fs true
    intro x hx
    obtain ⟨hk, hval⟩ := hvalid x hx
    refine ⟨scall_valid _ hk, ?_, ?_⟩
    · intro s hs; rw [hs] at hval; exact scall_valid _ hval
    · intro u a rest hs
      rw [hs] at hval
      exact ⟨scall_valid _ hval.1, fun e he => scall_valid _ (hval.2 e he)⟩
  have hr := WriterParse.jrenderF_alayout c f fs true
  obtain ⟨T, hp, he⟩ := TextTape.faithful_tree (WriterParse.alayout c f fs true) [] .nil hvj
    (by rw [List.append_nil, hr]; exact hb')
  simp only [List.append_nil] at hp
  rw [hr] at hp
  rw [WriterParse.kcontentF_alayout] at he
  exact ⟨T₀, _, T, hp0, by rw [htape]; exact hw, by rw [hout]; exact hp, by rw [he, he0, hcontent]⟩

/-- `C14_roundtrip` for the general container fragment: a document of fields whose values are
scalars, empty containers, objects, arrays of scalars, arrays of containers, and containers with a
header (`rgb { … }`, `hsv { … }`, `LIST { … }`), nested to any depth (`fs`, in the form a tape gives
rise to), under ANY valid fragment-3 layout `jfs` of the text-tape slice; parse it, write the tape
under any indent factor and blank indent byte, parse what was written: the second tape equals the
first modulo the positions of the scalars — keys, operators, scalars, quotedness, `Object` /
`Array` / `End` links, `Header` tokens.  `write_tape` performs exactly the calls of the document
(`writeTape_gen`), so the text is `gtextRoot`.
`hgood`: the scalars are scalars of the format; an object does not begin with a header field (not in
the parser slice's layout model); array-first containers and header bodies are non-empty.
`hb'`: the written text does not begin with the BOM bytes (known finding `roundtrip-bom-key`). -/
theorem C14_roundtrip_containers (jfs : TextTape.JFields) (gt : Bytes) (fs : GFields) (c : UInt8) (f : Nat)
    (hc : TextTape.isBlank c = true) (hgt : TextTape.Blank gt) (hv : TextTape.JValidF jfs gt)
    (hb : TextTape.hasBom (TextTape.jrenderF jfs ++ gt) = false)
    (hcontent : TextTape.kcontentF jfs = gcontentF fs) (hcanon : fs.Canon) (hgood : fs.Good)
    (hb' : TextTape.hasBom (gtextRoot c f fs) = false) :
    ∃ T₀ s T, TextTape.parse (TextTape.jrenderF jfs ++ gt) = .ok T₀ false ∧
      writeTape (T₀.map ofTT) (State.init c f) = .ok s ∧
      TextTape.parse s.out = .ok T false ∧
      T.map TextTape.Tok.erase = T₀.map TextTape.Tok.erase := by
  obtain ⟨T₀, hp0, he0⟩ := TextTape.faithful_tree jfs gt hgt hv hb
  have htape : T₀.map ofTT = wgF 0 fs := by rw [← map_ofTT_erase, he0, hcontent, wgF_eq]
  have hw := writeTape_gen fs hcanon c f
  have hout := lexemes_gen fs (opened_of_canonF fs hcanon hgood) c f
  obtain ⟨T, hp, he⟩ := WriterParse.parse_gtextRoot c f hc fs hgood hb'
  exact ⟨T₀, _, T, hp0, by rw [htape]; exact hw, by rw [hout]; exact hp, by rw [he, he0, hcontent]⟩

/-- Known finding `roundtrip-param-scalar`, on the models: `a={ [[p] v ] x=y }` (a scalar-valued
parameter block followed by a field) parses to `a, Object{6}, Parameter(p), v, x, y, End`; `writeTape`
(space × 2) writes `a={⏎  [[p]⏎  v]=x⏎  y⏎}` — the value's epilogue left the machine waiting for a
`=`, which lands in front of the next key —, and that text parses to a DIFFERENT tape: a mixed
object with the stray `=` as a scalar.  The model reproduces the implementation's behaviour (the
correspondence check agrees on it); this is the negative counterpart of `C14_roundtrip`. 
The input is the document `WriterExamples.kParamScalar : FFields` (4th conjunct), and that document is NOT
`FPlainF` (5th: the `paramVal` conjunct `fcntF rest = 0` fails) — it sits in the set `C14_roundtrip_full` excludes,
and the two tapes above differ, so the exclusion is needed. -/
theorem C14_known_param_scalar_breaks :
    TextTape.parse [97, 61, 123, 32, 91, 91, 112, 93, 32, 118, 32, 93, 32, 120, 61, 121, 32, 125] =
      .ok [.unquoted ⟨18, [97]⟩, .object 6 false, .parameter ⟨12, [112]⟩, .unquoted ⟨9, [118]⟩,
           .unquoted ⟨5, [120]⟩, .unquoted ⟨3, [121]⟩, .endTok 1] false ∧
    (writeTape [.unquoted [97], .object 6 false, .parameter [112], .unquoted [118], .unquoted [120],
        .unquoted [121], .end 1] (State.init 32 2)).toOption.map (·.out) =
      some [97, 61, 123, 10, 32, 32, 91, 91, 112, 93, 10, 32, 32, 118, 93, 61, 120, 10, 32, 32, 121, 10, 125] ∧
    TextTape.parse [97, 61, 123, 10, 32, 32, 91, 91, 112, 93, 10, 32, 32, 118, 93, 61, 120, 10, 32, 32, 121, 10, 125] =
      .ok [.unquoted ⟨23, [97]⟩, .object 8 true, .parameter ⟨15, [112]⟩, .unquoted ⟨10, [118]⟩, .mixedContainer,
           .unquoted ⟨8, [61]⟩, .unquoted ⟨7, [120]⟩, .unquoted ⟨3, [121]⟩, .endTok 1] false ∧
    TextTape.frenderF WriterExamples.kParamScalar = [97, 61, 123, 32, 91, 91, 112, 93, 32, 118, 32, 93, 32, 120, 61, 121, 32, 125] ∧
    ¬ FPlainF false WriterExamples.kParamScalar := by
  refine ⟨by decide +kernel, by decide +kernel, by decide +kernel, by decide +kernel, WriterExamples.kParamScalar_not_plain⟩

/-- Known finding `roundtrip-mixed-nested-operator`, on the models: `a={ 1 k={ b>c } }` (an object
with a non-`=` operator nested in an array that turned into key-value pairs) parses to `… b, Op(>), c
…`; `writeTape` writes the nested field as `b>=c` — inside the nested object `write_operator` still
takes the mixed branch (mixed mode is only cleared by `write_end`), so the value's preamble adds
`=` —, and that text parses to a tape in which the operator has silently become `>=`. 
The input is `WriterExamples.kNestedOperator : FFields` (4th conjunct), which is NOT `FPlainF` (5th: inside the
window `w = true` the conjunct `w = true → o = .eq` of the nested field fails). -/
theorem C14_known_mixed_nested_operator_breaks :
    TextTape.parse [97, 61, 123, 32, 49, 32, 107, 61, 123, 32, 98, 62, 99, 32, 125, 32, 125] =
      .ok [.unquoted ⟨17, [97]⟩, .array 11 true, .unquoted ⟨13, [49]⟩, .mixedContainer, .unquoted ⟨11, [107]⟩,
           .operator .eq, .object 10 false, .unquoted ⟨7, [98]⟩, .operator .gt, .unquoted ⟨5, [99]⟩, .endTok 6,
           .endTok 1] false ∧
    (writeTape [.unquoted [97], .array 11 true, .unquoted [49], .mixedContainer, .unquoted [107], .operator .eq,
        .object 10 false, .unquoted [98], .operator .gt, .unquoted [99], .end 6, .end 1]
        (State.init 32 2)).toOption.map (·.out) =
      some [97, 61, 123, 10, 32, 32, 49, 32, 107, 61, 123, 10, 32, 32, 32, 32, 98, 62, 61, 99, 10, 32, 32, 125, 10, 125] ∧
    TextTape.parse [97, 61, 123, 10, 32, 32, 49, 32, 107, 61, 123, 10, 32, 32, 32, 32, 98, 62, 61, 99, 10, 32, 32, 125,
        10, 125] =
      .ok [.unquoted ⟨26, [97]⟩, .array 11 true, .unquoted ⟨20, [49]⟩, .mixedContainer, .unquoted ⟨18, [107]⟩,
           .operator .eq, .object 10 false, .unquoted ⟨10, [98]⟩, .operator .ge, .unquoted ⟨7, [99]⟩, .endTok 6,
           .endTok 1] false ∧
    TextTape.frenderF WriterExamples.kNestedOperator = [97, 61, 123, 32, 49, 32, 107, 61, 123, 32, 98, 62, 99, 32, 125, 32, 125] ∧
    ¬ FPlainF false WriterExamples.kNestedOperator := by
  refine ⟨by decide +kernel, by decide +kernel, by decide +kernel, by decide +kernel, WriterExamples.kNestedOperator_not_plain⟩

/-- Known finding `roundtrip-empty-first-element`, on the models: `a={ { {} } x }` parses to an array
whose first element is an empty array (`a, Array{5}, Array{3}, End, x, End`); `writeTape` (space × 2)
writes that element as `{ }` directly behind the opening brace, where the parser — the kind of the
container not being known yet — drops it as a ghost object: the re-parsed tape has lost the element.
An ambiguity of the text format itself: an empty container in first position can only be written as
`{ {} }`. 
The input is `WriterExamples.kEmptyFirst : FFields` (4th conjunct), which is NOT `FPlainF` (5th: `emptyC first = false` fails). -/
theorem C14_known_empty_first_element_breaks :
    TextTape.parse [97, 61, 123, 32, 123, 32, 123, 125, 32, 125, 32, 120, 32, 125] =
      .ok [.unquoted ⟨14, [97]⟩, .array 5 false, .array 3 false, .endTok 2, .unquoted ⟨3, [120]⟩, .endTok 1] false ∧
    (writeTape [.unquoted [97], .array 5 false, .array 3 false, .end 2, .unquoted [120], .end 1]
        (State.init 32 2)).toOption.map (·.out) =
      some [97, 61, 123, 10, 32, 32, 123, 32, 125, 10, 32, 32, 120, 10, 125] ∧
    TextTape.parse [97, 61, 123, 10, 32, 32, 123, 32, 125, 10, 32, 32, 120, 10, 125] =
      .ok [.unquoted ⟨15, [97]⟩, .array 3 false, .unquoted ⟨3, [120]⟩, .endTok 1] false ∧
    TextTape.frenderF WriterExamples.kEmptyFirst = [97, 61, 123, 32, 123, 32, 123, 125, 32, 125, 32, 120, 32, 125] ∧
    ¬ FPlainF false WriterExamples.kEmptyFirst := by
  refine ⟨by decide +kernel, by decide +kernel, by decide +kernel, by decide +kernel, WriterExamples.kEmptyFirst_not_plain⟩

/-- Known finding `roundtrip-header-empty-body`, on the models: `a=rgb { {} }` parses to
`a, Header(rgb), Array{3}, End`; `writeTape` writes `a=rgb { }`, which re-parses as the plain scalar
`rgb` followed by a ghost object: header and container are gone. 
The input is `WriterExamples.kHeaderEmpty : FFields` (4th conjunct), which is NOT `FPlainF` (5th: `emptyC body = false` fails). -/
theorem C14_known_header_empty_body_breaks :
    TextTape.parse [97, 61, 114, 103, 98, 32, 123, 32, 123, 125, 32, 125] =
      .ok [.unquoted ⟨12, [97]⟩, .header ⟨10, [114, 103, 98]⟩, .array 3 false, .endTok 2] false ∧
    (writeTape [.unquoted [97], .header [114, 103, 98], .array 3 false, .end 2]
        (State.init 32 2)).toOption.map (·.out) =
      some [97, 61, 114, 103, 98, 32, 123, 32, 125] ∧
    TextTape.parse [97, 61, 114, 103, 98, 32, 123, 32, 125] =
      .ok [.unquoted ⟨9, [97]⟩, .unquoted ⟨7, [114, 103, 98]⟩] false ∧
    TextTape.frenderF WriterExamples.kHeaderEmpty = [97, 61, 114, 103, 98, 32, 123, 32, 123, 125, 32, 125] ∧
    ¬ FPlainF false WriterExamples.kHeaderEmpty := by
  refine ⟨by decide +kernel, by decide +kernel, by decide +kernel, by decide +kernel, WriterExamples.kHeaderEmpty_not_plain⟩

/-- **C14, the positive theorem over the text-tape slice's one document type.**  For EVERY document
`d : JFields` under every valid layout (`JValidF d gt`: arbitrary blanks / comments in every gap,
optional `=` before `{`, ghost `{}` in key position and at the start of containers, quoted and
unquoted scalars, `@variables` and `@[…]`, all eight operators, objects, arrays of scalars, arrays of
objects / arrays / empty containers, empty containers, headers `rgb { … }`, nested to any depth)
that is `JPlainF` — i.e. everything except the exclusions listed below —, and every indent factor
and blank indent byte:

  * `parse` the text, `write_tape` the tape, `parse` what was written: the second tape equals the
    first modulo the positions of the scalars (keys, operators, scalar bytes, quotedness,
    `Object` / `Array` / `End` links, `Header` tokens), and
  * writing is idempotent: `write_tape` of the re-parsed tape produces exactly the same bytes.

The parse-back step is the text-tape slice's `faithful_tree` applied to the writer's own layout,
which is shown to be a valid layout (`JValidF`) of the same content (`Proofs/WriterGenParse.lean`);
`write_tape` performs exactly the calls of the document (`Proofs/WriterGenTape.lean`).

Exclusions (`JPlainF`, `hb'`), all witnessed on the real code:
  1. parameter blocks — known finding `roundtrip-param-scalar` (`C14_known_param_scalar_breaks`); the
     object-valued form is fine on the real code but not proved here;
  2. mixed containers — an object that continues as a bare list is documented as not preserved;
     arrays that turn into key-value pairs are not in `JFields`; known finding
     `roundtrip-mixed-nested-operator` (`C14_known_mixed_nested_operator_breaks`);
  3. an unquoted first key starting with the BOM bytes (`hb'`) — known finding `roundtrip-bom-key`;
  4. the ghost shapes of the format itself: an array whose first element, or a header whose body, has
     empty content (only writable as `{ {} }`: `a={ { {} } x }`, `a=rgb { {} }`) — written as `{ }` in
     first position it is dropped on re-reading as a ghost object — known findings
     `roundtrip-empty-first-element` / `roundtrip-header-empty-body`
     (`C14_known_empty_first_element_breaks`, `C14_known_header_empty_body_breaks`). -/
theorem C14_nested_roundtrip (d : TextTape.JFields) (gt : Bytes) (c : UInt8) (f : Nat)
    (hc : TextTape.isBlank c = true) (hgt : TextTape.Blank gt) (hv : TextTape.JValidF d gt)
    (hplain : JPlainF d) (hb : TextTape.hasBom (TextTape.jrenderF d ++ gt) = false)
    (hb' : ∀ T₀ s, TextTape.parse (TextTape.jrenderF d ++ gt) = .ok T₀ false →
      writeTape (T₀.map ofTT) (State.init c f) = .ok s → TextTape.hasBom s.out = false) :
    ∃ T₀ s T, TextTape.parse (TextTape.jrenderF d ++ gt) = .ok T₀ false ∧
      writeTape (T₀.map ofTT) (State.init c f) = .ok s ∧
      TextTape.parse s.out = .ok T false ∧
      T.map TextTape.Tok.erase = T₀.map TextTape.Tok.erase ∧
      writeTape (T.map ofTT) (State.init c f) = .ok s := by
  have hcontent := (WriterParse.content_gOfJF d hplain).symm
  have hcanon := WriterParse.canon_gOfJF d
  have hgood := WriterParse.good_gOfJF d gt hv hplain
  -- the written text, to discharge the BOM side condition
  obtain ⟨T₀', hp0', he0'⟩ := TextTape.faithful_tree d gt hgt hv hb
  have htape' : T₀'.map ofTT = wgF 0 (WriterParse.gOfJF d) := by
    rw [← map_ofTT_erase, he0', hcontent, wgF_eq]
  have hw' := writeTape_gen (WriterParse.gOfJF d) hcanon c f
  have hout' := lexemes_gen (WriterParse.gOfJF d) (opened_of_canonF _ hcanon hgood) c f
  have hbom : TextTape.hasBom (gtextRoot c f (WriterParse.gOfJF d)) = false := by
    have := hb' T₀' _ hp0' (by rw [htape']; exact hw')
    rwa [hout'] at this
  obtain ⟨T₀, s, T, h0, hw, hp, he⟩ :=
    C14_roundtrip_containers d gt (WriterParse.gOfJF d) c f hc hgt hv hb hcontent hcanon hgood hbom
  refine ⟨T₀, s, T, h0, hw, hp, he, ?_⟩
  rw [← map_ofTT_erase, he, map_ofTT_erase]; exact hw

/-- the text-tape slice's example document `a={1 {b=c} {}} d={{x}}` (arrays of scalars / objects /
empty containers / arrays): every hypothesis of `C14_nested_roundtrip` holds -/
example : ∃ T₀ s T, TextTape.parse (TextTape.jrenderF TextTape.exampleTree ++ [10]) = .ok T₀ false ∧
    writeTape (T₀.map ofTT) (State.init 32 2) = .ok s ∧ TextTape.parse s.out = .ok T false ∧
    T.map TextTape.Tok.erase = T₀.map TextTape.Tok.erase ∧ writeTape (T.map ofTT) (State.init 32 2) = .ok s := by
  obtain ⟨hv, hgt, hb⟩ := TextTape.exampleTree_valid
  refine C14_nested_roundtrip TextTape.exampleTree [10] 32 2 (by decide +kernel) hgt hv ?_ hb ?_
  · simp [TextTape.exampleTree, JPlainF, JPlainV, JPlainVs, TextTape.kcontentV]
  · intro T₀ s h1 h2
    rw [TextTape.parse_tree TextTape.exampleTree [10] hgt hv hb] at h1
    cases h1
    have : (writeTape ((TextTape.jtapeF TextTape.exampleTree 0 [10]).map ofTT) (State.init 32 2)).toOption.map
        (fun s => TextTape.hasBom s.out) = some false := by decide +kernel
    rw [h2] at this
    simpa [Except.toOption] using this

/-- **C14 over the text-tape slice's FULL document type** (`FFields`, Spec/TextDocFull.lean): the
shapes of `C14_nested_roundtrip` plus the ones the property text names and `JFields` left out —
parameter blocks (`[[p] k = v … ]` object-valued, `[[p] v ]` scalar-valued, `[[!p] …`), arrays that
turn into key-value lists (`{ 10 0=2 1=2 }`, `{ { a } 1 2=3 }`) whose array part holds scalars,
operator groups and containers (objects, arrays, nested mixed arrays), header fields and parameter
blocks as first field of an object.  For EVERY `d : FFields` under every valid layout (`FValidF d gt`)
that is `FPlainF` (Spec/WriterFull.lean), every indent factor and blank indent byte:

  * `parse` the text, `write_tape` the tape, `parse` what was written: the second tape equals the
    first modulo scalar positions, and
  * `write_tape` of the re-parsed tape produces exactly the same bytes (idempotence).

Proof: the index walk of `write_tape` over the tape of ANY document computes `semF`
(Proofs/WriterFullWalk.lean, no exclusion needed); for a preserved document the bytes `semF` writes are
the rendering of the same document under the writer's own layout `wlayF` (Proofs/WriterFullBytes.lean,
with the mixed-mode machine state tracked through nested containers); that layout is valid and has the
same content (Proofs/WriterFullParse.lean); `C01_faithful_full` reads it back.

Exclusions (`FPlainF`, `hb'`) — exactly the recorded findings, the shape the property's quantifier
leaves out, and three shapes found while proving this theorem (each witnessed on the real code with
`x-wtape` and reported):
  1. `roundtrip-param-scalar`: a scalar-valued parameter block followed by another field — precisely:
     the block is not the last thing before a `}` / the end of the document, where `]` of enclosing
     object-valued blocks do not count (`openEnd`);
  2. `roundtrip-mixed-nested-operator`: a non-`=` operator of an object field while the mixed mode of
     an enclosing mixed array is still on, i.e. before the first `write_end` behind the
     `MixedContainer` token (the window `w` of `FPlainF`);
  3. `roundtrip-bom-key` (`hb'`);
  4. `roundtrip-empty-first-element` / `roundtrip-header-empty-body` (`emptyC`);
  5. an object that continues as a bare value list (`FVal.mixed`): outside the property's quantifier;
  6. NEW `[[p] v ] { … }` (`FFields.paramHdr`): written as `[[p] v { … }]`, read back as an
     object-valued block;
  7. NEW two adjacent operator tokens in the array part written in mixed mode (`gluesOp`):
     `{ 1 b = = c }` is written `b==c`;
  8. NEW the bare scalar `?` followed by `=` / `==` directly behind the first element (`bareQuestion`):
     `{ 1 ? = b }` is written `1 ?=b`, read back as the object `1 ?= b`.

Exclusion → oracle kind in known_findings.txt: 1 `roundtrip-param-scalar`, 2 `roundtrip-mixed-nested-operator`,
3 `roundtrip-bom-key`, 4 `roundtrip-empty-first-element` + `roundtrip-header-empty-body`, 5 none (outside the
quantifier; counted `not-preserved:mixed-object`), 6 `roundtrip-param-header`, 7 `roundtrip-mixed-adjacent-operators`,
8 `roundtrip-mixed-bare-question-key`. -/
theorem C14_roundtrip_full (d : TextTape.FFields) (gt : Bytes) (c : UInt8) (f : Nat)
    (hc : TextTape.isBlank c = true) (hgt : TextTape.Blank gt) (hv : TextTape.FValidF d gt)
    (hplain : FPlainF false d) (hb : TextTape.hasBom (TextTape.frenderF d ++ gt) = false)
    (hb' : ∀ T₀ s, TextTape.parse (TextTape.frenderF d ++ gt) = .ok T₀ false →
      writeTape (T₀.map ofTT) (State.init c f) = .ok s → TextTape.hasBom s.out = false) :
    ∃ T₀ s T, TextTape.parse (TextTape.frenderF d ++ gt) = .ok T₀ false ∧
      writeTape (T₀.map ofTT) (State.init c f) = .ok s ∧
      TextTape.parse s.out = .ok T false ∧
      T.map TextTape.Tok.erase = T₀.map TextTape.Tok.erase ∧
      writeTape (T.map ofTT) (State.init c f) = .ok s := by
  obtain ⟨T₀, hp0, he0⟩ := TextTape.faithful_full d gt hgt hv hb
  have htape : T₀.map ofTT = tF d 0 := by rw [← map_ofTT_erase, he0]; rfl
  have hw := writeTape_full d (State.init c f)
  have hout := bytes_full c f d hplain
  have hbom := hb' T₀ _ hp0 (by rw [htape]; exact hw)
  rw [hout] at hbom
  obtain ⟨T, hp, he⟩ := parse_wlay c f hc d gt hv hplain hbom
  refine ⟨T₀, semF d (State.init c f), T, hp0, by rw [htape]; exact hw, by rw [hout]; exact hp, by rw [he, he0], ?_⟩
  rw [← map_ofTT_erase, he, ← he0, map_ofTT_erase, htape]
  exact hw

/-- `d={⏎  10 d=e⏎}` (an array that turns into a key-value list, laid out as the writer does): every
hypothesis of `C14_roundtrip_full` holds -/
example : ∃ T₀ s T,
    TextTape.parse (TextTape.frenderF (WriterParse.mixedLay 32 2
      ⟨.unq [100], .unq [49, 48], [], [(.unq [100], .eq, .unq [101])]⟩) ++ []) = .ok T₀ false ∧
    writeTape (T₀.map ofTT) (State.init 9 1) = .ok s ∧ TextTape.parse s.out = .ok T false ∧
    T.map TextTape.Tok.erase = T₀.map TextTape.Tok.erase ∧ writeTape (T.map ofTT) (State.init 9 1) = .ok s := by
  have u : ∀ b : Bytes, (∀ x ∈ b, safeByte x = true) → b ≠ [] → (SCall.unq b).ValidX :=
    fun b h hne => Or.inl (valid_of_safe b hne h)
  have hgood : MixedDoc.Good ⟨.unq [100], .unq [49, 48], [], [(.unq [100], .eq, .unq [101])]⟩ := by
    refine ⟨u _ (by decide +kernel) (by simp), u _ (by decide +kernel) (by simp), by simp, ?_, by simp [SCall.scal, TextTape.Scal.text]⟩
    intro p hp
    simp at hp
    subst hp
    exact ⟨u _ (by decide +kernel) (by simp), by simp, u _ (by decide +kernel) (by simp)⟩
  have hv := WriterParse.valid_mixedLay 32 2 (by decide +kernel) _ hgood
  refine C14_roundtrip_full _ [] 9 1 (by decide +kernel) .nil hv ?_ (by decide +kernel) ?_
  · simp [WriterParse.mixedLay, WriterParse.elemVals, WriterParse.pairItems, FPlainF, FPlainV, FPlainVs, FPlainI,
      bareQuestion, gluesOp, closesV, SCall.scal, TextTape.Scal.text]
  · intro T₀ s h1 h2
    rw [TextTape.parse_full _ [] .nil hv (by decide +kernel)] at h1
    cases h1
    have : (writeTape ((TextTape.ftapeF (WriterParse.mixedLay 32 2
        ⟨.unq [100], .unq [49, 48], [], [(.unq [100], .eq, .unq [101])]⟩) 0 []).map ofTT) (State.init 9 1)).toOption.map
        (fun s => TextTape.hasBom s.out) = some false := by decide +kernel
    rw [h2] at this
    simpa [Except.toOption] using this

/-- `a={ [[p] k=v ] b=rgb{ 1 } [[q] r ] }` (object-valued parameter block as first field, header field,
trailing scalar-valued parameter block): `FValidF`, `FPlainF`, both BOM conditions are PROVED
(Proofs/WriterExamples.lean) and `C14_roundtrip_full` applies -/
example : ∃ T₀ s T, TextTape.parse (TextTape.frenderF WriterExamples.dParams ++ [10]) = .ok T₀ false ∧
      writeTape (T₀.map ofTT) (State.init 9 1) = .ok s ∧ TextTape.parse s.out = .ok T false ∧
      T.map TextTape.Tok.erase = T₀.map TextTape.Tok.erase ∧ writeTape (T.map ofTT) (State.init 9 1) = .ok s := by
  have hgt : TextTape.Blank [10] := .ws 10 [] (by decide +kernel) .nil
  refine C14_roundtrip_full WriterExamples.dParams [10] 9 1 (by decide +kernel) hgt WriterExamples.dParams_valid
    WriterExamples.dParams_plain (by decide +kernel) ?_
  intro T₀ s h1 h2
  rw [TextTape.parse_full WriterExamples.dParams [10] hgt WriterExamples.dParams_valid (by decide +kernel)] at h1
  cases h1
  have : (writeTape ((TextTape.ftapeF WriterExamples.dParams 0 [10]).map ofTT) (State.init 9 1)).toOption.map
      (fun s => TextTape.hasBom s.out) = some false := by decide +kernel
  rw [h2] at this
  simpa [Except.toOption] using this

/-- … and so it does to `a={ b=rgb{ 1 } c={ x=y } } e={ 1 f=g {h=i} z }` (header as first field, an array that
turns mixed with an object in its array part) -/
example : ∃ T₀ s T, TextTape.parse (TextTape.frenderF WriterExamples.dMixed ++ [10]) = .ok T₀ false ∧
      writeTape (T₀.map ofTT) (State.init 32 2) = .ok s ∧ TextTape.parse s.out = .ok T false ∧
      T.map TextTape.Tok.erase = T₀.map TextTape.Tok.erase ∧ writeTape (T.map ofTT) (State.init 32 2) = .ok s := by
  have hgt : TextTape.Blank [10] := .ws 10 [] (by decide +kernel) .nil
  refine C14_roundtrip_full WriterExamples.dMixed [10] 32 2 (by decide +kernel) hgt WriterExamples.dMixed_valid
    WriterExamples.dMixed_plain (by decide +kernel) ?_
  intro T₀ s h1 h2
  rw [TextTape.parse_full WriterExamples.dMixed [10] hgt WriterExamples.dMixed_valid (by decide +kernel)] at h1
  cases h1
  have : (writeTape ((TextTape.ftapeF WriterExamples.dMixed 0 [10]).map ofTT) (State.init 32 2)).toOption.map
      (fun s => TextTape.hasBom s.out) = some false := by decide +kernel
  rw [h2] at this
  simpa [Except.toOption] using this

/-- an object-valued and a trailing scalar-valued parameter block, a header field, an array that turns
mixed with an object in its array part (`a={ [[p] k=v ] b=rgb{1} c={ 1 x=y { z=w } } [[q] r ] }`):
the conclusion of `C14_roundtrip_full` — parse, write, parse again, same tape up to positions —,
computed on the models -/
example :
    (match TextTape.parse [97, 61, 123, 32, 91, 91, 112, 93, 32, 107, 61, 118, 32, 93, 32, 98, 61, 114, 103, 98, 123,
        49, 125, 32, 99, 61, 123, 32, 49, 32, 120, 61, 121, 32, 123, 32, 122, 61, 119, 32, 125, 32, 125, 32, 91, 91,
        113, 93, 32, 114, 32, 93, 32, 125] with
     | .ok T₀ false =>
       (match writeTape (T₀.map ofTT) (State.init 32 2) with
        | .ok s =>
          (match TextTape.parse s.out with
           | .ok T false => decide (T.map TextTape.Tok.erase = T₀.map TextTape.Tok.erase ∧ T₀.length = 27)
           | _ => false)
        | _ => false)
     | _ => false) = true := by
  decide +kernel

/-- **`write_tape` into a failing sink.**  `writeTapeF cap` (Model/WriterSink.lean) is the index walk of
`write_tape` on a writer whose sink accepts the first `cap` bytes and then refuses every non-empty
write, mirrored statement by statement (the `?` after each write).  For every token list on which
`write_tape` succeeds over an unlimited sink — by `writeTape_full` that is the tape of EVERY document of
the full document type —, every `cap`, indent byte and factor:

  * what reached the sink is exactly the first `min cap len` bytes of the full output;
  * the result is `Err(io)` exactly when the full output is longer than `cap` — never a panic;
  * when the output fits, result and final writer are those of the unlimited run.

Tied to the real code by the correspondence op `wtapew`. -/
theorem C14_failing_sink (toks : List Tok) (cap : Nat) (c : UInt8) (f : Nat) (s' : State)
    (h : writeTape toks (State.init c f) = .ok s') :
    (writeTapeF cap toks (State.init c f)).2.out = s'.out.take cap ∧
    ((writeTapeF cap toks (State.init c f)).1 = .error .io ↔ cap < s'.out.length) ∧
    (s'.out.length ≤ cap → writeTapeF cap toks (State.init c f) = (.ok (), s')) := by
  obtain ⟨h1, h2⟩ := writeTape_sink cap toks (State.init c f) s' (by simp [State.init]) h
  by_cases hl : s'.out.length ≤ cap
  · have e := h1 hl
    exact ⟨by rw [e, List.take_of_length_le hl], ⟨fun hio => by rw [e] at hio; simp at hio, fun hlt => by omega⟩, h1⟩
  · obtain ⟨r1, r2⟩ := h2 (by omega)
    exact ⟨r2, ⟨fun _ => by omega, fun _ => r1⟩, fun hle => absurd hle hl⟩

/-- `a={ b }` needs 9 bytes (`a={⏎  b⏎}`): with room for 5 the walk stops with `Err(io)` after `a={⏎ ` -/
example : (writeTapeF 5 [.unquoted [97], .array 3 false, .unquoted [98], .end 1] (State.init 32 2)).2.out =
      [97, 61, 123, 10, 32] ∧
    (match (writeTapeF 5 [.unquoted [97], .array 3 false, .unquoted [98], .end 1] (State.init 32 2)).1 with
     | .error .io => true | _ => false) = true ∧
    (writeTape [.unquoted [97], .array 3 false, .unquoted [98], .end 1] (State.init 32 2)).toOption.map (·.out) =
      some [97, 61, 123, 10, 32, 32, 98, 10, 125] := by
  decide +kernel

/-
Status of the growth theorem `C14_roundtrip` (first stated in round 1 over an abstract `Doc` / `RoundTrippable`):
it is PROVED as `C14_roundtrip_full`, with the text-tape slice's `FFields` as the document type, `FValidF` as
"any layout", `TextTape.parse` as the parser and `FPlainF` as `RoundTrippable` — including parameter blocks and
arrays that turn into key-value lists, which the property text names.  What remains outside is exactly the
list of exclusions in its docstring, each a recorded finding with its own oracle kind or outside the property's
quantifier; those are decided on the real code by the L3 oracle (`roundtrip`, `roundtrip-indent-config`,
`roundtrip-output-does-not-parse`, `idempotent`, and the `roundtrip-*` kinds of known_findings.txt).
-/

end Jomini.Props.C14
