import JominiModel.Model.TextTape
import JominiModel.Spec.TextTape
import JominiModel.Proofs.TextTape
import JominiModel.Generated.Tables
/-
C01 — Text tape mirrors the document's structure regardless of layout.
Only property theorems live here; helper lemmas are in `Proofs/TextTape*.lean`.
All theorems are about the model `Model/TextTape.lean` of /repo/src/text/tape.rs.
-/
namespace Jomini.Props.C01
open Jomini Jomini.TextTape

/-- the byte set the 16-byte block scan of `split_at_scalar` stops at is exactly the
`is_boundary` table its bytewise tail uses (both measured from the compiled code on every run). -/
theorem C01_tables_sse_eq_tab : Tables.sseBoundary = Tables.boundaryTab := by decide +kernel

/-- "where the bytes fall relative to the 16-byte blocks" is unobservable for unquoted scalars:
for every input the block scanner returns what the bytewise fallback returns. -/
theorem C01_split_blocks (d : Bytes) : splitAtScalar d = splitAtScalarFallback d :=
  splitAtScalar_eq_fallback C01_tables_sse_eq_tab d

/-- `abcdefghijklmnopqrstuvwxyz=1`: the boundary sits in the second block. -/
example : splitAtScalar [97,98,99,100,101,102,103,104,105,106,107,108,109,110,111,112,113,114,115,116,117,118,119,120,121,122,61,49] =
    some ([97,98,99,100,101,102,103,104,105,106,107,108,109,110,111,112,113,114,115,116,117,118,119,120,121,122], [61,49]) := by
  decide +kernel

/-- the same for quoted scalars (escapes at any offset): on every non-empty input (the callers
pass a slice starting with the opening quote) the 16-byte block scanner returns what the bytewise
fallback returns.  (On the empty slice the block version panics on `&d[1..]` and the fallback
reports Eof; no caller passes it.) -/
theorem C01_quote_blocks (c : UInt8) (d : Bytes) :
    parseQuoteScalar (c :: d) = parseQuoteScalarFallback (c :: d) :=
  parseQuoteScalar_eq_fallback c d

/-- `"abcdefghijklmnopq\"r" x`: the escape sits in the second block (→ fallback). -/
example : parseQuoteScalar [34,97,98,99,100,101,102,103,104,105,106,107,108,109,110,111,112,113,92,34,114,34,32,120] =
    .ok ([97,98,99,100,101,102,103,104,105,106,107,108,109,110,111,112,113,92,34,114], [32,120]) := by
  rfl

/-- blanks (space, tab, LF, CR, ';'), CR/LF and `#` comments in any mixture and amount are
skipped without trace. -/
theorem C01_skipws (w d : Bytes) (hw : Blank w) : skipWs (w ++ d) = skipWs d :=
  skipWs_blank hw d

/-- ` ;\r\n#c{\n\t` -/
example : Blank [32, 59, 13, 10, 35, 99, 123, 10, 9] :=
  .ws 32 _ (by decide +kernel) (.ws 59 _ (by decide +kernel) (.ws 13 _ (by decide +kernel)
    (.ws 10 _ (by decide +kernel) (.comment [99, 123] _ (by decide)
      (.ws 9 _ (by decide +kernel) .nil)))))

/-- an optional UTF-8 BOM only sets the flag: the tape (scalar bytes and their positions, which
the model keeps relative to the end of the input) is the tape of the rest.
Hypotheses: `d` does not itself start with a second BOM, and the parse of `d` does not hit a
panic site (the only use is `offset - 1` at offset 0, which shifts with the BOM). -/
theorem C01_bom (d : Bytes) (hb : hasBom d = false) (hp : parse d ≠ .panic) :
    parse (0xef :: 0xbb :: 0xbf :: d) = (parse d).withBom true :=
  parse_bom d hb hp

/-- `a=b` -/
example : hasBom [97, 61, 98] = false ∧ parse [97, 61, 98] ≠ .panic := by decide +kernel

/-
Full statement (DESIGN §8 C01): `step st (w ++ d) = step st d` at EVERY point where the code
calls `skip_ws_t`: (1) loop head, (2) after `{` in Key, (3) after `{` in ParseOpen, (4) after the
first scalar of a container, (5) inside parameter definitions.
Proved: (1), (2), (3).  Missing: (4) and (5) — there the blanks follow a scalar that was just
pushed, so the tapes differ in that scalar's recorded position and the statement needs the
position-erasing simulation of `C01_layout_independent` (not proved yet).
-/
/-- (1) one iteration of the main loop is invariant under blanks in front of the cursor. -/
theorem C01_step_blank_partial (w d : Bytes) (hw : Blank w) (n : Nat) (st : St) :
    step n st (w ++ d) = step n st d :=
  step_blank hw n st d

/-- (2) Key state, blanks behind a `{` (ghost object / header). -/
theorem C01_step_blank_key_open (w rest : Bytes) (hw : Blank w) (st : St) :
    stepKey st (123 :: (w ++ rest)) = stepKey st (123 :: rest) :=
  stepKey_open_blank hw st rest

/-- (3) ParseOpen state, blanks behind a `{`: same result, or (non-empty inner container, the
`{` is left for ArrayValue) the same new state with the respective cursor. -/
theorem C01_step_blank_parseopen_open (w rest : Bytes) (hw : Blank w) (st : St) :
    stepParseOpen st (123 :: (w ++ rest)) = stepParseOpen st (123 :: rest) ∨
    ∃ st', stepParseOpen st (123 :: (w ++ rest)) = .cont st' (123 :: (w ++ rest)) ∧
           stepParseOpen st (123 :: rest) = .cont st' (123 :: rest) :=
  stepParseOpen_open_blank hw st rest

end Jomini.Props.C01
