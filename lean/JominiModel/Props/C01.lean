import JominiModel.Model.TextTape
import JominiModel.Spec.TextTape
import JominiModel.Proofs.TextTape
import JominiModel.Proofs.TextTapeWf
import JominiModel.Proofs.TextTapeCut
import JominiModel.Proofs.TextTapeInv
import JominiModel.Proofs.TextTapeScalars
import JominiModel.Proofs.TextTapeFaithful
import JominiModel.Proofs.TextTapeTotal
import JominiModel.Proofs.TextTapeFaithful2
import JominiModel.Proofs.TextTapeFaithful3
import JominiModel.Proofs.TextTapeBlank
import JominiModel.Proofs.TextTapeFaithfulOne
import JominiModel.Proofs.TextDocFullEmbed
import JominiModel.Proofs.TextDocTolerated
import JominiModel.Proofs.TextTapeDomWf
import JominiModel.Generated.Tables
/-
C01 — Text tape mirrors the document's structure regardless of layout.
Only property theorems live here; helper lemmas are in `Proofs/TextTape*.lean`.
All theorems are about the model `Model/TextTape.lean` of /repo/src/text/tape.rs.

The "freshly created or reused tape" clause of C01 is vacuous at the model level: the model has
no tape object, `parse` is a function of the input bytes alone (`TokenTape::clear` + `parse` is the
same function).  The clause is covered on the real code by the harness op `treuse` (one `TextTape`
reused across all generated inputs, compared with a fresh parse of each) and by C19's reused-tape
oracle.
-/
namespace Jomini.Props.C01
open Jomini Jomini.TextTape

/-- the byte set the 16-byte block scan of `split_at_scalar` stops at is exactly the
`is_boundary` table its bytewise tail uses (both measured from the compiled code on every run). -/
theorem C01_tables_sse_eq_tab : Tables.sseBoundary = Tables.boundaryTab := by decide +kernel

/-- "where the bytes fall relative to the 16-byte blocks" is unobservable for unquoted scalars:
for every input the block scanner returns what the bytewise fallback returns. -/
theorem C01_split_blocks (d : Bytes) : splitAtScalar d = splitAtScalarFallback d :=
  splitAtScalar_eq_fallback C01_tables_sse_eq_tab d

/-- `abcdefghijklmnopqrstuvwxyz=1`: the boundary sits in the second block. -/
example : splitAtScalar [97,98,99,100,101,102,103,104,105,106,107,108,109,110,111,112,113,114,115,116,117,118,119,120,121,122,61,49] =
    some ([97,98,99,100,101,102,103,104,105,106,107,108,109,110,111,112,113,114,115,116,117,118,119,120,121,122], [61,49]) := by
  decide +kernel

/-- the same for quoted scalars (escapes at any offset): on every non-empty input (the callers
pass a slice starting with the opening quote) the 16-byte block scanner returns what the bytewise
fallback returns.  (On the empty slice the block version panics on `&d[1..]` and the fallback
reports Eof; no caller passes it.) -/
theorem C01_quote_blocks (c : UInt8) (d : Bytes) :
    parseQuoteScalar (c :: d) = parseQuoteScalarFallback (c :: d) :=
  parseQuoteScalar_eq_fallback c d

/-- `"abcdefghijklmnopq\"r" x`: the escape sits in the second block (→ fallback). -/
example : parseQuoteScalar [34,97,98,99,100,101,102,103,104,105,106,107,108,109,110,111,112,113,92,34,114,34,32,120] =
    .ok ([97,98,99,100,101,102,103,104,105,106,107,108,109,110,111,112,113,92,34,114], [32,120]) := by
  rfl

/-- blanks (space, tab, LF, CR, ';'), CR/LF and `#` comments in any mixture and amount are
skipped without trace. -/
theorem C01_skipws (w d : Bytes) (hw : Blank w) : skipWs (w ++ d) = skipWs d :=
  skipWs_blank hw d

/-- ` ;\r\n#c{\n\t` -/
example : Blank [32, 59, 13, 10, 35, 99, 123, 10, 9] :=
  .ws 32 _ (by decide +kernel) (.ws 59 _ (by decide +kernel) (.ws 13 _ (by decide +kernel)
    (.ws 10 _ (by decide +kernel) (.comment [99, 123] _ (by decide)
      (.ws 9 _ (by decide +kernel) .nil)))))

/-- an optional UTF-8 BOM only sets the flag: the tape (scalar bytes and their positions, which
the model keeps relative to the end of the input) is the tape of the rest.
Hypothesis: `d` does not itself start with a second BOM (only the first one is stripped). -/
theorem C01_bom (d : Bytes) (hb : hasBom d = false) :
    parse (0xef :: 0xbb :: 0xbf :: d) = (parse d).withBom true :=
  parse_bom' d hb

/-- `a=b` -/
example : hasBom [97, 61, 98] = false := by decide +kernel

/-- the model is total on every input: it returns a tape or an error — none of its explicit
panic outcomes (`len()-1`, `offset-1`, `tape[i]`, `split_at`, `&d[1..]`) is reachable and the
fuel `2|d|+4` is enough (every iteration consumes input or moves from KeyValueSeparator /
ParseOpen to a state that does). -/
theorem C01_parse_total (input : Bytes) :
    (∃ T b, parse input = .ok T b) ∨ (∃ e, parse input = .err e) :=
  parse_total input

/-- C01_step_blank, at full strength: blanks (space, tab, CR/LF, `;`, comments, in any mixture)
are invisible at EVERY point where the code calls `skip_ws_t`:
(1) the loop head; (2) behind `{` in Key; (3) behind `{` in ParseOpen (same result, or — non-empty
inner container, the `{` is left for ArrayValue — the same new state with the respective cursor);
(4) behind the first scalar of a container; (5) inside parameter definitions, behind `[[name]`
and behind the key / value that follows.  At (4) and (5) the blanks follow a scalar that has just
been pushed, so the results agree up to that scalar's recorded position (`Step.erase`); they
are stated where a separator is lexically permitted (an unquoted scalar is followed by a
boundary byte with and without the blanks). -/
theorem C01_step_blank (w : Bytes) (hw : Blank w) :
    (∀ n st d, step n st (w ++ d) = step n st d) ∧
    (∀ st rest, stepKey st (123 :: (w ++ rest)) = stepKey st (123 :: rest)) ∧
    (∀ st rest, stepParseOpen st (123 :: (w ++ rest)) = stepParseOpen st (123 :: rest) ∨
      ∃ st', stepParseOpen st (123 :: (w ++ rest)) = .cont st' (123 :: (w ++ rest)) ∧
             stepParseOpen st (123 :: rest) = .cont st' (123 :: rest)) ∧
    (∀ st (s : Scal) r, s.Valid → (s.quoted = false → StartsBoundary r) →
      (s.quoted = false → StartsBoundary (w ++ r)) →
      (stepParseOpen st (s.text ++ (w ++ r))).erase = (stepParseOpen st (s.text ++ r)).erase) ∧
    (∀ mixed tape parent (isU : Bool) name Y, ParamName name →
      (paramDefBody mixed tape parent
        (91 :: 91 :: ((if isU then [33] else []) ++ (name ++ 93 :: (w ++ Y))))).erase =
      (paramDefBody mixed tape parent
        (91 :: 91 :: ((if isU then [33] else []) ++ (name ++ 93 :: Y)))).erase) ∧
    (∀ mixed tape parent (isU : Bool) name (s : Scal) w1 R, ParamName name → s.Valid → s.quoted = false →
      Blank w1 → StartsBoundary R → StartsBoundary (w ++ R) →
      (paramDefBody mixed tape parent
        (91 :: 91 :: ((if isU then [33] else []) ++ (name ++ 93 :: (w1 ++ (s.text ++ (w ++ R))))))).erase =
      (paramDefBody mixed tape parent
        (91 :: 91 :: ((if isU then [33] else []) ++ (name ++ 93 :: (w1 ++ (s.text ++ R)))))).erase) :=
  ⟨fun n st d => step_blank hw n st d,
   fun st rest => stepKey_open_blank hw st rest,
   fun st rest => stepParseOpen_open_blank hw st rest,
   fun _ _ _ hs hr hwr => stepParseOpen_first_scalar_blank hs hw hr hwr,
   fun mixed tape parent isU _ Y hn => paramDefBody_name_blank mixed tape parent isU hn hw Y,
   fun mixed tape parent isU _ _ _ _ hn hs hq hw1 hR hwR =>
     paramDefBody_kv_blank mixed tape parent isU hn hs hq hw1 hw hR hwR⟩

/-- the hypotheses of sites (4)/(5) are satisfiable: scalar `ab`, name `x`, rest `}`… -/
example : (Scal.mk false [97, 98]).Valid ∧ ParamName [120] ∧ StartsBoundary [125] ∧
    StartsBoundary ([32] ++ [125]) :=
  ⟨by simp only [Scal.Valid, Bool.false_eq_true, if_false]
      exact ⟨by decide +kernel, 97, [98], rfl, by decide +kernel, by decide, by decide⟩,
   ⟨by simp, by decide +kernel⟩, .inr ⟨125, [], rfl, by decide +kernel⟩,
   .inr ⟨32, [125], rfl, by decide +kernel⟩⟩

/-- (2) Key state, blanks behind a `{` (ghost object / header). -/
theorem C01_step_blank_key_open (w rest : Bytes) (hw : Blank w) (st : St) :
    stepKey st (123 :: (w ++ rest)) = stepKey st (123 :: rest) :=
  stepKey_open_blank hw st rest

/-- (3) ParseOpen state, blanks behind a `{`: same result, or (non-empty inner container, the
`{` is left for ArrayValue) the same new state with the respective cursor. -/
theorem C01_step_blank_parseopen_open (w rest : Bytes) (hw : Blank w) (st : St) :
    stepParseOpen st (123 :: (w ++ rest)) = stepParseOpen st (123 :: rest) ∨
    ∃ st', stepParseOpen st (123 :: (w ++ rest)) = .cont st' (123 :: (w ++ rest)) ∧
           stepParseOpen st (123 :: rest) = .cont st' (123 :: rest) :=
  stepParseOpen_open_blank hw st rest

/-
Full statements (DESIGN §8 C01), for the complete document model (nested objects, arrays, arrays
of objects, empty containers, headers, parameter blocks, mixed containers, optional `=`):
  C01_faithful           : parse (render L (lexemes doc)) = .ok (tapeOf doc) false   (up to positions)
  C01_layout_independent : Layout.Valid L → Layout.Valid L' →
                             parse (render L ls) = parse (render L' ls)             (up to positions)
Proved so far: fragment 1 = flat documents (top-level `key op value` fields, all 8 operators,
quoted scalars with escapes, unquoted scalars, any valid blank layout incl. comments, `;`, CR/LF,
tight gaps where lexically permitted); fragment 2 = the same with nested non-empty objects of any
depth as values (`key op { fields }`, incl. `?=` / `!=` on the first field); fragment 3 = values
are scalars, empty containers `{}`, objects, and arrays of scalars / objects / arrays / empty
containers, nested to any depth (the structure of save files), fields written with or without
the optional `=` before `{` (`a={..}` and `a{..}` have the same content), ghost `{}` in key
position and at the start of a container, headers (`rgb {..}`) in field-value position, a BOM in
front, `@variables` and `@[..]` as keys, values and array elements, object→array mixed
containers (fields followed by bare scalars), parameter blocks in key position (value and object
form).  Missing: a parameter block as the FIRST thing inside a container; a header, an implicit
`=` or a ghost on the FIRST field of a nested container; containers inside the array part of a
mixed container; operators inside arrays.  These are decided by the correspondence run and the
layout/faithfulness oracles.
-/
/-- fragment 1 of C01_faithful: a flat document under ANY valid layout parses to a tape that is,
up to the scalar positions, exactly the document's keys, operators and scalar bytes (quoted vs
unquoted preserved) in document order. -/
theorem C01_faithful_flat_partial (fs : List LField) (gt : Bytes) (hv : ValidFlat fs gt)
    (hb : hasBom (renderFlat fs gt) = false) :
    ∃ T, parse (renderFlat fs gt) = .ok T false ∧ T.map Tok.erase = contentFlat (fs.map LField.content) :=
  faithful_flat fs gt hv hb

/-- the same with the positions: the tape is `tapeFlat`, every scalar standing where the layout
puts it. -/
theorem C01_faithful_flat_positions_partial (fs : List LField) (gt : Bytes) (hv : ValidFlat fs gt)
    (hb : hasBom (renderFlat fs gt) = false) :
    parse (renderFlat fs gt) = .ok (tapeFlat fs gt) false :=
  parse_flat fs gt hv hb

/-- fragment 1 of C01_layout_independent: two valid layouts of the same flat document (kind and
amount of blanks, CR/LF, `;`, comments, where the bytes fall relative to the 16-byte blocks)
give the same tape up to positions. -/
theorem C01_layout_independent_flat_partial (fs fs' : List LField) (gt gt' : Bytes)
    (hv : ValidFlat fs gt) (hv' : ValidFlat fs' gt')
    (hb : hasBom (renderFlat fs gt) = false) (hb' : hasBom (renderFlat fs' gt') = false)
    (hc : fs.map LField.content = fs'.map LField.content) :
    ∃ T T', parse (renderFlat fs gt) = .ok T false ∧ parse (renderFlat fs' gt') = .ok T' false ∧
      T.map Tok.erase = T'.map Tok.erase :=
  layout_independent_flat fs fs' gt gt' hv hv' hb hb' hc

/-- fragment 2 of C01_faithful: a document of nested objects under ANY valid layout parses to a
tape that is, up to the scalar positions, exactly the document's content with the object
boundaries and their `end` links. -/
theorem C01_faithful_nested_partial (fs : LFields) (gt : Bytes) (hgt : Blank gt) (hv : ValidF fs gt)
    (hb : hasBom (renderF fs ++ gt) = false) :
    ∃ T, parse (renderF fs ++ gt) = .ok T false ∧ T.map Tok.erase = ctapeF (contentFs fs) 0 :=
  faithful_nested fs gt hgt hv hb

/-- fragment 2 of C01_layout_independent. -/
theorem C01_layout_independent_nested_partial (fs fs' : LFields) (gt gt' : Bytes)
    (hgt : Blank gt) (hgt' : Blank gt') (hv : ValidF fs gt) (hv' : ValidF fs' gt')
    (hb : hasBom (renderF fs ++ gt) = false) (hb' : hasBom (renderF fs' ++ gt') = false)
    (hc : contentFs fs = contentFs fs') :
    ∃ T T', parse (renderF fs ++ gt) = .ok T false ∧ parse (renderF fs' ++ gt') = .ok T' false ∧
      T.map Tok.erase = T'.map Tok.erase :=
  layout_independent_nested fs fs' gt gt' hgt hgt' hv hv' hb hb' hc

/-- fragment 3 of C01_faithful: fields whose values are scalars, empty containers, objects and
arrays (of scalars, objects, arrays, empty containers) nested to any depth, under ANY valid
layout: the tape is, up to the scalar positions, exactly the document's keys, operators, scalar
bytes (quoted vs unquoted), container kinds (object / array) and nesting (`end` links). -/
theorem C01_faithful_tree_partial (fs : JFields) (gt : Bytes) (hgt : Blank gt) (hv : JValidF fs gt)
    (hb : hasBom (jrenderF fs ++ gt) = false) :
    ∃ T, parse (jrenderF fs ++ gt) = .ok T false ∧ T.map Tok.erase = ktapeF (kcontentF fs) 0 :=
  faithful_tree fs gt hgt hv hb

/-- fragment 3 of C01_layout_independent. -/
theorem C01_layout_independent_tree_partial (fs fs' : JFields) (gt gt' : Bytes)
    (hgt : Blank gt) (hgt' : Blank gt') (hv : JValidF fs gt) (hv' : JValidF fs' gt')
    (hb : hasBom (jrenderF fs ++ gt) = false) (hb' : hasBom (jrenderF fs' ++ gt') = false)
    (hc : kcontentF fs = kcontentF fs') :
    ∃ T T', parse (jrenderF fs ++ gt) = .ok T false ∧ parse (jrenderF fs' ++ gt') = .ok T' false ∧
      T.map Tok.erase = T'.map Tok.erase :=
  layout_independent_tree fs fs' gt gt' hgt hgt' hv hv' hb hb' hc

/-! ### C01_faithful / C01_layout_independent as ONE theorem over one document type

`JFields` (Spec/TextTape.lean) is the document type: fields `key op value`, implicit `=`
(`key { … }`), ghost objects `{}`, headers (`key = rgb { … }`), parameter blocks (`[[p] v]`,
`[[!p] k = v … ]`); values are scalars (quoted, unquoted, `@var`, `@[ … ]`), empty containers,
objects, arrays of scalars / objects / arrays, containers that start with a ghost `{}`, and mixed
containers (`{ a=b … c d e }`); any depth; any layout (`Blank` gaps: blanks, CR/LF, `;`, comments).
Fragments 1 and 2 are instances (`C01_faithful_covers_flat`, `C01_faithful_covers_nested`).

Left out of the document type (hence `_partial`), with what the parser does there as examples
below:
* a nested object whose FIRST field is a header field (`{ a = rgb { 1 } … }`) or a parameter block
  (`{ [[p] v] … }`) — later fields may be; implicit `=` on a first field does not exist
  (`{ a { b } }` is an array of `a` and `{ b }`); a ghost `{}` in front of the first field IS covered;
* the array part of a mixed container holding anything but scalars (containers, `k = v` groups with
  their `Operator(Equal)` tokens), and arrays that turn mixed (`{ 1 2 <3 }`, `{ 1 a=b }`);
* a mixed top level; the tolerated malformations (a stray `}` at top level, the missing last `}`,
  `]` closing an ordinary object / `}` closing a parameter block); parameter blocks whose value
  is followed by `{` (header);
* the reused tape (vacuous in the model, see the top of this file).
All of these are inside `C01_parse_total`, `C01_C06_text_inv`, `C17_parsed_tape_wf` /
`C16_parsed_tape_wf` (every accepted tape is structurally sound and regular) and the `ttape` /
`tlay` correspondence ops; what is missing for them is only the statement of WHICH regular tape
comes out. -/

/-- **C01_faithful** (one theorem, one document type): a document under ANY valid layout parses,
and its tape is, up to the scalar positions, exactly the document's content — keys, operators,
scalar bytes with their quotedness, header and parameter tokens, container kinds (object / array /
mixed) and nesting (`end` links). -/
theorem C01_faithful_partial (fs : JFields) (gt : Bytes) (hgt : Blank gt) (hv : JValidF fs gt)
    (hb : hasBom (jrenderF fs ++ gt) = false) :
    ∃ T, parse (jrenderF fs ++ gt) = .ok T false ∧ T.map Tok.erase = ktapeF (kcontentF fs) 0 :=
  faithful_tree fs gt hgt hv hb

/-- **C01_layout_independent**, the corollary: two layouts of the same content give the same
tape up to positions. -/
theorem C01_layout_independent_partial (fs fs' : JFields) (gt gt' : Bytes)
    (hgt : Blank gt) (hgt' : Blank gt') (hv : JValidF fs gt) (hv' : JValidF fs' gt')
    (hb : hasBom (jrenderF fs ++ gt) = false) (hb' : hasBom (jrenderF fs' ++ gt') = false)
    (hc : kcontentF fs = kcontentF fs') :
    ∃ T T', parse (jrenderF fs ++ gt) = .ok T false ∧ parse (jrenderF fs' ++ gt') = .ok T' false ∧
      T.map Tok.erase = T'.map Tok.erase := by
  obtain ⟨T, h1, h2⟩ := C01_faithful_partial fs gt hgt hv hb
  obtain ⟨T', h1', h2'⟩ := C01_faithful_partial fs' gt' hgt' hv' hb'
  exact ⟨T, T', h1, h1', by rw [h2, h2', hc]⟩

example : ∃ T, parse (jrenderF exampleMixed ++ [10]) = .ok T false ∧
    T.map Tok.erase = ktapeF (kcontentF exampleMixed) 0 :=
  C01_faithful_partial exampleMixed [10] exampleMixed_valid.2.1 exampleMixed_valid.1 exampleMixed_valid.2.2

/-- fragment 1 (flat documents) is an instance of `C01_faithful_partial`: same bytes, valid, same
expected tape. -/
theorem C01_faithful_covers_flat (fs : List LField) (gt : Bytes) (hv : ValidFlat fs gt) :
    jrenderF (flatJ fs) ++ gt = renderFlat fs gt ∧ JValidF (flatJ fs) gt ∧ Blank gt ∧
      jtapeF (flatJ fs) 0 gt = tapeFlat fs gt :=
  ⟨flatJ_render fs gt, (flatJ_valid fs gt hv).1, (flatJ_valid fs gt hv).2, flatJ_tape fs 0 gt⟩

example : ValidFlat [] [10] := by
  simp only [ValidFlat]; exact .ws 10 _ (by decide +kernel) .nil

/-- fragment 2 (nested objects) is an instance of `C01_faithful_partial`. -/
theorem C01_faithful_covers_nested (fs : LFields) (gt : Bytes) (hv : ValidF fs gt) :
    jrenderF fs.toJ = renderF fs ∧ JValidF fs.toJ gt ∧ jtapeF fs.toJ 0 gt = tapeF fs 0 gt :=
  ⟨toJ_renderF fs, toJ_validF fs gt hv, toJ_tapeF fs 0 gt⟩

example : ValidF .nil [10] := by simp [ValidF]

/-! ### C01_faithful / C01_layout_independent over the FULL document type

`FFields` (Spec/TextDocFull.lean) extends `JFields` by the shapes listed above as left out; which
of them are in is said at `C01_faithful_full`. -/

/-- **C01_faithful_full**: a document of the full document type under ANY valid layout parses, and
its tape is, up to the scalar positions, exactly the document's content (`dtapeF`: keys, operators,
scalar bytes with their quotedness, header / parameter / `MixedContainer` tokens, container kinds,
mixed flags and `end` links).

In the document type, beyond `JFields`: the array part of a mixed container holds scalars,
operators (`0=2`: inside the array part the `Operator(Equal)` token is kept; `?=` is not an operator
there) and containers that start with a scalar (objects, arrays, mixed containers — ParseOpen then
flags the enclosing container, which keeps the mixed mode alive); a nested object whose FIRST
field is a header field (`{ a = rgb { 1 } … }`) or a parameter block (`{ [[p] v] … }`,
`{ [[p] k = v … ] … }`); a parameter value that is the header of a container (`[[p] v] { … }`); arrays that turn mixed
(`{ 10 0=2 1=2 }`, `{ { a } 1 2=3 }`: the first operator behind a scalar element that is not the
first token of the array puts `MixedContainer` in front of that scalar, the rest is an array part
as above).

Still outside (tolerated malformations and quirks, see the examples below): an empty container,
a container starting with `{` or a ghost `{}`, or a parameter block inside the array part of a mixed
container (the parser falls back to reading `key = value` fields, `[[` is a syntax error there);
a stray `}` at top level, the missing last `}`, `]` closing an ordinary object / `}` closing a
parameter block.  A mixed TOP level is not accepted by the parser at all (`a=b c d` is an error). -/
theorem C01_faithful_full (fs : FFields) (gt : Bytes) (hgt : Blank gt) (hv : FValidF fs gt)
    (hb : hasBom (frenderF fs ++ gt) = false) :
    ∃ T, parse (frenderF fs ++ gt) = .ok T false ∧ T.map Tok.erase = dtapeF fs 0 :=
  faithful_full fs gt hgt hv hb

/-- **C01_layout_independent_full**, the corollary: two layouts of the same content — the same
document once gaps, ghost objects and the optional `=` in front of `{` are dropped (`stripF`) — give
the same tape up to the scalar positions. -/
theorem C01_layout_independent_full (fs fs' : FFields) (gt gt' : Bytes)
    (hgt : Blank gt) (hgt' : Blank gt') (hv : FValidF fs gt) (hv' : FValidF fs' gt')
    (hb : hasBom (frenderF fs ++ gt) = false) (hb' : hasBom (frenderF fs' ++ gt') = false)
    (hc : stripF fs = stripF fs') :
    ∃ T T', parse (frenderF fs ++ gt) = .ok T false ∧ parse (frenderF fs' ++ gt') = .ok T' false ∧
      T.map Tok.erase = T'.map Tok.erase :=
  layout_independent_full fs fs' gt gt' hgt hgt' hv hv' hb hb' hc

/-- C01_faithful_full behind a UTF-8 BOM: the same tape, the BOM flag set. -/
theorem C01_faithful_full_bom (fs : FFields) (gt : Bytes) (hgt : Blank gt) (hv : FValidF fs gt)
    (hb : hasBom (frenderF fs ++ gt) = false) :
    ∃ T, parse (0xef :: 0xbb :: 0xbf :: (frenderF fs ++ gt)) = .ok T true ∧ T.map Tok.erase = dtapeF fs 0 :=
  faithful_full_bom fs gt hgt hv hb

example : ∃ T, parse (0xef :: 0xbb :: 0xbf :: (frenderF exampleMixed.toF ++ [10])) = .ok T true ∧
    T.map Tok.erase = dtapeF exampleMixed.toF 0 :=
  C01_faithful_full_bom exampleMixed.toF [10] exampleMixed_valid.2.1
    (toF_validF _ _ exampleMixed_valid.1) (by rw [toF_renderF]; exact exampleMixed_valid.2.2)

/-- the earlier document type is inside the full one: same bytes, valid, same expected tape — so
`C01_faithful_full` covers everything `C01_faithful_partial` covers. -/
theorem C01_full_covers_tree (fs : JFields) (gt : Bytes) (hv : JValidF fs gt) :
    frenderF fs.toF = jrenderF fs ∧ FValidF fs.toF gt ∧ ftapeF fs.toF 0 gt = jtapeF fs 0 gt :=
  ⟨toF_renderF fs, toF_validF fs gt hv, toF_tapeF fs 0 gt⟩

/-- the hypotheses are satisfiable -/
example : ∃ T, parse (frenderF exampleMixed.toF ++ [10]) = .ok T false ∧
    T.map Tok.erase = dtapeF exampleMixed.toF 0 :=
  C01_faithful_full exampleMixed.toF [10] exampleMixed_valid.2.1
    (toF_validF _ _ exampleMixed_valid.1) (by rw [toF_renderF]; exact exampleMixed_valid.2.2)

/-- … also on a shape that is new in the full document type (`a={b=c d e {f=g}}`) -/
example : ∃ T, parse (frenderF exampleFullValid ++ [10]) = .ok T false ∧
    T.map Tok.erase = dtapeF exampleFullValid 0 :=
  C01_faithful_full exampleFullValid [10] exampleFullValid_valid.2.1 exampleFullValid_valid.1
    exampleFullValid_valid.2.2

/-- `x={a=b c d {e=f} 0=2 {1 2} g}`: a mixed container whose array part holds scalars, an object,
an `0=2` group and an array -/
def exampleFullMixed : FFields :=
  .cons [] ⟨false, [120]⟩ [] .eq
    (.mixed [] [] (.kv ⟨false, [97]⟩ [] .eq (.scal [] ⟨false, [98]⟩)) .nil [32] ⟨false, [99]⟩
      (.scal [32] ⟨false, [100]⟩
        (.cont (.obj [32] [] (.kv ⟨false, [101]⟩ [] .eq (.scal [] ⟨false, [102]⟩)) .nil [])
          (.scal [32] ⟨false, [48]⟩ (.op [] .eq (.scal [] ⟨false, [50]⟩
            (.cont (.arrS [32] [] ⟨false, [49]⟩ (.cons (.scal [32] ⟨false, [50]⟩) .nil) [])
              (.scal [32] ⟨false, [103]⟩ .nil))))))) []) .nil

/-- … the expected tape of the specification is what the parser model produces on it -/
example : parse (frenderF exampleFullMixed ++ [10]) = .ok (ftapeF exampleFullMixed 0 [10]) false := by
  decide +kernel

/-- `x={a=rgb{1} c=d}`: a header field as first field of a nested object -/
def exampleFullHdrFirst : FFields :=
  .cons [] ⟨false, [120]⟩ [] .eq
    (.obj [] [] (.flds (.consHdr [] ⟨false, [97]⟩ [] .eq [] ⟨false, [114, 103, 98]⟩
        (.arrS [] [] ⟨false, [49]⟩ .nil [])
        (.cons [32] ⟨false, [99]⟩ [] .eq (.scal [] ⟨false, [100]⟩) .nil))) .nil []) .nil

example : parse (frenderF exampleFullHdrFirst ++ [10]) = .ok (ftapeF exampleFullHdrFirst 0 [10]) false := by
  decide +kernel

/-- `x={[[p] v] c=d}`: a parameter block as first field of a nested object -/
def exampleFullParamFirst : FFields :=
  .cons [] ⟨false, [120]⟩ [] .eq
    (.obj [] [] (.flds (.paramVal [] false [112] [32] ⟨false, [118]⟩ []
        (.cons [32] ⟨false, [99]⟩ [] .eq (.scal [] ⟨false, [100]⟩) .nil))) .nil []) .nil

example : parse (frenderF exampleFullParamFirst ++ [10]) = .ok (ftapeF exampleFullParamFirst 0 [10]) false := by
  decide +kernel

/-- `x={[[p] v]{1} c=d}`: a parameter value as header, in first position of a nested object -/
def exampleFullParamHdr : FFields :=
  .cons [] ⟨false, [120]⟩ [] .eq
    (.obj [] [] (.flds (.paramHdr [] false [112] [32] ⟨false, [118]⟩ []
        (.arrS [] [] ⟨false, [49]⟩ .nil [])
        (.cons [32] ⟨false, [99]⟩ [] .eq (.scal [] ⟨false, [100]⟩) .nil))) .nil []) .nil

example : parse (frenderF exampleFullParamHdr ++ [10]) = .ok (ftapeF exampleFullParamHdr 0 [10]) false := by
  decide +kernel

/-- `x={10 0=2 1=2 {3 4}}`: an array that turns mixed -/
def exampleFullArrMixed : FFields :=
  .cons [] ⟨false, [120]⟩ [] .eq
    (.arrSM [] [] ⟨false, [49, 48]⟩ .nil [32] ⟨false, [48]⟩ [] .eq
      (.scal [] ⟨false, [50]⟩ (.scal [32] ⟨false, [49]⟩ (.op [] .eq (.scal [] ⟨false, [50]⟩
        (.cont (.arrS [32] [] ⟨false, [51]⟩ (.cons (.scal [32] ⟨false, [52]⟩) .nil) []) .nil))))) []) .nil

example : parse (frenderF exampleFullArrMixed ++ [10]) = .ok (ftapeF exampleFullArrMixed 0 [10]) false := by
  decide +kernel

/-- `a=b c d`: a mixed top level is not accepted -/
example : parse [97, 61, 98, 32, 99, 32, 100] = .err .eof := by decide +kernel

/-! ### three arms of tape.rs no input reaches (coverage: tape.rs:538, 540, 562, 694-697)

`GInv` (Proofs/TextTapeDomWf.lean) is an invariant of the main loop: it holds at the start
(`C01_loop_invariant_init`) and every iteration keeps it (`C01_loop_invariant_step`); in every state
it describes, `mixed_mode` is off in Key / KeyValueSeparator / ObjectValue and the innermost open
container of a Key state is an `Object` token (`C01_key_state_facts`).  So `[b'=', ..] if mixed_mode`
in KeyValueSeparator and the `Array` arms of the two `match self.token_tape.get(parent_ind)` that run
in Key state are dead code — statements about the MODEL; the correspondence runs (15 000 malformed
inputs, the exhaustive short inputs, the full-document generator) do not reach them either. -/

theorem C01_loop_invariant_init : StInv St.init ∧ GInv St.init := ⟨StInv.init, GInv.init⟩

theorem C01_loop_invariant_step (n : Nat) (st st' : St) (d d' : Bytes) (h1 : StInv st) (h2 : GInv st)
    (h : stepAt n st d = .cont st' d') : StInv st' ∧ GInv st' :=
  ⟨stepAt_inv h1 h, stepAt_g h2 h1 h⟩

theorem C01_key_state_facts (st : St) (hG : GInv st) :
    (st.state = .key ∨ st.state = .kvs ∨ st.state = .objectValue → st.mixed = false) ∧
    (st.state = .key → st.parent ≠ 0 → ∃ e m, st.tape[st.parent]? = some (.object e m)) :=
  ginv_key_facts hG

example : GInv St.init := GInv.init

/-! ### the tolerated malformations (outside `FFields`; C06 and C19 quantify over them too) -/

/-- a stray `}` or `]` at top level, between two valid field lists, is skipped without trace: the
tape is the tape of the first list followed by the tape of the second. -/
theorem C01_tolerated_stray_close (fs1 fs2 : FFields) (g gt : Bytes) (c : UInt8) (hc : c = 125 ∨ c = 93)
    (hg : Blank g) (hgt : Blank gt)
    (hv1 : FValidF fs1 (g ++ c :: (frenderF fs2 ++ gt))) (hv2 : FValidF fs2 gt)
    (hb : hasBom (frenderF fs1 ++ (g ++ c :: (frenderF fs2 ++ gt))) = false) :
    parse (frenderF fs1 ++ (g ++ c :: (frenderF fs2 ++ gt))) =
      .ok (ftapeF fs1 0 (g ++ c :: (frenderF fs2 ++ gt)) ++ ftapeF fs2 (fcntF fs1) gt) false :=
  tolerated_stray_close fs1 fs2 g gt c hc hg hgt hv1 hv2 hb

/-- `a=b } c=d` -/
example : parse [97, 61, 98, 32, 125, 32, 99, 61, 100] =
    .ok [.unquoted ⟨9, [97]⟩, .unquoted ⟨7, [98]⟩, .unquoted ⟨3, [99]⟩, .unquoted ⟨1, [100]⟩] false := by
  decide +kernel

example : FValidF .nil ([] ++ 125 :: (frenderF .nil ++ [])) := by simp [FValidF]

/-- a missing last `}`: fields, then `key op { first rest` and the end of the input — the one open
top-level object is closed by the end of the input (`end` = end of the tape, flag `false`, `End`
appended); the tape is the one of the document with the `}` written, up to the scalar positions. -/
theorem C01_tolerated_missing_close (pre : FFields) (g0 : Bytes) (k : Scal) (g1 : Bytes) (o : Op) (gv g0' : Bytes)
    (first : FFirst) (rest : FFields) (gt : Bytes)
    (h0 : Blank g0) (h1 : Blank g1) (hgv : Blank gv) (h0' : Blank g0') (hgt : Blank gt)
    (hk : k.ValidX) (hkb : k.quoted = false → StartsBoundary (g1 ++ o.text))
    (hvp : FValidF pre (g0 ++ (k.text ++ (g1 ++ (o.text ++ (gv ++ 123 :: (g0' ++ (frenderFirst first ++
      (frenderF rest ++ gt)))))))))
    (hvf : FValidFirst first (frenderF rest ++ gt)) (hvr : FValidF rest gt)
    (hb : hasBom (frenderF pre ++ (g0 ++ (k.text ++ (g1 ++ (o.text ++ (gv ++ 123 :: (g0' ++ (frenderFirst first ++
      (frenderF rest ++ gt))))))))) = false) :
    parse (frenderF pre ++ (g0 ++ (k.text ++ (g1 ++ (o.text ++ (gv ++ 123 :: (g0' ++ (frenderFirst first ++
      (frenderF rest ++ gt))))))))) =
      .ok (ftapeF pre 0 (g0 ++ (k.text ++ (g1 ++ (o.text ++ (gv ++ 123 :: (g0' ++ (frenderFirst first ++
            (frenderF rest ++ gt)))))))) ++
          (k.tok (g1 ++ (o.text ++ (gv ++ 123 :: (g0' ++ (frenderFirst first ++ (frenderF rest ++ gt)))))) :: o.toks) ++
          Tok.object (fcntF pre + 1 + o.toks.length + 1 + fcntFirst first + fcntF rest) false ::
            (ftapeFirst first (fcntF pre + 1 + o.toks.length + 1) (frenderF rest ++ gt) ++
              ftapeF rest (fcntF pre + 1 + o.toks.length + 1 + fcntFirst first) gt) ++
          [Tok.endTok (fcntF pre + 1 + o.toks.length)]) false :=
  tolerated_missing_close pre g0 k g1 o gv g0' first rest gt h0 h1 hgv h0' hgt hk hkb hvp hvf hvr hb

/-- the hypotheses are satisfiable: `a={b=c` -/
example : ∃ T, parse [97, 61, 123, 98, 61, 99] = .ok T false := by
  have u : ∀ c : UInt8, isBoundary c = false → isBlank c = false → c ≠ 34 → c ≠ 64 → (Scal.mk false [c]).ValidX :=
    fun c a b d e => .inl (unq_valid c a b d e)
  have hbd : ∀ c : UInt8, isBoundary c = true → ∀ r, StartsBoundary (c :: r) := fun c h r => .inr ⟨c, r, rfl, h⟩
  have := C01_tolerated_missing_close .nil [] ⟨false, [97]⟩ [] .eq [] []
    (.kv ⟨false, [98]⟩ [] .eq (.scal [] ⟨false, [99]⟩)) .nil [] .nil .nil .nil .nil .nil
    (u 97 (by decide +kernel) (by decide +kernel) (by decide) (by decide)) (fun _ => hbd 61 (by decide +kernel) _)
    (by simp [FValidF])
    (by
      simp only [FValidFirst, FValidV, frenderF, List.nil_append]
      exact ⟨.nil, u 98 (by decide +kernel) (by decide +kernel) (by decide) (by decide),
        fun _ => hbd 61 (by decide +kernel) _, .nil,
        u 99 (by decide +kernel) (by decide +kernel) (by decide) (by decide), fun _ => .inl rfl⟩)
    (by simp [FValidF]) (by decide +kernel)
  exact ⟨_, this⟩

/-- `a={b=c`: one missing closer is tolerated … -/
example : parse [97, 61, 123, 98, 61, 99] =
    .ok [.unquoted ⟨6, [97]⟩, .object 4 false, .unquoted ⟨3, [98]⟩, .unquoted ⟨1, [99]⟩, .endTok 1] false := by
  decide +kernel

/-- … `a={b={c=d`: two are not, and neither is an open array (`a={1 2`) -/
example : parse [97, 61, 123, 98, 61, 123, 99, 61, 100] = .err .eof ∧
    parse [97, 61, 123, 49, 32, 50] = .err .eof := by decide +kernel

/-- `]` where `}` is expected and vice versa: in Key state — where objects and parameter blocks
are closed — the two bytes are one and the same token. -/
theorem C01_tolerated_closer (st : St) (rest : Bytes) : stepKey st (93 :: rest) = stepKey st (125 :: rest) :=
  tolerated_closer st rest

/-- `x={a=b]` and `[[p] a=b } c=d` -/
example : parse [120, 61, 123, 97, 61, 98, 93] =
    .ok [.unquoted ⟨7, [120]⟩, .object 4 false, .unquoted ⟨4, [97]⟩, .unquoted ⟨2, [98]⟩, .endTok 1] false := by
  decide +kernel

/-- `[` and `]` inside an array are one-byte unquoted scalars: a parameter block written as an
array element is a run of scalars. -/
theorem C01_tolerated_bracket_in_array (n : Nat) (st : St) (g X : Bytes) (c : UInt8)
    (hst : st.state = .arrayValue) (hg : Blank g) (hc : c = 91 ∨ c = 93) :
    step n st (g ++ c :: X) =
      .cont { st with tape := st.tape ++ [.unquoted ⟨(c :: X).length, [c]⟩] } X :=
  tolerated_bracket_in_array hst hg hc

example : (St.mk .arrayValue false 0 []).state = .arrayValue ∧ Blank [] := ⟨rfl, .nil⟩

/-- `x={1 [[p] v]}`: the array holds `1`, `[`, `[`, `p`, `]`, `v`, `]` -/
example : parse [120, 61, 123, 49, 32, 91, 91, 112, 93, 32, 118, 93, 125] =
    .ok [.unquoted ⟨13, [120]⟩, .array 9 false, .unquoted ⟨10, [49]⟩, .unquoted ⟨8, [91]⟩, .unquoted ⟨7, [91]⟩,
      .unquoted ⟨6, [112]⟩, .unquoted ⟨5, [93]⟩, .unquoted ⟨3, [118]⟩, .unquoted ⟨2, [93]⟩, .endTok 1] false := by
  decide +kernel

/-! what the parser does on the shapes outside the document type -/

/-- `x={a {b}}`: no implicit `=` on a first field — an array of `a` and `{b}` -/
example : parse [120, 61, 123, 97, 32, 123, 98, 125, 125] =
    .ok [.unquoted ⟨9, [120]⟩, .array 6 false, .unquoted ⟨6, [97]⟩, .array 5 false, .unquoted ⟨3, [98]⟩,
      .endTok 3, .endTok 1] false := by decide +kernel

/-- `x={a=rgb{1} c=d}`: a header on the first field -/
example : parse [120, 61, 123, 97, 61, 114, 103, 98, 123, 49, 125, 32, 99, 61, 100, 125] =
    .ok [.unquoted ⟨16, [120]⟩, .object 9 false, .unquoted ⟨13, [97]⟩, .header ⟨11, [114, 103, 98]⟩,
      .array 6 false, .unquoted ⟨7, [49]⟩, .endTok 4, .unquoted ⟨4, [99]⟩, .unquoted ⟨2, [100]⟩,
      .endTok 1] false := by decide +kernel

/-- `x={[[p] v] c=d}`: a parameter block as first field (the container is an object) -/
example : parse [120, 61, 123, 91, 91, 112, 93, 32, 118, 93, 32, 99, 61, 100, 125] =
    .ok [.unquoted ⟨15, [120]⟩, .object 6 false, .parameter ⟨10, [112]⟩, .unquoted ⟨7, [118]⟩,
      .unquoted ⟨4, [99]⟩, .unquoted ⟨2, [100]⟩, .endTok 1] false := by decide +kernel

/-- `x={a=b c d {e} f}`: a container in the array part of a mixed container -/
example : parse [120, 61, 123, 97, 61, 98, 32, 99, 32, 100, 32, 123, 101, 125, 32, 102, 125] =
    .ok [.unquoted ⟨17, [120]⟩, .object 11 true, .unquoted ⟨14, [97]⟩, .unquoted ⟨12, [98]⟩,
      .mixedContainer, .unquoted ⟨10, [99]⟩, .unquoted ⟨8, [100]⟩, .array 9 false, .unquoted ⟨5, [101]⟩,
      .endTok 7, .unquoted ⟨2, [102]⟩, .endTok 1] false := by decide +kernel

/-- `x={1 2 <3}`: an operator inside an array — the array turns mixed: `MixedContainer` goes in
front of the scalar before the operator, the `Operator` token is kept, the `Array` is flagged -/
example : parse [120, 61, 123, 49, 32, 50, 32, 60, 51, 125] =
    .ok [.unquoted ⟨10, [120]⟩, .array 7 true, .unquoted ⟨7, [49]⟩, .mixedContainer, .unquoted ⟨5, [50]⟩,
      .operator .lt, .unquoted ⟨2, [51]⟩, .endTok 1] false := by decide +kernel

/-- `x={1 <2}`: an operator behind the FIRST scalar makes the container an object -/
example : parse [120, 61, 123, 49, 32, 60, 50, 125] =
    .ok [.unquoted ⟨8, [120]⟩, .object 5 false, .unquoted ⟨5, [49]⟩, .operator .lt, .unquoted ⟨2, [50]⟩,
      .endTok 1] false := by decide +kernel

/-- C01_faithful, headers (`rgb { … }`, `hsv { … }`, `LIST { … }`): in `key op h { … }` the unquoted
scalar `h` becomes the `Header` token of the container that follows; the rest of the document
(fragment 3) is unaffected. -/
theorem C01_faithful_header_partial (g0 : Bytes) (k : Scal) (g1 : Bytes) (o : Op) (gh : Bytes) (h : Scal)
    (body : JVal) (rest : JFields) (gt : Bytes) (hgt : Blank gt)
    (hv : JValidF (.consHdr g0 k g1 o gh h body rest) gt)
    (hb : hasBom (jrenderF (.consHdr g0 k g1 o gh h body rest) ++ gt) = false) :
    ∃ T, parse (jrenderF (.consHdr g0 k g1 o gh h body rest) ++ gt) = .ok T false ∧
      T.map Tok.erase =
        [(k.tok []).erase] ++ o.toks ++ ([.header ⟨0, h.bytes⟩] ++ ktapeV (kcontentV body) (0 + 1 + o.toks.length + 1)) ++
          ktapeF (kcontentF rest) (0 + (1 + o.toks.length + (1 + kcntV (kcontentV body)))) := by
  obtain ⟨T, h1, h2⟩ := faithful_tree _ gt hgt hv hb
  exact ⟨T, h1, by rw [h2]; simp only [kcontentF, ktapeF, ktapeV, kcntV]⟩

/-- C01_faithful, ghost `{}` at the start of a container: it leaves no trace — the document has
the content (and so, up to positions, the tape) of the document without it. -/
theorem C01_faithful_ghost_start_partial (g0 : Bytes) (k : Scal) (g1 : Bytes) (o : Op) (g b1 b2 : Bytes)
    (v : JVal) (rest : JFields) (gt : Bytes) (hgt : Blank gt)
    (hv : JValidF (.cons g0 k g1 o (.ghostIn g b1 b2 v) rest) gt)
    (hb : hasBom (jrenderF (.cons g0 k g1 o (.ghostIn g b1 b2 v) rest) ++ gt) = false) :
    ∃ T, parse (jrenderF (.cons g0 k g1 o (.ghostIn g b1 b2 v) rest) ++ gt) = .ok T false ∧
      T.map Tok.erase = ktapeF (kcontentF (.cons g0 k g1 o v rest)) 0 :=
  faithful_tree _ gt hgt hv hb

/-- the hypotheses are satisfiable: `c=rgb{1 2} g={{} x}⏎` (a header, a ghost at the start). -/
example : JValidF exampleHdr [10] ∧ Blank [10] ∧ hasBom (jrenderF exampleHdr ++ [10]) = false :=
  exampleHdr_valid

/-- C01_faithful, `@variables` and `@[…]`: wherever fragment 3 has a scalar (key, value, array
element) it may be a variable `@name` or an interpolated expression `@[ … ]` (taken up to the
first `]`, blanks and operators inside included); it becomes an `Unquoted` token carrying all
its bytes. -/
theorem C01_faithful_variables_partial (g0 : Bytes) (k : Scal) (g1 : Bytes) (o : Op) (g : Bytes) (s : Scal)
    (rest : JFields) (gt : Bytes) (hgt : Blank gt) (hs : s.IsVar ∨ s.IsInterp)
    (hv : JValidF (.cons g0 k g1 o (.scal g s) rest) gt)
    (hb : hasBom (jrenderF (.cons g0 k g1 o (.scal g s) rest) ++ gt) = false) :
    ∃ T, parse (jrenderF (.cons g0 k g1 o (.scal g s) rest) ++ gt) = .ok T false ∧
      T.map Tok.erase =
        [(k.tok []).erase] ++ o.toks ++ [.unquoted ⟨0, s.bytes⟩] ++
          ktapeF (kcontentF rest) (0 + (1 + o.toks.length + 1)) := by
  obtain ⟨T, h1, h2⟩ := faithful_tree _ gt hgt hv hb
  have hq : s.quoted = false := by rcases hs with h | h <;> exact h.1
  exact ⟨T, h1, by rw [h2]; simp [kcontentF, kcontentV, ktapeF, ktapeV, kcntV, Scal.tok, hq, Tok.erase]⟩

/-- the hypotheses are satisfiable: `@x = @[1 + x] y=@x⏎`. -/
example : JValidF exampleVar [10] ∧ Blank [10] ∧ hasBom (jrenderF exampleVar ++ [10]) = false :=
  exampleVar_valid

/-- C01_faithful, object→array mixed containers `{ key op value … m0 e1 e2 … }`: the container is
an `Object` flagged mixed; a `MixedContainer` token stands where the bare list begins (in front of
`m0`, which the parser first takes for a key); the list elements follow as scalars. -/
theorem C01_faithful_mixed_partial (g0 : Bytes) (k : Scal) (g1 : Bytes) (o : Op)
    (g g0' : Bytes) (k' : Scal) (g1' : Bytes) (o' : Op) (v : JVal) (fields : JFields) (gm : Bytes) (m0 : Scal)
    (elems : List (Bytes × Scal)) (gc : Bytes) (rest : JFields) (gt : Bytes) (hgt : Blank gt)
    (hv : JValidF (.cons g0 k g1 o (.mixed g g0' k' g1' o' v fields gm m0 elems gc) rest) gt)
    (hb : hasBom (jrenderF (.cons g0 k g1 o (.mixed g g0' k' g1' o' v fields gm m0 elems gc) rest) ++ gt) = false) :
    ∃ T, parse (jrenderF (.cons g0 k g1 o (.mixed g g0' k' g1' o' v fields gm m0 elems gc) rest) ++ gt) = .ok T false ∧
      T.map Tok.erase =
        ktapeF (.cons k o (.mixed (.cons k' o' (kcontentV v) (kcontentF fields)) (m0 :: elems.map (·.2)))
          (kcontentF rest)) 0 :=
  faithful_tree _ gt hgt hv hb

/-- …where the tape of a mixed container is: `Object(end, mixed)`, its fields, `MixedContainer`,
the bare scalars, `End`. -/
example (fs : KFields) (vs : List Scal) (b : Nat) :
    ktapeV (.mixed fs vs) b =
      [.object (b + 1 + kcntF fs + 1 + vs.length) true] ++ ktapeF fs (b + 1) ++
        [.mixedContainer] ++ vs.map (fun s => (s.tok []).erase) ++ [.endTok b] := by
  simp only [ktapeV]

/-- the hypotheses are satisfiable: `a={b=c d e}⏎`. -/
example : JValidF exampleMixed [10] ∧ Blank [10] ∧ hasBom (jrenderF exampleMixed ++ [10]) = false :=
  exampleMixed_valid

/-- C01_faithful, parameter blocks in key position (top level or between the fields of a
container): `[[name] value ]` / `[[!name] value ]` give `Parameter` / `UndefinedParameter` followed
by the value; `[[name] key op value fields… ]` gives the parameter token followed by an object (its
first key always read as an unquoted scalar) that the `]` closes. -/
theorem C01_faithful_param_value_partial (g0 : Bytes) (isU : Bool) (name g1 : Bytes) (val : Scal) (g2 : Bytes)
    (rest : JFields) (gt : Bytes) (hgt : Blank gt)
    (hv : JValidF (.paramVal g0 isU name g1 val g2 rest) gt)
    (hb : hasBom (jrenderF (.paramVal g0 isU name g1 val g2 rest) ++ gt) = false) :
    ∃ T, parse (jrenderF (.paramVal g0 isU name g1 val g2 rest) ++ gt) = .ok T false ∧
      T.map Tok.erase =
        [paramTok isU ⟨0, name⟩, .unquoted ⟨0, val.bytes⟩] ++ ktapeF (kcontentF rest) (0 + 2) := by
  obtain ⟨T, h1, h2⟩ := faithful_tree _ gt hgt hv hb
  exact ⟨T, h1, by rw [h2]; simp only [kcontentF, ktapeF]⟩

theorem C01_faithful_param_object_partial (g0 : Bytes) (isU : Bool) (name g1 : Bytes) (k : Scal) (g2 : Bytes)
    (o : Op) (v : JVal) (inner : JFields) (gc : Bytes) (rest : JFields) (gt : Bytes) (hgt : Blank gt)
    (hv : JValidF (.paramObj g0 isU name g1 k g2 o v inner gc rest) gt)
    (hb : hasBom (jrenderF (.paramObj g0 isU name g1 k g2 o v inner gc rest) ++ gt) = false) :
    ∃ T, parse (jrenderF (.paramObj g0 isU name g1 k g2 o v inner gc rest) ++ gt) = .ok T false ∧
      T.map Tok.erase =
        ktapeF (.paramObj isU name (.cons ⟨false, k.bytes⟩ o (kcontentV v) (kcontentF inner)) (kcontentF rest)) 0 :=
  faithful_tree _ gt hgt hv hb

/-- …where the tape of a parameter block in object form is: the parameter token, `Object(end)`,
the fields, `End`. -/
example (isU : Bool) (name : Bytes) (fs rest : KFields) (b : Nat) :
    ktapeF (.paramObj isU name fs rest) b =
      [paramTok isU ⟨0, name⟩, .object (b + 2 + kcntF fs) false] ++ ktapeF fs (b + 2) ++
        [.endTok (b + 1)] ++ ktapeF rest (b + (3 + kcntF fs)) := by
  simp only [ktapeF]

/-- the hypotheses are satisfiable: `[[x] a=b c=d ] [[!y] v ] e=f⏎`. -/
example : JValidF exampleParam [10] ∧ Blank [10] ∧ hasBom (jrenderF exampleParam ++ [10]) = false :=
  exampleParam_valid

/-- C01_faithful, BOM in front of a structured document: same tape (positions included, since the
model records them relative to the end of the input), BOM flag set. -/
theorem C01_faithful_bom_partial (fs : JFields) (gt : Bytes) (hgt : Blank gt) (hv : JValidF fs gt)
    (hb : hasBom (jrenderF fs ++ gt) = false) :
    parse (0xef :: 0xbb :: 0xbf :: (jrenderF fs ++ gt)) = .ok (jtapeF fs 0 gt) true :=
  parse_tree_bom fs gt hgt hv hb

/-- the hypotheses are satisfiable: `a={1 {b=c} {}} d={{x}}⏎`. -/
example : JValidF exampleTree [10] ∧ Blank [10] ∧ hasBom (jrenderF exampleTree ++ [10]) = false :=
  exampleTree_valid

/-- the hypotheses are satisfiable: `a={b="x" c<{d=e}}⏎`. -/
example : ValidF exampleNested [10] ∧ Blank [10] ∧ hasBom (renderF exampleNested ++ [10]) = false :=
  exampleNested_valid

/-- and its parse is the tape the theorem predicts. -/
example : parse (renderF exampleNested ++ [10]) = .ok (tapeF exampleNested 0 [10]) false := by
  decide +kernel

/-- the hypotheses are satisfiable: `a ?= #x⏎"b\"c"⏎`. -/
example : ValidFlat exampleFlat [10] ∧ hasBom (renderFlat exampleFlat [10]) = false := exampleFlat_valid

/-! ### C06 (text half) and C19 (text lexemes): stated in `Proofs/TextTapeWf.lean` /
`Proofs/TextTapeCut.lean` under their own names, repeated here so that this check audits them. -/

/-- `wfTextTape` (the checker `wftext` runs on every parsed tape) is the declarative
`WfTextTape`: links both ways, no index 0, no crossing containers, scalars are input
sub-slices with strictly increasing starts. -/
theorem C01_C06_text_checker_sound (input : Bytes) (toks : List Tok) :
    wfTextTape input toks = true ↔ WfTextTape input toks :=
  C06_text_checker_sound input toks

/-- C06, text half, at full strength: whenever the parser model succeeds, on ANY input (well
formed or not, any layout, truncated, random bytes), the tape satisfies `WfTextTape`.  Proof: an
invariant on the shapes of the tape tokens (open containers form a strictly decreasing chain
through their `end` slots down to 0, everything else is closed, linked both ways and nested)
preserved by every transition incl. the EOF auto-close and the `MixedContainer` insert, plus an
invariant on the scalars (sub-slices of the input, strictly decreasing distance to the end). -/
theorem C01_C06_text_inv (input : Bytes) (T : List Tok) (b : Bool) (h : parse input = .ok T b) :
    WfTextTape input T :=
  C06_text_inv input T b h

/-- a quoted scalar obtained from a truncated input is the scalar of the whole input at that
place (never extended), and its closing quote lies inside the prefix. -/
theorem C01_C19_quote_not_extended (d : Bytes) (k : Nat) (s rest : Bytes)
    (h : parseQuoteScalar (d.take k) = .ok (s, rest)) :
    parseQuoteScalar d = .ok (s, rest ++ d.drop k) ∧ s.length + 2 ≤ k :=
  C19_quote_not_extended d k s rest h

/-- an unquoted scalar obtained from a truncated input is a prefix of the scalar of the whole
input at that place, equal to it unless it reaches the cut, and never spans a boundary byte. -/
theorem C01_C19_scalar_not_merged (d : Bytes) (k : Nat) (s rest : Bytes)
    (h : splitAtScalar (d.take k) = some (s, rest)) :
    ∃ s' rest', splitAtScalar d = some (s', rest') ∧ s <+: s' ∧ (s = s' ∨ rest = []) ∧
      ∀ i (hi : i < s.length), 0 < i → isBoundary s[i] = false :=
  C19_scalar_not_merged d k s rest h

/-- `ab=c` cut after `a`. -/
example : splitAtScalar (([97, 98, 61, 99] : Bytes).take 1) = some ([97], []) := by decide +kernel

end Jomini.Props.C01
