import JominiModel.Model.TextTape
import JominiModel.Generated.Tables
/-
C01 — Text tape mirrors the document's structure regardless of layout.
Only property theorems live here; helper lemmas are in `Proofs/TextTape*.lean`.
-/
namespace Jomini.Props.C01
open Jomini Jomini.TextTape

/-- the byte set the 16-byte block scan of `split_at_scalar` stops at is exactly the
`is_boundary` table its bytewise tail uses (both measured from the compiled code). -/
theorem C01_tables_sse_eq_tab : Tables.sseBoundary = Tables.boundaryTab := by decide +kernel

end Jomini.Props.C01
