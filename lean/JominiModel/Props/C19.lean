import JominiModel.Proofs.TextReaderCut
import JominiModel.Proofs.BinDeCutDoc
import JominiModel.Proofs.BinCut
import JominiModel.Proofs.TextTapeCut
import JominiModel.Proofs.BinTapeCut
import JominiModel.Proofs.TextDeCut
import JominiModel.Proofs.BinDeCut
/-
C19 — Truncated documents never yield fabricated data.

Obligations: every `C19_…` theorem of the files listed in tools/meta/C19.json (the statements live next to their
proofs; the audit collects them by prefix) plus the restatements below.

* Binary lexer: `C19_lex_prefix` — lexing a prefix yields exactly the tokens of the full input that end at or before
  the cut, a clean end iff the cut is a token boundary, otherwise `eof`.
* Binary tape (Proofs/BinTapeCut.lean), all bytes, both parsers: `C19_bin_tape_cut_point`, `_prefix`, `_cut_offset`
  (an accepted cut stands at depth 0 in key state, or one stray byte behind such a point), `_cut_error` and its two
  instances `C19_bin_tape_cut_inside_token_error`, `C19_bin_tape_cut_inside_container_error`.
* Binary sequential deserializers (Proofs/BinDeCut.lean, BinDeCutDoc.lean): `C19_bin_de_cut` — an accepted cut after
  any number of lexemes yields exactly the value of the complete top-level fields.
* Text lexeme level: `C19_quote_not_extended`, `C19_scalar_not_merged` (no table hypothesis any more).
* Text READER on byte-level cuts (Proofs/TextReaderCut.lean): `C19_text_reader_cut`, `_stream`, `_forms`,
  `C19_known_bom_cut` — prefix of the full run's tokens plus at most one prefix-shortened unquoted scalar.
* Text tape (Proofs/TextTapeCut.lean), ALL inputs and ALL cuts, about the PINNED split state `CutSplit` (the state
  both runs are in after the same `j` iterations): `C19_text_tape_split` (+ `_split_pins`: the relation determines
  both tapes), `C19_text_tape_common_prefix`, `C19_text_tape_tail_sharp` (at most 6 tokens behind the split tape;
  every settled token of the split tape is common; scalars carry the full input's bytes),
  `C19_text_tape_fields_partial` (complete top-level fields inside the final part; missing: the field being cut and
  what follows it), and for cuts on lexeme boundaries `C19_text_tape_boundary_cut` (the truncated tape IS the full
  run's tape at that iteration plus the EOF auto-close).  Each restated theorem carries a NON-instance example: for
  two unrelated successful parses the conclusion is refuted (an independent review had found the earlier,
  existentially quantified forms satisfiable by unrelated parses).
* Text deserializers (Proofs/TextDeCut.lean): `C19_text_de` and the spec forms.

Decided by correspondence / oracle only (`tcut`, `bcut`, the cut oracles of harness/src/props/c19.rs, the x-scale
truncation ops): the classification of the ≤ 6 tail tokens for cuts INSIDE a lexeme; the fate of containers open at
the split point.
-/
namespace Jomini.Props.C19
open Jomini

theorem C19_bin_lexer_prefix : type_of% @BinLexer.C19_lex_prefix := @BinLexer.C19_lex_prefix

theorem C19_text_quote_not_extended : type_of% @TextTape.C19_quote_not_extended := @TextTape.C19_quote_not_extended

theorem C19_text_scalar_not_merged : type_of% @TextTape.C19_scalar_not_merged := @TextTape.C19_scalar_not_merged

end Jomini.Props.C19
