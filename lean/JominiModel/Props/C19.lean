import JominiModel.Proofs.BinDeCutDoc
import JominiModel.Proofs.BinCut
import JominiModel.Proofs.TextTapeCut
import JominiModel.Proofs.BinTapeCut
import JominiModel.Proofs.TextDeCut
import JominiModel.Proofs.BinDeCut
/-
C19 — Truncated documents never yield fabricated data.

Obligations: every `C19_…` theorem of the files listed in tools/meta/C19.json plus the
restatements below.  Proved so far: the binary lexer level (`C19_lex_prefix`: lexing a prefix
yields exactly the tokens of the full input that end at or before the cut, a clean end iff the cut
is a token boundary, otherwise `eof`) and the text lexeme level (`C19_quote_not_extended`,
`C19_scalar_not_merged`).  The tape / deserializer level (`C19_bin_tape`, `C19_text_tape`) is
decided by correspondence (`tcut`, `bcut`) and the cut oracles of harness/src/props/c19.rs only.
-/
namespace Jomini.Props.C19
open Jomini

theorem C19_bin_lexer_prefix : type_of% @BinLexer.C19_lex_prefix := @BinLexer.C19_lex_prefix

theorem C19_text_quote_not_extended : type_of% @TextTape.C19_quote_not_extended := @TextTape.C19_quote_not_extended

theorem C19_text_scalar_not_merged : type_of% @TextTape.C19_scalar_not_merged := @TextTape.C19_scalar_not_merged

end Jomini.Props.C19
