import JominiModel.Proofs.Date
import JominiModel.Proofs.DateFast
import JominiModel.Proofs.DateFmt
import JominiModel.Proofs.DateArith
import JominiModel.Proofs.DateSerde
import JominiModel.Generated.Tables
/-
C13 — Date codecs are mutually inverse and date arithmetic is consistent.
Only property theorems live here; helper lemmas are in `Proofs/Date*.lean`.
-/
namespace Jomini.Props.C13
open Jomini Jomini.Date

/-- the calendar tables measured from the compiled code are the ones the model uses:
`DAYS_PER_MONTH` as observed through `Date::from_ymd_opt`, and `julian_ordinal_day`
(as read off `Date::to_binary`) is the running sum of the month lengths. -/
theorem C13_tables :
    Tables.dateDaysPerMonth = daysPerMonth ∧
    Tables.dateMonthStart.map (fun (n : Nat) => some ((n : Int) - 1))
      = (List.range 12).map (fun m => julianOrdinalDay (m + 1)) := by
  decide

/-! ### binary codec -/

/-- **to_binary ∘ from_binary, Date.**  Every date the constructor makes, from year −5000 on,
encodes to an `i32` that decodes to the same date. -/
theorem C13_bin_roundtrip_date (y : Int) (m d : Nat) (x : Date.Date) (hy : inI16 y = true)
    (h5000 : -5000 ≤ y) (hx : Date.fromYmdOpt y m d = .ok x) :
    ∃ b, x.toBinary = .ok b ∧ inI32 b = true ∧ Date.fromBinary b = .ok x := by
  rw [Date.fromYmdOpt_eq] at hx
  by_cases hv : ValidMd m d
  · rw [if_pos hv] at hx
    cases hx
    refine ⟨binOf y m d 0, Date.toBinary_mk y hv, (binOf_fits y 0 hy hv (by omega)).2.2.2, ?_⟩
    exact Date.fromBinary_of_expanded hv (Expanded.fromBinary_binOf y m d 0 hy h5000 hv (by omega))
  · rw [if_neg hv] at hx; cases hx

example : Date.fromYmdOpt 1444 11 11 = .ok (mkDate 1444 11 11) := by decide

/-- **to_binary ∘ from_binary, DateHour** (hours 1–24). -/
theorem C13_bin_roundtrip_datehour (y : Int) (m d h : Nat) (x : DateHour) (hy : inI16 y = true)
    (h5000 : -5000 ≤ y) (hx : DateHour.fromYmdhOpt y m d h = .ok x) :
    ∃ b, x.toBinary = .ok b ∧ inI32 b = true ∧ DateHour.fromBinary b = .ok x := by
  rw [DateHour.fromYmdhOpt_eq] at hx
  by_cases hv : ValidMd m d ∧ ValidHour h
  · rw [if_pos hv] at hx
    cases hx
    have hh : h - 1 < 24 := by have := hv.2; unfold ValidHour at this; omega
    refine ⟨binOf y m d (h - 1), DateHour.toBinary_mk y hv.1 hv.2, (binOf_fits y (h - 1) hy hv.1 hh).2.2.2, ?_⟩
    have := DateHour.fromBinary_of_expanded hv.1 hh (Expanded.fromBinary_binOf y m d (h - 1) hy h5000 hv.1 hh)
    have e : h - 1 + 1 = h := by have := hv.2; unfold ValidHour at this; omega
    rwa [e] at this
  · rw [if_neg hv] at hx; cases hx

example : DateHour.fromYmdhOpt 1936 1 1 24 = .ok (mkDateHour 1936 1 1 24) := by decide

/-- the bound `year ≥ −5000` is necessary: 2 January −5001 encodes to −8736, which is refused. -/
theorem C13_bin_roundtrip_needs_year_bound :
    (mkDate (-5001) 1 2).toBinary = .ok (-8736) ∧ Date.fromBinary (-8736) = .err := by
  decide

/-- **from_binary re-encodes, DateHour**: whatever `DateHour::from_binary` accepts encodes back to
the same number (for every integer, in particular the whole `i32` range). -/
theorem C13_from_binary_reencode_datehour (s : Int) (x : DateHour)
    (h : DateHour.fromBinary s = .ok x) : x.toBinary = .ok s := by
  rcases Expanded.fromBinary_cases s with he | ⟨y, m, d, h0, hv, hh, _, hb, _, he⟩
  · simp [DateHour.fromBinary, he] at h
  · rw [DateHour.fromBinary_of_expanded hv hh he] at h
    cases h
    rw [DateHour.toBinary_mk y hv (by unfold ValidHour; omega)]
    simp only [Nat.add_sub_cancel, hb]

/-- **from_binary re-encodes, Date**: the day is kept, the hour is dropped
(`s − s % 24`, Rust remainder). -/
theorem C13_from_binary_reencode_date (s : Int) (x : Date.Date)
    (h : Date.fromBinary s = .ok x) : x.toBinary = .ok (s - s.tmod 24) := by
  rcases Expanded.fromBinary_cases s with he | ⟨y, m, d, h0, hv, hh, _, hb, hm, he⟩
  · simp [Date.fromBinary, he] at h
  · rw [Date.fromBinary_of_expanded hv he] at h
    cases h
    rw [Date.toBinary_mk y hv]
    congr 1
    rw [← hm, ← hb]
    simp only [binOf]
    omega

example : Date.fromBinary 60759371 = .ok (mkDate 1936 1 1) ∧ (60759371 : Int).tmod 24 = 11 := by decide

/-- **no panic, no overflow over the whole `i32` range** (indeed for every integer):
`from_binary` of all three types never reaches `unreachable!()` / an overflowing `hour += 1`;
whatever is accepted has an `i16` year, a calendar day and an hour below 24, and the casts
`hour as u8`, `day as u8` lose nothing (the result *is* the calendar day whose binary value is `s`). -/
theorem C13_no_overflow_from_binary (s : Int) :
    Date.fromBinary s ≠ .panic ∧ DateHour.fromBinary s ≠ .panic ∧ RawDate.fromBinary s ≠ .panic ∧
    (∀ e, Expanded.fromBinary s = .ok e →
      inI16 e.year = true ∧ ValidMd e.month e.day ∧ e.hour < 24 ∧ binOf e.year e.month e.day e.hour = s) := by
  rcases Expanded.fromBinary_cases s with he | ⟨y, m, d, h0, hv, hh, hy, hb, _, he⟩
  · refine ⟨?_, ?_, ?_, ?_⟩ <;> simp [Date.fromBinary, DateHour.fromBinary, RawDate.fromBinary, he]
  · refine ⟨?_, ?_, ?_, ?_⟩
    · rw [Date.fromBinary_of_expanded hv he]; simp
    · rw [DateHour.fromBinary_of_expanded hv hh he]; simp
    · have hr : ValidRaw m d h0 := by
        have := validMd_lt hv
        unfold ValidMd at hv; unfold ValidRaw; omega
      simp [RawDate.fromBinary, he, RawDate.fromExpanded, RawDate.fromYmdhOpt_eq, hr]
    · intro e h
      rw [he] at h
      cases h
      exact ⟨hy, hv, hh, hb⟩

/-- **no overflow in `to_binary`**: for an `i16` year, a calendar day and an hour 1–24 every
intermediate of date.rs:1143-1147 fits an `i32`. -/
theorem C13_no_overflow_to_binary (y : Int) (m d h0 : Nat) (hy : inI16 y = true) (hv : ValidMd m d)
    (hh : h0 < 24) :
    inI32 ((y + 5000) * 365) = true ∧ inI32 ((y + 5000) * 365 + ordinal m d) = true ∧
    inI32 (((y + 5000) * 365 + ordinal m d) * 24) = true ∧ inI32 (binOf y m d h0) = true :=
  binOf_fits y h0 hy hv hh

/-! ### digit-packed fast paths -/

/-- **`util::fast_digit_parse`** on the little-endian word of eight bytes: `None` unless all
eight are ASCII digits, otherwise exactly their decimal value (first byte most significant).
(SWAR lemmas by `bv_decide` in `Proofs/SwarDate.lean`.) -/
theorem C13_fast_digit_parse (b0 b1 b2 b3 b4 b5 b6 b7 : UInt8) :
    fastDigitParse (leU64 [b0, b1, b2, b3, b4, b5, b6, b7]) =
      if (isDigit b0 && isDigit b1 && isDigit b2 && isDigit b3 && isDigit b4 && isDigit b5 && isDigit b6 && isDigit b7) = true
      then some (BitVec.ofNat 64 (decVal [b0, b1, b2, b3, b4, b5, b6, b7])) else none :=
  fastDigitParse_bytes b0 b1 b2 b3 b4 b5 b6 b7

example : fastDigitParse (leU64 [49, 52, 52, 52, 49, 49, 49, 49]) = some 14441111#64 := by decide

/-- **the digit-packed fast paths agree with component-wise parsing**, for *all* byte strings:
`Date::parse` is the component-wise `fallback` behind a front test that only looks at the
length, the dot positions and the first byte (`earlyReject`, Spec/Date.lean).  The three slice
patterns, the 8-byte mask trick for `YYYY.M.D` and `fast_digit_parse` never change a result. -/
theorem C13_fastpaths_agree (s : Bytes) :
    Date.parse s = if Date.earlyReject s = true then .err else Date.fallback s :=
  Date.parse_eq s

example : Date.earlyReject [49, 52, 52, 52, 46, 49, 49, 46, 49, 49] = false ∧
    Date.parse [49, 52, 52, 52, 46, 49, 49, 46, 49, 49] = .ok (mkDate 1444 11 11) := by decide

/-! ### format → parse -/

/-- **format → parse, Date** (both the short game format `Y.M.D` that `Date::game_fmt` writes and
the zero padded `Y.MM.DD`): the text parses back to the same date — through whichever of the
fast paths the text happens to hit. -/
theorem C13_fmt_parse_date (wide : Bool) (y : Int) (m d : Nat) (hy : inI16 y = true) (hv : ValidMd m d) :
    ∃ txt, format (mkDate y m d).raw (if wide then .dotWide else .dotShort) = .ok txt ∧
      Date.parse txt = .ok (mkDate y m d) := by
  have hl := validMd_lt hv
  refine ⟨_, format_dot wide y m d 0 hl.1 hl.2 (by omega), ?_⟩
  have hw : (if wide then 2 else 0) = 0 ∨ (if wide then 2 else 0) = 2 := by cases wide <;> simp
  rw [Date.parse_eq, earlyReject_dotText _ hw y m d hy (by omega) (by omega)]
  simp only [Bool.false_eq_true, if_false, Date.fallback,
    Expanded.parse_dotText _ hw y m d 0 hy (by omega) (by omega) (by omega), Out.bind_ok, Date.fromExpanded]
  simp [Date.fromYmdOpt_eq, hv]

theorem C13_fmt_parse_date_game (y : Int) (m d : Nat) (hy : inI16 y = true) (hv : ValidMd m d) :
    ∃ txt, (mkDate y m d).gameFmt = .ok txt ∧ Date.parse txt = .ok (mkDate y m d) :=
  C13_fmt_parse_date false y m d hy hv

/-- **format → parse, DateHour** (hours 1–24, short and zero padded form; the zero padded hour
`01`–`09` parses since /repo 22c32b0). -/
theorem C13_fmt_parse_datehour (wide : Bool) (y : Int) (m d h : Nat) (hy : inI16 y = true) (hv : ValidMd m d)
    (hh : ValidHour h) :
    ∃ txt, format (mkDateHour y m d h).raw (if wide then .dotWide else .dotShort) = .ok txt ∧
      DateHour.parse txt = .ok (mkDateHour y m d h) := by
  have hl := validMd_lt hv
  have hh' : h < 32 := by unfold ValidHour at hh; omega
  refine ⟨_, format_dot wide y m d h hl.1 hl.2 hh', ?_⟩
  have hw : (if wide then 2 else 0) = 0 ∨ (if wide then 2 else 0) = 2 := by cases wide <;> simp
  simp only [DateHour.parse,
    Expanded.parse_dotText _ hw y m d h hy (by omega) (by omega) (by omega), Out.bind_ok, DateHour.fromExpanded]
  simp [DateHour.fromYmdhOpt_eq, hv, hh]

/-- **format → parse, UniformDate** (its game format is the zero padded one). -/
theorem C13_fmt_parse_uniform (y : Int) (m d : Nat) (hy : inI16 y = true) (hv : ValidUniformMd m d) :
    ∃ txt, (mkUniform y m d).gameFmt = .ok txt ∧ UniformDate.parse txt = .ok (mkUniform y m d) := by
  have hm : m < 16 := by unfold ValidUniformMd at hv; omega
  have hd : d < 32 := by unfold ValidUniformMd at hv; omega
  have hf : (mkUniform y m d).gameFmt = .ok (dotText 2 y m d 0) := format_dot true y m d 0 hm hd (by omega)
  refine ⟨_, hf, ?_⟩
  simp only [UniformDate.parse,
    Expanded.parse_dotText 2 (Or.inr rfl) y m d 0 hy (by omega) (by omega) (by omega), Out.bind_ok, UniformDate.fromExpanded]
  simp [UniformDate.fromYmdOpt_eq, hv]

/-- **format → parse, RawDate** (any month 1–12, day 1–31, hour absent or 1–24). -/
theorem C13_fmt_parse_raw (wide : Bool) (y : Int) (m d h : Nat) (hy : inI16 y = true) (hv : ValidRaw m d h) :
    ∃ txt, format (mkRaw y m d h) (if wide then .dotWide else .dotShort) = .ok txt ∧
      RawDate.parse txt = .ok (mkRaw y m d h) := by
  have hv' := hv
  unfold ValidRaw at hv'
  refine ⟨_, format_dot wide y m d h (by omega) (by omega) (by omega), ?_⟩
  have hw : (if wide then 2 else 0) = 0 ∨ (if wide then 2 else 0) = 2 := by cases wide <;> simp
  obtain ⟨tl, ht⟩ := toI64T_dotText _ hw y m d h hy (by omega) (by omega) (by omega)
  simp only [RawDate.parse, ht,
    Expanded.parse_dotText _ hw y m d h hy (by omega) (by omega) (by omega), Out.bind_ok, RawDate.fromExpanded]
  simp [RawDate.fromYmdhOpt_eq, hv]


example : ∃ txt, (mkDate (-17) 1 1).gameFmt = .ok txt ∧ Date.parse txt = .ok (mkDate (-17) 1 1) :=
  C13_fmt_parse_date_game (-17) 1 1 (by decide) (by decide)

/-- **ISO-8601 rendering shows the same components**, the hour as 0–23: the text is
`{:04}-{:02}-{:02}` plus `T{:02}` of `hour − 1`; it never panics; every field reads back as the
component (two digits for month, day and hour; optional '-' and digits for the year). -/
theorem C13_iso (y : Int) (m d h : Nat) (hy : inI16 y = true) (hv : ValidRaw m d h) :
    format (mkRaw y m d h) .iso8601 = .ok (isoText y m d h) ∧
    Num12 (fmtInt 2 (m : Int)) m ∧ Num12 (fmtInt 2 (d : Int)) d ∧
    (h ≠ 0 → Num12 (fmtInt 2 ((h - 1 : Nat) : Int)) (h - 1) ∧ h - 1 ≤ 23) ∧
    (∃ ds, allDigits ds = true ∧ decVal ds = y.natAbs ∧ fmtInt 4 y = (if y < 0 then [45] else []) ++ ds) := by
  have hv' := hv
  unfold ValidRaw at hv'
  refine ⟨format_iso y m d h (by omega) (by omega) (by omega), fmtInt_small 2 (Or.inr rfl) m (by omega),
    fmtInt_small 2 (Or.inr rfl) d (by omega), ?_, fmtInt4_year y hy⟩
  intro h0
  exact ⟨fmtInt_small 2 (Or.inr rfl) (h - 1) (by omega), by omega⟩

example : format (mkRaw 1936 1 1 24) .iso8601 = .ok [49, 57, 51, 54, 45, 48, 49, 45, 48, 49, 84, 50, 51] := by decide

/-! ### arithmetic -/

/-- **`add_days` and `days_until` are inverse** whenever the new day number `days + n` does not
fall strictly between −365 and 0 (the computation stays on one side of year 0; the start date
may be on either side) and the resulting year is an `i16` (otherwise `add_days` panics, as
documented).  `daysOf` is the day number `365·y ± ordinal` of Spec/Date.lean. -/
theorem C13_add_days (y : Int) (m d : Nat) (n : Int) (hv : ValidMd m d)
    (hside : 0 ≤ daysOf y m d + n ∨ daysOf y m d + n ≤ -365)
    (hfit : inI16 ((daysOf y m d + n).tdiv 365) = true) :
    ((mkDate y m d).addDays n).bind (fun r => (mkDate y m d).daysUntil r) = .ok n := by
  rw [addDays_then_until y hv n hfit, if_pos hside]
  congr 1
  omega

example : ((mkDate 1400 1 1).addDays 729).bind (fun r => (mkDate 1400 1 1).daysUntil r) = .ok 729 := by decide
example : ((mkDate (-3) 6 3).addDays 1) = .ok (mkDate (-3) 6 2) ∧
    ((mkDate (-3) 6 3).addDays 1).bind (fun r => (mkDate (-3) 6 3).daysUntil r) = .ok 1 := by decide

/-- **the hypothesis of `C13_add_days` is necessary**: when the new day number falls into the band
`−365 < days + n < 0` the date lands in year 0 with the sign of the day number lost, and
`days_until` returns `n − 2·(days + n) ≠ n`. -/
theorem C13_add_days_band (y : Int) (m d : Nat) (n : Int) (hv : ValidMd m d)
    (hband : -365 < daysOf y m d + n ∧ daysOf y m d + n < 0) :
    ∃ k, ((mkDate y m d).addDays n).bind (fun r => (mkDate y m d).daysUntil r) = .ok k ∧ k ≠ n := by
  have hq : (daysOf y m d + n).tdiv 365 = 0 := by
    have := Int.tdiv_eq_ediv (a := daysOf y m d + n) (b := 365)
    have hs : Int.sign 365 = 1 := rfl
    rw [hs] at this
    split at this <;> omega
  have hfit : inI16 ((daysOf y m d + n).tdiv 365) = true := by rw [hq]; decide
  refine ⟨_, addDays_then_until y hv n hfit, ?_⟩
  rw [if_neg (by omega)]
  omega

example : ((mkDate 1 1 1).addDays (-366)) = .ok (mkDate 0 1 2) ∧
    ((mkDate 1 1 1).addDays (-366)).bind (fun r => (mkDate 1 1 1).daysUntil r) = .ok (-364) := by decide

/-- `add_days` panics exactly when the result is not representable (documented behaviour). -/
theorem C13_add_days_panics (y : Int) (m d : Nat) (n : Int) (hv : ValidMd m d) :
    (mkDate y m d).addDays n = .panic ↔
      ¬ (inI32 (daysOf y m d + n) = true ∧ inI16 ((daysOf y m d + n).tdiv 365) = true) := by
  rw [Date.addDays_mk y hv n]
  by_cases h : inI32 (daysOf y m d + n) = true ∧ inI16 ((daysOf y m d + n).tdiv 365) = true
  · rw [if_pos h]
    have hlt := Int.tmod_lt_of_pos (daysOf y m d + n) (b := 365) (by omega)
    have hgt : -365 < (daysOf y m d + n).tmod 365 := by
      have := Int.tmod_eq_emod (a := daysOf y m d + n) (b := 365)
      have h2 := Int.emod_nonneg (daysOf y m d + n) (b := 365) (by omega)
      rw [this]; split <;> simp <;> omega
    obtain ⟨m', d', hmd, _, _⟩ :=
      monthDayFromJulian_spec (((daysOf y m d + n).tmod 365).natAbs : Nat) (by omega) (by omega)
    rw [hmd]
    simp [h]
  · rw [if_neg h]; simp [h]

/-- **ordering agrees with the sign of `days_until`** for years ≥ 1 (indeed ≥ 0):
`a < b ⇔ a.days_until(b) > 0`, `a = b ⇔ … = 0`, `a > b ⇔ … < 0`. -/
theorem C13_ord (y1 y2 : Int) (m1 d1 m2 d2 : Nat) (hy1 : 1 ≤ y1) (hy2 : 1 ≤ y2)
    (h1 : ValidMd m1 d1) (h2 : ValidMd m2 d2) :
    ∃ n, (mkDate y1 m1 d1).daysUntil (mkDate y2 m2 d2) = .ok n ∧
      (mkDate y1 m1 d1).cmp (mkDate y2 m2 d2) = compare 0 n := by
  refine ⟨_, Date.daysUntil_mk y1 h1 y2 h2, ?_⟩
  rw [cmp_eq_compare_days y1 y2 (by omega) (by omega) h1 h2]
  rcases Int.lt_trichotomy (daysOf y1 m1 d1) (daysOf y2 m2 d2) with h | h | h
  · rw [Int.compare_eq_lt.2 h, Int.compare_eq_lt.2 (by omega)]
  · rw [Int.compare_eq_eq.2 h, Int.compare_eq_eq.2 (by omega)]
  · rw [Int.compare_eq_gt.2 h, Int.compare_eq_gt.2 (by omega)]

example : (mkDate 1457 3 4).cmp (mkDate 1457 3 5) = .lt ∧
    (mkDate 1457 3 4).daysUntil (mkDate 1457 3 5) = .ok 1 := by decide

/-- the bound on the years is necessary: before year 0 the day numbers run backwards. -/
theorem C13_ord_needs_positive_years :
    (mkDate (-1) 1 1).cmp (mkDate (-1) 1 2) = .lt ∧
    (mkDate (-1) 1 1).daysUntil (mkDate (-1) 1 2) = .ok (-1) := by decide

/-! ### what the parsers accept, and only that -/

/-- **exact grammar of the component parser** (`ExpandedRawDate::parse`, shared by all four
types), as an iff: the integer prefix parser (`scalar::to_i64_t`, property C11) reads a number;
then either nothing is left and the number is decoded as the binary form, or what is left is
exactly `.M.D` or `.M.D.H` — each component one or two ASCII digits, `H` not zero — the number
fits an `i16`, and the result carries exactly those components.  Anything else (a third digit,
a foreign byte, a trailing byte, an empty component) is refused. -/
theorem C13_rejects_grammar (s : Bytes) (e : Expanded) :
    Expanded.parse s = .ok e ↔
      ∃ v rest, Scalar.toI64T s = .ok (v, rest) ∧
        ((rest = [] ∧ inI32 v = true ∧ Expanded.fromBinary v = .ok e) ∨
         (rest ≠ [] ∧ inI16 v = true ∧ e.year = v ∧ IsRestText rest e.month e.day e.hour)) :=
  Expanded.parse_iff s e

example : IsRestText [46, 49, 49, 46, 51, 48] 11 30 0 :=
  ⟨[49, 49], [51, 48], Or.inr ⟨49, 49, rfl, by decide, by decide, rfl⟩, Or.inr ⟨51, 48, rfl, by decide, by decide, rfl⟩,
    Or.inl ⟨rfl, rfl⟩⟩

/-- **the typed constructors accept exactly their calendar**: `Date` days 1..days-in-month of
months 1..12 (measured table, `C13_tables`), `DateHour` additionally hours 1..24, `UniformDate`
days 1..30, `RawDate` days 1..31 and hours 0..24 — everything else is `None`, never a panic. -/
theorem C13_rejects_constructors (y : Int) (m d h : Nat) :
    Date.fromYmdOpt y m d = (if ValidMd m d then .ok (mkDate y m d) else .err) ∧
    DateHour.fromYmdhOpt y m d h = (if ValidMd m d ∧ ValidHour h then .ok (mkDateHour y m d h) else .err) ∧
    UniformDate.fromYmdOpt y m d = (if ValidUniformMd m d then .ok (mkUniform y m d) else .err) ∧
    RawDate.fromYmdhOpt y m d h = (if ValidRaw m d h then .ok (mkRaw y m d h) else .err) :=
  ⟨Date.fromYmdOpt_eq y m d, DateHour.fromYmdhOpt_eq y m d h, UniformDate.fromYmdOpt_eq y m d,
    RawDate.fromYmdhOpt_eq y m d h⟩

/-- **a typed parser returns only dates of its calendar, with the components the text has**:
whatever `Date::parse` / `DateHour::parse` / `UniformDate::parse` accept went through the
component parser (`C13_rejects_grammar`) and the constructor (`C13_rejects_constructors`):
month 0/13+, a day the calendar lacks, hour 0/25+ (or an hour on a `Date`) are refused. -/
theorem C13_rejects_typed (s : Bytes) :
    (∀ x, Date.parse s = .ok x → ∃ e, Expanded.parse s = .ok e ∧ e.hour = 0 ∧ ValidMd e.month e.day ∧
        x = mkDate e.year e.month e.day) ∧
    (∀ x, DateHour.parse s = .ok x → ∃ e, Expanded.parse s = .ok e ∧ ValidHour e.hour ∧ ValidMd e.month e.day ∧
        x = mkDateHour e.year e.month e.day e.hour) ∧
    (∀ x, UniformDate.parse s = .ok x → ∃ e, Expanded.parse s = .ok e ∧ e.hour = 0 ∧
        ValidUniformMd e.month e.day ∧ x = mkUniform e.year e.month e.day) := by
  refine ⟨?_, ?_, ?_⟩
  · intro x hx
    rw [Date.parse_eq] at hx
    split at hx
    · cases hx
    · unfold Date.fallback at hx
      cases he : Expanded.parse s with
      | ok e =>
        rw [he] at hx
        simp only [Out.bind_ok, Date.fromExpanded] at hx
        split at hx
        · cases hx
        · rename_i h0
          rw [Date.fromYmdOpt_eq] at hx
          split at hx
          · rename_i hv
            cases hx
            exact ⟨e, rfl, by simpa using h0, hv, rfl⟩
          · cases hx
      | err => rw [he] at hx; cases hx
      | panic => rw [he] at hx; cases hx
  · intro x hx
    unfold DateHour.parse at hx
    cases he : Expanded.parse s with
    | ok e =>
      rw [he] at hx
      simp only [Out.bind_ok, DateHour.fromExpanded, DateHour.fromYmdhOpt_eq] at hx
      split at hx
      · rename_i hv
        cases hx
        exact ⟨e, rfl, hv.2, hv.1, rfl⟩
      · cases hx
    | err => rw [he] at hx; cases hx
    | panic => rw [he] at hx; cases hx
  · intro x hx
    unfold UniformDate.parse at hx
    cases he : Expanded.parse s with
    | ok e =>
      rw [he] at hx
      simp only [Out.bind_ok, UniformDate.fromExpanded] at hx
      split at hx
      · cases hx
      · rename_i h0
        rw [UniformDate.fromYmdOpt_eq] at hx
        split at hx
        · rename_i hv
          cases hx
          exact ⟨e, rfl, by simpa using h0, hv, rfl⟩
        · cases hx
    | err => rw [he] at hx; cases hx
    | panic => rw [he] at hx; cases hx

example : Date.parse [49, 52, 52, 52, 46, 49, 51, 46, 49] = .err ∧            -- 1444.13.1
    Date.parse [49, 52, 52, 52, 46, 50, 46, 50, 57] = .err ∧                    -- 1444.2.29
    Date.parse [49, 52, 52, 52, 46, 49, 49, 46, 49, 49, 120] = .err ∧           -- 1444.11.11x
    DateHour.parse [49, 46, 49, 46, 49, 46, 50, 53] = .err ∧                    -- 1.1.1.25
    DateHour.parse [49, 46, 49, 46, 49, 46, 48] = .err ∧                        -- 1.1.1.0
    UniformDate.parse [49, 46, 49, 46, 51, 49] = .err := by decide              -- 1.1.31

/-- **`RawDate::parse`** accepts only `Y.M.D[.H]` texts (never the bare binary number), month
1–12, day 1–31, hour absent or 1–24, with exactly the components of the text. -/
theorem C13_rejects_raw (s : Bytes) (x : RawDate) (hx : RawDate.parse s = .ok x) :
    ∃ e, Expanded.parse s = .ok e ∧ ValidRaw e.month e.day e.hour ∧ x = mkRaw e.year e.month e.day e.hour ∧
      ∃ v rest, Scalar.toI64T s = .ok (v, rest) ∧ rest ≠ [] := by
  unfold RawDate.parse at hx
  cases he : Expanded.parse s with
  | ok e =>
    rw [he] at hx
    simp only [Out.bind_ok, RawDate.fromExpanded, RawDate.fromYmdhOpt_eq] at hx
    split at hx
    · rename_i hv
      simp only [Out.bind_ok] at hx
      split at hx
      · cases hx
      · rename_i v rest ht
        split at hx
        · cases hx
        · rename_i hne
          cases hx
          exact ⟨e, rfl, hv, rfl, v, rest, ht, by simpa using hne⟩
    · cases hx
  | err => rw [he] at hx; cases hx
  | panic => rw [he] at hx; cases hx

example : RawDate.parse [52, 51, 56, 48, 56, 55, 54, 48] = .err ∧               -- "43808760"
    Date.parse [52, 51, 56, 48, 56, 55, 54, 48] = .ok (mkDate 1 1 1) := by decide

/-- **no text parser panics**, for any byte string. -/
theorem C13_no_panic_parse (s : Bytes) :
    Date.parse s ≠ .panic ∧ DateHour.parse s ≠ .panic ∧ UniformDate.parse s ≠ .panic ∧
    RawDate.parse s ≠ .panic :=
  ⟨Date.parse_ne_panic s,
   bind_ne_panic (Expanded.parse_ne_panic s) DateHour.fromExpanded_ne_panic,
   bind_ne_panic (Expanded.parse_ne_panic s) UniformDate.fromExpanded_ne_panic,
   RawDate.parse_ne_panic s⟩

/-! ### the glue around the core: serde visitors and the heuristic binary entry points -/

/-- **every accepted string / number goes through the same parse as the core and yields the same
date**: the `Deserialize` impls (`deserialize_any` + `DateVisitor` / `DateHourVisitor` /
`UniformDateVisitor`) accept only `visit_str`-family calls, which are the type's `parse`, and
(`Date`, `DateHour` only) `visit_i32`, which is the type's `from_binary`; every other `visit_*`
is refused.  Hence everything proved about `parse` / `from_binary` holds for deserialized values. -/
theorem C13_visitor_core (t : LeafToken) :
    (∀ x, Date.visit t = .ok x →
      (∃ s, t = .str s ∧ Date.parse s = .ok x) ∨ (∃ v, t = .i32 v ∧ Date.fromBinary v = .ok x)) ∧
    (∀ x, DateHour.visit t = .ok x →
      (∃ s, t = .str s ∧ DateHour.parse s = .ok x) ∨ (∃ v, t = .i32 v ∧ DateHour.fromBinary v = .ok x)) ∧
    (∀ x, UniformDate.visit t = .ok x → ∃ s, t = .str s ∧ UniformDate.parse s = .ok x) ∧
    Date.visit t ≠ .panic ∧ DateHour.visit t ≠ .panic ∧ UniformDate.visit t ≠ .panic := by
  cases t with
  | i32 v =>
    refine ⟨fun x h => Or.inr ⟨v, rfl, h⟩, fun x h => Or.inr ⟨v, rfl, h⟩, (fun x h => by cases h),
      (C13_no_overflow_from_binary v).1, (C13_no_overflow_from_binary v).2.1, (by simp [UniformDate.visit])⟩
  | str s =>
    refine ⟨fun x h => Or.inl ⟨s, rfl, h⟩, fun x h => Or.inl ⟨s, rfl, h⟩, fun x h => ⟨s, rfl, h⟩,
      (C13_no_panic_parse s).1, (C13_no_panic_parse s).2.1, (C13_no_panic_parse s).2.2.1⟩
  | other =>
    refine ⟨(fun x h => by cases h), (fun x h => by cases h), (fun x h => by cases h), ?_, ?_, ?_⟩ <;>
      simp [Date.visit, DateHour.visit, UniformDate.visit]

example : Date.visit (.i32 56379360) = .ok (mkDate 1436 1 1) ∧ UniformDate.visit (.i32 56379360) = .err ∧
    Date.visit .other = .err := by decide

/-- **an `i32` outside the representable range is rejected, never wrapped**: whatever number
`visit_i32` (`from_binary`) accepts lies between 1 January −32768 00h (−243 247 680) and
31 December 32767 23h (330 847 679), and the date it yields encodes back to that very number
(day part for `Date`) — there is no reduction modulo anything. -/
theorem C13_visitor_i32_exact (v : Int) :
    (∀ x, Date.visit (.i32 v) = .ok x →
      -243247680 ≤ v ∧ v ≤ 330847679 ∧ x.toBinary = .ok (v - v.tmod 24)) ∧
    (∀ x, DateHour.visit (.i32 v) = .ok x →
      -243247680 ≤ v ∧ v ≤ 330847679 ∧ x.toBinary = .ok v) := by
  have hr : ∀ {α : Type} (f : Expanded → Out α) (x : α), (Expanded.fromBinary v).bind f = .ok x →
      -243247680 ≤ v ∧ v ≤ 330847679 := by
    intro α f x h
    cases he : Expanded.fromBinary v with
    | ok e => exact Expanded.fromBinary_range v e he
    | err => rw [he] at h; cases h
    | panic => rw [he] at h; cases h
  constructor
  · intro x h
    have h' : Date.fromBinary v = .ok x := h
    have r := hr (fun e => Date.fromExpanded { e with hour := 0 }) x (by
      unfold Date.fromBinary at h'
      cases he : Expanded.fromBinary v <;> rw [he] at h' <;> simp at h' ⊢ <;> exact h')
    exact ⟨r.1, r.2, C13_from_binary_reencode_date v x h'⟩
  · intro x h
    have h' : DateHour.fromBinary v = .ok x := h
    have r := hr _ x h'
    exact ⟨r.1, r.2, C13_from_binary_reencode_datehour v x h'⟩

example : Date.visit (.i32 2147483647) = .err ∧ Date.visit (.i32 (-2147483648)) = .err ∧
    Date.visit (.i32 330847679) = .ok (mkDate 32767 12 31) ∧ Date.visit (.i32 330847680) = .err := by decide

/-- **the heuristic entry points are restrictions of the plain ones**: `Date::from_binary_heuristic`
is `Date::from_binary` on numbers without an hour part and years above −100;
`DateHour::from_binary_heuristic` is `DateHour::from_binary` on years ≥ 1800 plus ±1.1.1.1. -/
theorem C13_heuristic (s : Int) :
    (∀ x, Date.fromBinaryHeuristic s = .ok x ↔
      Date.fromBinary s = .ok x ∧ x.year > -100 ∧ s.tmod 24 = 0) ∧
    (∀ x, DateHour.fromBinaryHeuristic s = .ok x ↔
      DateHour.fromBinary s = .ok x ∧
        (1800 ≤ x.year ∨ ((x.year = 1 ∨ x.year = -1) ∧ x.month = 1 ∧ x.day = 1 ∧ x.hour = 1))) :=
  ⟨Date.fromBinaryHeuristic_iff s, DateHour.fromBinaryHeuristic_iff s⟩

example : Date.fromBinaryHeuristic 56379360 = .ok (mkDate 1436 1 1) ∧ Date.fromBinaryHeuristic 60759371 = .err ∧
    DateHour.fromBinaryHeuristic 43791240 = .ok (mkDateHour (-1) 1 1 1) ∧
    DateHour.fromBinaryHeuristic 56379360 = .err := by decide

/-- the `Serialize` impls write the ISO-8601 text of `C13_iso`. -/
theorem C13_serialize (y : Int) (m d h : Nat) (hv : ValidMd m d) (hh : ValidHour h) :
    (mkDate y m d).serialize = .ok (isoText y m d 0) ∧
    (mkDateHour y m d h).serialize = .ok (isoText y m d h) := by
  have hl := validMd_lt hv
  have hh' : h < 32 := by unfold ValidHour at hh; omega
  exact ⟨format_iso y m d 0 hl.1 hl.2 (by omega), format_iso y m d h hl.1 hl.2 hh'⟩

/-! ### the two recorded findings, as theorems about the model (known_findings.txt) -/

/-- **recorded finding `bare-number-accepted`** — contradicts the clause "parsing accepts a numeric
Y.M.D[.H] string only with exactly those components" for `DateHour` and `UniformDate`:
the text `60759371` has no components at all (the integer prefix parser consumes everything, the
bare-number branch of `C13_rejects_grammar`), yet `DateHour::parse` accepts it — with an hour one
less than `DateHour::from_binary` gives for the same number — while `RawDate::parse`, whose logic
the docs say it follows, refuses it; `UniformDate::parse("-")` is 1 January −5000. -/
theorem C13_known_bare_number_accepted :
    Scalar.toI64T [54, 48, 55, 53, 57, 51, 55, 49] = .ok (60759371, []) ∧
    DateHour.parse [54, 48, 55, 53, 57, 51, 55, 49] = .ok (mkDateHour 1936 1 1 11) ∧
    DateHour.fromBinary 60759371 = .ok (mkDateHour 1936 1 1 12) ∧
    RawDate.parse [54, 48, 55, 53, 57, 51, 55, 49] = .err ∧
    UniformDate.parse [45] = .ok (mkUniform (-5000) 1 1) := by
  refine ⟨rfl, ?_⟩
  decide

/-- **recorded finding `empty-year-accepted`** — contradicts the same clause ("numeric Y"): in
`-.1.1` the year has a sign and no digit (`to_i64_t` reads a lone sign as 0 and consumes one
byte), yet `Date::parse` returns 1 January of year 0; likewise `DateHour::parse("+.1.1.1")`. -/
theorem C13_known_empty_year_accepted :
    Scalar.toI64T [45, 46, 49, 46, 49] = .ok (0, [46, 49, 46, 49]) ∧
    Date.parse [45, 46, 49, 46, 49] = .ok (mkDate 0 1 1) ∧
    DateHour.parse [43, 46, 49, 46, 49, 46, 49] = .ok (mkDateHour 0 1 1 1) := by
  refine ⟨rfl, ?_⟩
  decide

/-! ### injectivity: consequences of the round trips (dates as map keys, compared by rendering) -/

/-- **game-format text is injective on valid dates** — corollary of `C13_fmt_parse_date`: two valid
dates rendered (same `wide` flag) to the same text are the same date, component by component. -/
theorem C13_fmt_injective (wide : Bool) (y y' : Int) (m d m' d' : Nat)
    (hy : inI16 y = true) (hv : ValidMd m d) (hy' : inI16 y' = true) (hv' : ValidMd m' d')
    (txt : List UInt8)
    (h : format (mkDate y m d).raw (if wide then .dotWide else .dotShort) = .ok txt)
    (h' : format (mkDate y' m' d').raw (if wide then .dotWide else .dotShort) = .ok txt) :
    mkDate y m d = mkDate y' m' d' ∧ y = y' ∧ m = m' ∧ d = d' := by
  obtain ⟨t, ht, hp⟩ := C13_fmt_parse_date wide y m d hy hv
  obtain ⟨t', ht', hp'⟩ := C13_fmt_parse_date wide y' m' d' hy' hv'
  rw [h] at ht; rw [h'] at ht'
  cases ht; cases ht'
  rw [hp] at hp'
  have e : mkDate y m d = mkDate y' m' d' := by injection hp'
  refine ⟨e, ?_, ?_, ?_⟩
  · have := congrArg Date.year e; rwa [Date.year_mk, Date.year_mk] at this
  · have := congrArg Date.month e; rwa [Date.month_mk y hv, Date.month_mk y' hv'] at this
  · have := congrArg Date.day e; rwa [Date.day_mk y hv, Date.day_mk y' hv'] at this

/-- **the binary encoding is injective on dates of the binary range** — corollary of
`C13_bin_roundtrip_date`. -/
theorem C13_bin_injective_date (y y' : Int) (m d m' d' : Nat) (x x' : Date.Date)
    (hy : inI16 y = true) (h5000 : -5000 ≤ y) (hx : Date.fromYmdOpt y m d = .ok x)
    (hy' : inI16 y' = true) (h5000' : -5000 ≤ y') (hx' : Date.fromYmdOpt y' m' d' = .ok x')
    (b : Int) (h : x.toBinary = .ok b) (h' : x'.toBinary = .ok b) : x = x' := by
  obtain ⟨c, hc, -, hf⟩ := C13_bin_roundtrip_date y m d x hy h5000 hx
  obtain ⟨c', hc', -, hf'⟩ := C13_bin_roundtrip_date y' m' d' x' hy' h5000' hx'
  rw [h] at hc; rw [h'] at hc'
  cases hc; cases hc'
  rw [hf] at hf'
  injection hf'

/-- **the binary encoding is injective on date-hours of the binary range** — corollary of
`C13_bin_roundtrip_datehour`. -/
theorem C13_bin_injective_datehour (y y' : Int) (m d h m' d' h' : Nat) (x x' : DateHour)
    (hy : inI16 y = true) (h5000 : -5000 ≤ y) (hx : DateHour.fromYmdhOpt y m d h = .ok x)
    (hy' : inI16 y' = true) (h5000' : -5000 ≤ y') (hx' : DateHour.fromYmdhOpt y' m' d' h' = .ok x')
    (b : Int) (hb : x.toBinary = .ok b) (hb' : x'.toBinary = .ok b) : x = x' := by
  obtain ⟨c, hc, -, hf⟩ := C13_bin_roundtrip_datehour y m d h x hy h5000 hx
  obtain ⟨c', hc', -, hf'⟩ := C13_bin_roundtrip_datehour y' m' d' h' x' hy' h5000' hx'
  rw [hb] at hc; rw [hb'] at hc'
  cases hc; cases hc'
  rw [hf] at hf'
  injection hf'

/-- concrete: distinct valid dates have distinct renderings and distinct binary encodings -/
example : format (mkDate 1444 11 11).raw .dotShort ≠ format (mkDate 1444 11 12).raw .dotShort ∧
    (mkDate 1444 11 11).toBinary ≠ (mkDate 1444 11 12).toBinary ∧
    (mkDateHour 1936 1 1 11).toBinary ≠ (mkDateHour 1936 1 1 12).toBinary := by decide

end Jomini.Props.C13
