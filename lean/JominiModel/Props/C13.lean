import JominiModel.Model.Date
import JominiModel.Generated.Tables
/-
C13 — Date codecs are mutually inverse and date arithmetic is consistent.
Only property theorems live here; helper lemmas are in `Proofs/Date*.lean`.
-/
namespace Jomini.Props.C13
open Jomini Jomini.Date

/-- the calendar tables measured from the compiled code are the ones the model uses:
`DAYS_PER_MONTH` as observed through `Date::from_ymd_opt`, and `julian_ordinal_day`
(as read off `Date::to_binary`) is the running sum of the month lengths. -/
theorem C13_tables :
    Tables.dateDaysPerMonth = daysPerMonth ∧
    Tables.dateMonthStart.map (fun (n : Nat) => some ((n : Int) - 1))
      = (List.range 12).map (fun m => julianOrdinalDay (m + 1)) := by
  decide

end Jomini.Props.C13
