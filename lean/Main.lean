import JominiModel.Driver.All
/-
`jmdriver`: one request line in, one answer line out.  Evaluates the same model
definitions the theorems in `JominiModel/Props` are about.
-/
open Jomini.Driver

def answer (line : String) : String :=
  let ws := (line.trimAscii.toString.splitOn " ").filter (· ≠ "")
  match ws with
  | [] => "bad-op"
  | _ =>
    match allHandlers.findSome? (fun h => h ws) with
    | some r => r
    | none => "bad-op"

partial def loop (h : IO.FS.Stream) (out : IO.FS.Stream) : IO Unit := do
  let line ← h.getLine
  if line.isEmpty then return ()
  out.putStrLn (answer line)
  loop h out

def main : IO Unit := do
  let out ← IO.getStdout
  loop (← IO.getStdin) out
  out.flush
