import JominiModel.Props.C15
open Jomini.Props.C15
#print axioms C15_escape_opaque
#print axioms C15_unescape
#print axioms C15_quoted_output
#print axioms C15_state_reflects_calls
#print axioms C15_state_payload_independent
#print axioms C15_state_after_calls
#print axioms C15_total
#print axioms C15_end_on_empty_stack
#print axioms C15_total_run
#print axioms C15_error_state_unreachable
#print axioms C15_ints
#print axioms C15_lexemes_partial
