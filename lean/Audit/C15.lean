import JominiModel.Props.C15
#print axioms Jomini.Props.C15.C15_escape_opaque
#print axioms Jomini.Props.C15.C15_unescape
#print axioms Jomini.Props.C15.C15_quoted_output
#print axioms Jomini.Props.C15.C15_state_reflects_calls
#print axioms Jomini.Props.C15.C15_state_payload_independent
#print axioms Jomini.Props.C15.C15_state_after_calls
#print axioms Jomini.Props.C15.C15_total
#print axioms Jomini.Props.C15.C15_end_on_empty_stack
#print axioms Jomini.Props.C15.C15_total_run
#print axioms Jomini.Props.C15.C15_error_state_unreachable
#print axioms Jomini.Props.C15.C15_ints
#print axioms Jomini.Props.C15.C15_lexemes_partial
