import JominiModel.Props.C02
open Jomini.Props.C02
#print axioms C02_scalar_dispatch
#print axioms C02_option_unknown
#print axioms C02_stream_eq_spec_partial
#print axioms C02_tape_eq_spec_partial
#print axioms C02_paths_agree_partial
