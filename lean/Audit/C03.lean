import JominiModel.Props.C03
#print axioms Jomini.Props.C03.C03_nextState_table
