import JominiModel.Props.C03
<<<<<<< HEAD
#print axioms Jomini.Props.C03.C03_nextState_table
=======
open Jomini.Props.C03
#print axioms C03_nextState_table
#print axioms C03_plain_id_not_typed
#print axioms C03_key_fastpath_sim
#print axioms C03_iter_sim
#print axioms C03_fast_eq_reference
#print axioms C03_delimited
#print axioms C03_delimited_links
#print axioms C03_faithful_partial
>>>>>>> agent/bintape
