import JominiModel.Props.C03
open Jomini.Props.C03
#print axioms C03_nextState_table
