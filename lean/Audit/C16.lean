import JominiModel.Props.C16
#print axioms Jomini.Props.C16.C16_pretty_ws
#print axioms Jomini.Props.C16.C16_render_valid
#print axioms Jomini.Props.C16.C16_render_valid_pretty
#print axioms Jomini.Props.C16.C16_narrowing
#print axioms Jomini.Props.C16.C16_narrowing_integers
