import JominiModel.Props.C16
