import JominiModel.Props.C16
#print axioms Jomini.Props.C16.C16_pretty_ws
#print axioms Jomini.Props.C16.C16_render_valid
#print axioms Jomini.Props.C16.C16_render_valid_pretty
#print axioms Jomini.Props.C16.C16_narrowing
#print axioms Jomini.Props.C16.C16_narrowing_integers
#print axioms Jomini.Props.C16.C16_group_lossless
#print axioms Jomini.Props.C16.C16_group_is_stable_grouping
#print axioms Jomini.Props.C16.C16_preserve_fields
#print axioms Jomini.Props.C16.C16_object_modes
#print axioms Jomini.Props.C16.C16_content
#print axioms Jomini.Props.C16.C16_content_value
#print axioms Jomini.Props.C16.C16_total
#print axioms Jomini.Props.C16.C16_total_decidable
#print axioms Jomini.Props.C16.C16_content_array
#print axioms Jomini.Props.C16.C16_total_all
#print axioms Jomini.Props.C16.C16_content_tapeOf
