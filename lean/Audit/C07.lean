import JominiModel.Props.C07
open Jomini.Props.C07
#print axioms C07_boundary_table
