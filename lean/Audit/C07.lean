import JominiModel.Props.C07
#print axioms Jomini.Props.C07.C07_boundary_table
#print axioms Jomini.Props.C07.C07_blank_table
#print axioms Jomini.Props.C07.C07_leadingWhitespace_spec
#print axioms Jomini.Props.C07.C07_quoteFinder_spec
#print axioms Jomini.Props.C07.C07_containsZeroByte_spec
#print axioms Jomini.Props.C07.C07_containsByte_spec
#print axioms Jomini.Props.C07.C07_resume_quote
#print axioms Jomini.Props.C07.C07_resume_quote_again
#print axioms Jomini.Props.C07.C07_resume_quote_carry
#print axioms Jomini.Props.C07.C07_resume_unquoted
#print axioms Jomini.Props.C07.C07_resume_comment
#print axioms Jomini.Props.C07.C07_no_token_split
#print axioms Jomini.Props.C07.C07_fallback_call_eq_spec
#print axioms Jomini.Props.C07.C07_spec_total
#print axioms Jomini.Props.C07.C07_start_related
#print axioms Jomini.Props.C07.C07_fallback_schedule_independent_partial
#print axioms Jomini.Props.C07.C07_two_schedules_agree
