import JominiModel.Props.C12
open Jomini.Props.C12
#print axioms C12_tables_win1252
#print axioms C12_win1252
#print axioms C12_borrowed
#print axioms C12_win1252_borrowed_iff
