import JominiModel.Props.C12
open Jomini.Props.C12
#print axioms C12_tables_win1252
#print axioms C12_win1252
#print axioms C12_borrowed
#print axioms C12_win1252_borrowed_iff
#print axioms C12_utf8
#print axioms C12_valid
#print axioms C12_utf8_borrowed_sound
