import JominiModel.Props.C12
#print axioms Jomini.Props.C12.C12_tables_win1252
#print axioms Jomini.Props.C12.C12_win1252
#print axioms Jomini.Props.C12.C12_borrowed
#print axioms Jomini.Props.C12.C12_win1252_borrowed_iff
#print axioms Jomini.Props.C12.C12_utf8
#print axioms Jomini.Props.C12.C12_valid
#print axioms Jomini.Props.C12.C12_utf8_borrowed_sound
#print axioms Jomini.Props.C12.C12_utf8_borrowed_iff
#print axioms Jomini.Props.C12.C12_utf8_owned_iff
#print axioms Jomini.Props.C12.C12_utf8_identity_iff
#print axioms Jomini.Props.C12.C12_bridge_tables
#print axioms Jomini.Props.C12.C12_bridge_textde_w1252
#print axioms Jomini.Props.C12.C12_bridge_textde_utf8
#print axioms Jomini.Props.C12.C12_bridge_json_w1252
#print axioms Jomini.Props.C12.C12_bridge_json_utf8
#print axioms Jomini.Props.C12.C12_bridge_binde_w1252
