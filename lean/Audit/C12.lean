import JominiModel.Props.C12
#print axioms Jomini.Props.C12.C12_tables_win1252
#print axioms Jomini.Props.C12.C12_win1252
#print axioms Jomini.Props.C12.C12_borrowed
#print axioms Jomini.Props.C12.C12_win1252_borrowed_iff
#print axioms Jomini.Props.C12.C12_utf8
#print axioms Jomini.Props.C12.C12_valid
#print axioms Jomini.Props.C12.C12_utf8_borrowed_sound
