import JominiModel.Props.C12
open Jomini.Props.C12
#print axioms C12_tables_win1252
