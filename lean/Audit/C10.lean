import JominiModel.Props.C10
open Jomini.Props.C10
#print axioms C10_bool_leaf
