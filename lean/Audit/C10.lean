import JominiModel.Props.C10
#print axioms Jomini.Props.C10.C10_same_traversal
#print axioms Jomini.Props.C10.C10_leaf_agreement_suffices
#print axioms Jomini.Props.C10.C10_bool_leaf
#print axioms Jomini.Props.C10.C10_decimal_reads_back
#print axioms Jomini.Props.C10.C10_uint_leaf
#print axioms Jomini.Props.C10.C10_int_leaf
#print axioms Jomini.Props.C10.C10_string_leaf
#print axioms Jomini.Props.C10.C10_key_token
#print axioms Jomini.Props.C10.C10_rgb_head
#print axioms Jomini.Props.C10.C10_flat_end_to_end
#print axioms Jomini.Props.C10.C10_flat_date_leaf
#print axioms Jomini.Date.C10_date_leaf
#print axioms Jomini.Date.C10_date_leaf_agree
#print axioms Jomini.Date.C10_datehour_leaf
#print axioms Jomini.Date.C10_datehour_leaf_agree
#print axioms Jomini.Date.C10_date_leaf_needs_year_bound
