import JominiModel.Props.C10
open Jomini.Props.C10
#print axioms C10_same_traversal
#print axioms C10_leaf_agreement_suffices
#print axioms C10_bool_leaf
#print axioms C10_decimal_reads_back
#print axioms C10_uint_leaf
#print axioms C10_string_leaf
#print axioms C10_key_token
#print axioms C10_rgb_head
