import JominiModel.Props.C14
#print axioms Jomini.Props.C14.C14_indent
#print axioms Jomini.Props.C14.C14_offsets_irrelevant
#print axioms Jomini.Props.C14.C14_idempotent
