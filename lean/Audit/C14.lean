import JominiModel.Props.C14
#print axioms Jomini.Props.C14.C14_indent
#print axioms Jomini.Props.C14.C14_offsets_irrelevant
#print axioms Jomini.Props.C14.C14_idempotent
#print axioms Jomini.Props.C14.C14_write_flat
#print axioms Jomini.Props.C14.C14_roundtrip_flat
#print axioms Jomini.Props.C14.C14_idempotent_flat
#print axioms Jomini.Props.C14.C14_write_nested
#print axioms Jomini.Props.C14.C14_roundtrip_nested
#print axioms Jomini.Props.C14.C14_roundtrip_arrays
#print axioms Jomini.Props.C14.C14_roundtrip_containers
#print axioms Jomini.Props.C14.C14_known_param_scalar_breaks
#print axioms Jomini.Props.C14.C14_known_mixed_nested_operator_breaks
#print axioms Jomini.Props.C14.C14_known_empty_first_element_breaks
#print axioms Jomini.Props.C14.C14_known_header_empty_body_breaks
#print axioms Jomini.Props.C14.C14_nested_roundtrip
#print axioms Jomini.Props.C14.C14_roundtrip_full
#print axioms Jomini.Props.C14.C14_failing_sink
