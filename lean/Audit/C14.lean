import JominiModel.Props.C14
open Jomini.Props.C14
#print axioms C14_indent
#print axioms C14_offsets_irrelevant
#print axioms C14_idempotent
