import JominiModel.Props.C18
open Jomini.Props.C18
#print axioms C18_alias_replaces
