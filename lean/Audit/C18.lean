import JominiModel.Props.C18
#print axioms Jomini.Props.C18.C18_run_ok
#print axioms Jomini.Props.C18.C18_duplicated
#print axioms Jomini.Props.C18.C18_take_last
#print axioms Jomini.Props.C18.C18_dup_error_arm
#print axioms Jomini.Props.C18.C18_dup_error
#print axioms Jomini.Props.C18.C18_plain_once
#print axioms Jomini.Props.C18.C18_missing
#print axioms Jomini.Props.C18.C18_missing_error
#print axioms Jomini.Props.C18.C18_dup_beats_missing
#print axioms Jomini.Props.C18.C18_alias_token
#print axioms Jomini.Props.C18.C18_unknown_ignored
#print axioms Jomini.Props.C18.C18_perm
#print axioms Jomini.Props.C18.C18_run_eq_folds
#print axioms Jomini.Props.C18.C18_undeliverable_key_rejected
#print axioms Jomini.Props.C18.C18_known_unknown_int_key_binary
#print axioms Jomini.Props.C18.C18_known_unknown_digit_key_token_struct
