import JominiModel.Props.C18
open Jomini.Props.C18
#print axioms C18_run_ok
#print axioms C18_duplicated
#print axioms C18_take_last
#print axioms C18_dup_error_arm
#print axioms C18_dup_error
#print axioms C18_plain_once
#print axioms C18_missing
#print axioms C18_missing_error
#print axioms C18_alias_token
#print axioms C18_unknown_ignored
#print axioms C18_perm
