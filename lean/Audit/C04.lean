import JominiModel.Props.C04
#print axioms Jomini.Props.C04.C04_token_dispatch
#print axioms Jomini.Props.C04.C04_rgb_dispatch
#print axioms Jomini.Props.C04.C04_rgb_components
#print axioms Jomini.Props.C04.C04_root_only_maps
#print axioms Jomini.Props.C04.C04_ondemand_eq_stream
#print axioms Jomini.Props.C04.C04_readers_agree
#print axioms Jomini.Props.C04.C04_tape_eq_ondemand_partial
#print axioms Jomini.Props.C04.C04_eq_spec_partial
