import JominiModel.Props.C04
#print axioms Jomini.Props.C04.C04_token_dispatch
#print axioms Jomini.Props.C04.C04_u16_hint
#print axioms Jomini.Props.C04.C04_rgb_dispatch
#print axioms Jomini.Props.C04.C04_rgb_components
#print axioms Jomini.Props.C04.C04_root_only_maps
#print axioms Jomini.Props.C04.C04_ondemand_eq_stream
#print axioms Jomini.Props.C04.C04_readers_agree
#print axioms Jomini.Props.C04.C04_tape_eq_ondemand_partial
#print axioms Jomini.Props.C04.C04_eq_spec_partial
#print axioms Jomini.BinDe.C04_tape_end_to_end_partial
#print axioms Jomini.BinDe.C04_tape_end_to_end
#print axioms Jomini.BinDe.C04_eq_spec_tape
#print axioms Jomini.BinDe.C04_paths_end_to_end_partial
#print axioms Jomini.BinDe.C04_end_to_end_halves
#print axioms Jomini.BinDe.C04_eq_spec_seq
#print axioms Jomini.BinDe.C04_tape_eq_ondemand
#print axioms Jomini.BinDe.C04_paths_end_to_end
