import JominiModel.Props.C04
open Jomini.Props.C04
#print axioms C04_root_only_maps
