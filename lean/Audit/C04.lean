import JominiModel.Props.C04
open Jomini.Props.C04
#print axioms C04_token_dispatch
#print axioms C04_rgb_dispatch
#print axioms C04_rgb_components
#print axioms C04_root_only_maps
#print axioms C04_ondemand_eq_stream_partial
#print axioms C04_readers_agree
