import JominiModel.Props.C11
open Jomini.Props.C11
#print axioms C11_bool
#print axioms C11_u64_digits
