import JominiModel.Props.C11
#print axioms Jomini.Props.C11.C11_bool
#print axioms Jomini.Props.C11.C11_u64_digits
#print axioms Jomini.Props.C11.C11_u64
#print axioms Jomini.Props.C11.C11_u64_out_of_range
#print axioms Jomini.Props.C11.C11_u64_foreign
#print axioms Jomini.Props.C11.C11_i64
#print axioms Jomini.Props.C11.C11_i64_out_of_range
#print axioms Jomini.Props.C11.C11_i64_foreign
#print axioms Jomini.Props.C11.C11_f64_shape
#print axioms Jomini.Props.C11.C11_f64_value
#print axioms Jomini.Props.C11.C11_u64ToF64_exact
#print axioms Jomini.Props.C11.C11_f64_correctly_rounded
#print axioms Jomini.Props.C11.C11_f64_integers_exact_or_refused
#print axioms Jomini.Props.C11.C11_f64_big_integer_refused
#print axioms Jomini.Props.C11.C11_f64_finite
#print axioms Jomini.Props.C11.C11_f64_two_ulp
#print axioms Jomini.Props.C11.C11_rne_within_half_ulp
