import JominiModel.Props.C11
open Jomini.Props.C11
#print axioms C11_bool
#print axioms C11_u64_digits
#print axioms C11_u64
#print axioms C11_u64_out_of_range
#print axioms C11_u64_foreign
#print axioms C11_i64
#print axioms C11_i64_out_of_range
#print axioms C11_i64_foreign
#print axioms C11_f64_shape
#print axioms C11_f64_value
#print axioms C11_u64ToF64_exact
#print axioms C11_f64_correctly_rounded
#print axioms C11_f64_integers_exact_or_refused
#print axioms C11_f64_big_integer_refused
#print axioms C11_f64_finite_partial
