import JominiModel.Props.C11
#print axioms Jomini.Props.C11.C11_bool
#print axioms Jomini.Props.C11.C11_u64_digits
