import JominiModel.Props.C08
#print axioms Jomini.Props.C08.C08_lexeme_ids_measured
#print axioms Jomini.Props.C08.C08_codec
#print axioms Jomini.Props.C08.C08_codec_exclusions
#print axioms Jomini.Props.C08.C08_prefix_stable
#print axioms Jomini.Props.C08.C08_lexer_api
#print axioms Jomini.Props.C08.C08_lexer_primitives
#print axioms Jomini.Props.C08.C08_fits_of_large
#print axioms Jomini.Props.C08.C08_Buffer_refines
#print axioms Jomini.Props.C08.C08_Buffer_refines_init
#print axioms Jomini.Props.C08.C08_stream_eq_lexer
#print axioms Jomini.Props.C08.C08_slice_eq_lexer
#print axioms Jomini.Props.C08.C08_stream_with_faults
#print axioms Jomini.Props.C08.C08_too_small_is_error
