import JominiModel.Props.C08
open Jomini.Props.C08
#print axioms C08_lexeme_ids_measured
