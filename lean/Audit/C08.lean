import JominiModel.Props.C08
#print axioms Jomini.Props.C08.C08_lexeme_ids_measured
