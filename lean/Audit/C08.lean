import JominiModel.Props.C08
open Jomini.Props.C08
#print axioms C08_lexeme_ids_measured
#print axioms C08_codec
#print axioms C08_codec_exclusions
#print axioms C08_prefix_stable
#print axioms C08_lexer_api
#print axioms C08_Buffer_refines
#print axioms C08_Buffer_refines_init
#print axioms C08_stream_eq_lexer
#print axioms C08_slice_eq_lexer
#print axioms C08_stream_with_faults
