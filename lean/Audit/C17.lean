import JominiModel.Props.C17
#print axioms Jomini.Props.C17.C17_fields_len
#print axioms Jomini.Props.C17.C17_fields_step
#print axioms Jomini.Props.C17.C17_values_len
#print axioms Jomini.Props.C17.C17_groups
#print axioms Jomini.Props.C17.C17_groups_perm
#print axioms Jomini.Props.C17.C17_remainder_mixed
#print axioms Jomini.Props.C17.C17_remainder_root
#print axioms Jomini.Props.C17.C17_remainder_object
#print axioms Jomini.Props.C17.C17_remainder_array
#print axioms Jomini.Props.C17.C17_remainder_mixed_view
#print axioms Jomini.Props.C17.C17_closure
#print axioms Jomini.Props.C17.C17_no_panic
