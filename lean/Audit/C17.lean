import JominiModel.Props.C17
open Jomini.Props.C17
#print axioms C17_fields_len
#print axioms C17_fields_step
#print axioms C17_values_len
#print axioms C17_groups
#print axioms C17_groups_perm
#print axioms C17_remainder_mixed
#print axioms C17_remainder_root
#print axioms C17_remainder_object
#print axioms C17_remainder_array
#print axioms C17_remainder_mixed_view
#print axioms C17_closure
#print axioms C17_no_panic
