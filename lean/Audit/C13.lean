import JominiModel.Props.C13
open Jomini.Props.C13
#print axioms C13_tables
