import JominiModel.Props.C13
open Jomini.Props.C13
#print axioms C13_tables
#print axioms C13_bin_roundtrip_date
#print axioms C13_bin_roundtrip_datehour
#print axioms C13_bin_roundtrip_needs_year_bound
#print axioms C13_from_binary_reencode_datehour
#print axioms C13_from_binary_reencode_date
#print axioms C13_no_overflow_from_binary
#print axioms C13_no_overflow_to_binary
#print axioms C13_fast_digit_parse
#print axioms C13_fastpaths_agree
