import JominiModel.Props.C13
#print axioms Jomini.Props.C13.C13_tables
#print axioms Jomini.Props.C13.C13_bin_roundtrip_date
#print axioms Jomini.Props.C13.C13_bin_roundtrip_datehour
#print axioms Jomini.Props.C13.C13_bin_roundtrip_needs_year_bound
#print axioms Jomini.Props.C13.C13_from_binary_reencode_datehour
#print axioms Jomini.Props.C13.C13_from_binary_reencode_date
#print axioms Jomini.Props.C13.C13_no_overflow_from_binary
#print axioms Jomini.Props.C13.C13_no_overflow_to_binary
#print axioms Jomini.Props.C13.C13_fast_digit_parse
#print axioms Jomini.Props.C13.C13_fastpaths_agree
