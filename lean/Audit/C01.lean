import JominiModel.Props.C01
open Jomini.Props.C01
#print axioms C01_tables_sse_eq_tab
#print axioms C01_split_blocks
#print axioms C01_quote_blocks
#print axioms C01_skipws
#print axioms C01_bom
#print axioms C01_parse_total
#print axioms C01_step_blank_partial
#print axioms C01_step_blank_key_open
#print axioms C01_step_blank_parseopen_open
#print axioms C01_faithful_flat_partial
#print axioms C01_faithful_flat_positions_partial
#print axioms C01_layout_independent_flat_partial
#print axioms C01_faithful_nested_partial
#print axioms C01_layout_independent_nested_partial
#print axioms C01_faithful_tree_partial
#print axioms C01_layout_independent_tree_partial
#print axioms C01_C06_text_checker_sound
#print axioms C01_C06_text_inv
#print axioms C01_C19_quote_not_extended
#print axioms C01_C19_scalar_not_merged
