import JominiModel.Props.C01
open Jomini.Props.C01
#print axioms C01_tables_sse_eq_tab
