import JominiModel.Props.C01
#print axioms Jomini.Props.C01.C01_tables_sse_eq_tab
#print axioms Jomini.Props.C01.C01_split_blocks
#print axioms Jomini.Props.C01.C01_quote_blocks
#print axioms Jomini.Props.C01.C01_skipws
#print axioms Jomini.Props.C01.C01_bom
#print axioms Jomini.Props.C01.C01_step_blank_partial
#print axioms Jomini.Props.C01.C01_step_blank_key_open
#print axioms Jomini.Props.C01.C01_step_blank_parseopen_open
